use vstd::prelude::*;
verus! {
fn f(v: Vec<u64>) -> (s: u64)
    ensures v@.len() > 0 ==> s == v@.last()
{
    let mut s = 0u64;
    let ghost vs = v@;
    for x in it: v
        invariant
            vstd::std_specs::vec::into_iter_elts(it.snapshot@) == vs,
            it.history@ =~= vs.take(it.index@),
            0 <= it.index@ <= vs.len(),
            it.index@ > 0 ==> s == vs[it.index@ - 1],
    {
        s = x;
    }
    s
}
}
fn main() {}
