use vstd::prelude::*;
use vstd::string::StringSliceAdditionalSpecFns;
verus! {

pub open spec fn is_start(b: u8) -> bool { (0x41 <= b <= 0x5a) || (0x61 <= b <= 0x7a) || b == 0x5f }
pub open spec fn is_cont(b: u8) -> bool { is_start(b) || (0x30 <= b <= 0x39) }
pub open spec fn name_grammar(s: Seq<u8>) -> bool {
    s.len() > 0 && is_start(s[0]) && forall|i: int| 1 <= i < s.len() ==> is_cont(#[trigger] s[i])
}

pub assume_specification[ u8::is_ascii_alphabetic ](b: &u8) -> (r: bool)
    ensures r == ((0x41 <= *b <= 0x5a) || (0x61 <= *b <= 0x7a));
pub assume_specification[ u8::is_ascii_alphanumeric ](b: &u8) -> (r: bool)
    ensures r == ((0x41 <= *b <= 0x5a) || (0x61 <= *b <= 0x7a) || (0x30 <= *b <= 0x39));

pub struct Name {}
impl Name {
    pub const fn is_valid_syntax(value: &str) -> (r: bool)
        ensures r == name_grammar(value.spec_bytes())
    {
        let bytes = value.as_bytes();
        let Some(first) = bytes.first() else {
            return false;
        };
        if !Self::is_name_start(*first) {
            return false;
        }
        // TODO: iterator when available in const
        let mut i = 1;
        while i < bytes.len()
            invariant 1 <= i <= bytes.len(), bytes@ == value.spec_bytes(), bytes@.len() > 0, is_start(bytes@[0]), forall|j: int| 1 <= j < i ==> is_cont(#[trigger] bytes@[j]),
            decreases bytes.len() - i
        {
            if !Self::is_name_continue(bytes[i]) {
                return false;
            }
            i += 1
        }
        true
    }

    /// <https://spec.graphql.org/October2021/#NameStart>
    const fn is_name_start(byte: u8) -> (r: bool) ensures r == is_start(byte) {
        byte.is_ascii_alphabetic() || byte == b'_'
    }

    /// <https://spec.graphql.org/October2021/#NameContinue>
    const fn is_name_continue(byte: u8) -> (r: bool) ensures r == is_cont(byte) {
        byte.is_ascii_alphanumeric() || byte == b'_'
    }
}

} // verus!
fn main() {}
