use vstd::prelude::*;
verus! {

// ---- shim prelude (trusted) ----
#[derive(PartialEq, Eq, Structural)]
pub struct Name { pub id: u64 }
impl Clone for Name {
    fn clone(&self) -> (r: Self) ensures r == *self { Name { id: self.id } }
}
pub type NamedType = Name;

pub struct Schema { pub dummy: u8 }
pub uninterp spec fn subtype(s: &Schema, a: Name, b: Name) -> bool;
impl Schema {
    #[verifier::external_body]
    pub fn is_subtype(&self, abstract_type: &Name, maybe_subtype: &Name) -> (r: bool)
        ensures r == subtype(self, *abstract_type, *maybe_subtype)
    { unimplemented!() }
}

// ---- extracted ----
pub enum Type {
    Named(NamedType),
    NonNullNamed(NamedType),
    List(Box<Type>),
    NonNullList(Box<Type>),
}

// spec
pub open spec fn compat(v: Type, l: Type) -> bool
    decreases v
{
    match (l, v) {
        (Type::NonNullNamed(ln), Type::NonNullNamed(vn)) => ln == vn,
        (Type::NonNullList(li), Type::NonNullList(vi)) => compat(*vi, *li),
        (Type::NonNullNamed(_), _) => false,
        (Type::NonNullList(_), _) => false,
        // location nullable
        (Type::Named(ln), Type::NonNullNamed(vn)) => ln == vn,
        (Type::Named(ln), Type::Named(vn)) => ln == vn,
        (Type::List(li), Type::List(vi)) => compat(*vi, *li),
        (Type::List(li), Type::NonNullList(vi)) => compat(*vi, *li),
        _ => false,
    }
}

impl Type {
    pub fn is_non_null(&self) -> (r: bool)
        ensures r == (self is NonNullNamed || self is NonNullList)
    {
        matches!(self, Type::NonNullNamed(_) | Type::NonNullList(_))
    }

    pub fn is_assignable_to(&self, target: &Self) -> (r: bool)
        ensures r == compat(*self, *target)
        decreases self
    {
        match (target, self) {
            // Can't assign a nullable type to a non-nullable type.
            (Type::NonNullNamed(_) | Type::NonNullList(_), Type::Named(_) | Type::List(_)) => false,
            // Can't assign a list type to a non-list type.
            (Type::Named(_) | Type::NonNullNamed(_), Type::List(_) | Type::NonNullList(_)) => false,
            // Can't assign a non-list type to a list type.
            (Type::List(_) | Type::NonNullList(_), Type::Named(_) | Type::NonNullNamed(_)) => false,
            // Non-null named types can be assigned if they are the same.
            (Type::NonNullNamed(left), Type::NonNullNamed(right)) => left == right,
            // Non-null list types can be assigned if their inner types are compatible.
            (Type::NonNullList(left), Type::NonNullList(right)) => right.is_assignable_to(left),
            // Both nullable and non-nullable named types can be assigned to a nullable type of the
            // same name.
            (Type::Named(left), Type::Named(right) | Type::NonNullNamed(right)) => left == right,
            // Nullable and non-nullable lists can be assigned to a matching nullable list type.
            (Type::List(left), Type::List(right) | Type::NonNullList(right)) => {
                right.is_assignable_to(left)
            }
        }
    }
}


// spec transcribed from IsValidImplementationFieldType / IsSubType
pub open spec fn spec_nullable(t: Type) -> Type {
    match t { Type::NonNullNamed(n) => Type::Named(n), Type::NonNullList(i) => Type::List(i), t => t }
}
pub open spec fn spec_non_null(t: Type) -> bool { t is NonNullNamed || t is NonNullList }
pub open spec fn is_list(t: Type) -> bool { t is List || t is NonNullList }
pub open spec fn size(t: Type) -> nat decreases t {
    match t { Type::Named(_) => 1, Type::NonNullNamed(_) => 2, Type::List(i) => 2 + size(*i), Type::NonNullList(i) => 3 + size(*i) }
}
pub open spec fn valid_impl(s: &Schema, field_type: Type, implemented: Type) -> bool
    decreases size(field_type)
{
    if spec_non_null(field_type) {
        // 1. unwrap non-null on the implementing side; on the implemented side only if it is non-null
        valid_impl(s, spec_nullable(field_type), if spec_non_null(implemented) { spec_nullable(implemented) } else { implemented })
    } else if field_type is List && implemented is List {
        valid_impl(s, *field_type->List_0, *implemented->List_0)
    } else {
        // 3. IsSubType(fieldType, implementedFieldType)
        match (field_type, implemented) {
            (Type::Named(a), Type::Named(b)) => a == b || subtype(s, b, a),
            _ => false,
        }
    }
}

pub fn is_valid_implementation_field_type(
    schema: &Schema,
    interface_field_type: &Type,
    impl_field_type: &Type,
) -> (r: bool)
    ensures r == valid_impl(schema, *impl_field_type, *interface_field_type)
    decreases interface_field_type
{
    proof { reveal_with_fuel(valid_impl, 3); }
    match (interface_field_type, impl_field_type) {
        // NonNull interface field requires NonNull implementation
        (Type::NonNullNamed(_) | Type::NonNullList(_), Type::Named(_) | Type::List(_)) => false,
        // Both NonNull named: inner names must match or impl must be a subtype
        (Type::NonNullNamed(iface_name), Type::NonNullNamed(impl_name)) => {
            iface_name == impl_name || schema.is_subtype(iface_name, impl_name)
        }
        // Both NonNull lists: recurse on item types
        (Type::NonNullList(iface_inner), Type::NonNullList(impl_inner)) => {
            is_valid_implementation_field_type(schema, iface_inner, impl_inner)
        }
        // NonNull list vs NonNull named or vice versa
        (Type::NonNullNamed(_), Type::NonNullList(_))
        | (Type::NonNullList(_), Type::NonNullNamed(_)) => false,
        // Nullable named: impl can be nullable or non-null, same name or subtype
        (Type::Named(iface_name), Type::Named(impl_name) | Type::NonNullNamed(impl_name)) => {
            iface_name == impl_name || schema.is_subtype(iface_name, impl_name)
        }
        // Nullable list: impl can be nullable or non-null list, recurse on items
        (Type::List(iface_inner), Type::List(impl_inner) | Type::NonNullList(impl_inner)) => {
            is_valid_implementation_field_type(schema, iface_inner, impl_inner)
        }
        // Named vs List mismatch
        (Type::Named(_), Type::List(_) | Type::NonNullList(_)) => false,
        (Type::List(_), Type::Named(_) | Type::NonNullNamed(_)) => false,
    }
}

} // verus!
fn main() {}
