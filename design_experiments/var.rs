use vstd::prelude::*;
verus! {

#[derive(PartialEq, Eq, Structural)]
pub struct Name { pub id: u64 }
impl Clone for Name {
    fn clone(&self) -> (r: Self) ensures r == *self { Name { id: self.id } }
}
pub type NamedType = Name;

pub enum Type {
    Named(NamedType),
    NonNullNamed(NamedType),
    List(Box<Type>),
    NonNullList(Box<Type>),
}
impl Clone for Type {
    #[verifier::external_body]
    fn clone(&self) -> (r: Self) ensures r == *self { unimplemented!() }
}

pub struct Node<T>(pub Box<T>);
impl<T> Node<T> {
    pub fn as_ref(&self) -> (r: &T) ensures *r == *self.0 { &*self.0 }
}
impl<T> core::ops::Deref for Node<T> {
    type Target = T;
    fn deref(&self) -> (r: &T) ensures *r == *self.0 { &*self.0 }
}

pub enum Value { Null, Other(u64) }
impl Value {
    pub fn is_null(&self) -> (r: bool) ensures r == (self is Null) { matches!(self, Value::Null) }
}
pub struct VariableDefinition { pub ty: Node<Type>, pub default_value: Option<Node<Value>> }
pub struct InputValueDefinition { pub ty: Node<Type>, pub default_value: Option<Node<Value>> }

pub open spec fn compat(v: Type, l: Type) -> bool
    decreases v
{
    match (l, v) {
        (Type::NonNullNamed(ln), Type::NonNullNamed(vn)) => ln == vn,
        (Type::NonNullList(li), Type::NonNullList(vi)) => compat(*vi, *li),
        (Type::NonNullNamed(_), _) => false,
        (Type::NonNullList(_), _) => false,
        (Type::Named(ln), Type::NonNullNamed(vn)) => ln == vn,
        (Type::Named(ln), Type::Named(vn)) => ln == vn,
        (Type::List(li), Type::List(vi)) => compat(*vi, *li),
        (Type::List(li), Type::NonNullList(vi)) => compat(*vi, *li),
        _ => false,
    }
}
pub open spec fn spec_nullable(t: Type) -> Type {
    match t { Type::NonNullNamed(n) => Type::Named(n), Type::NonNullList(i) => Type::List(i), t => t }
}
pub open spec fn spec_non_null(t: Type) -> bool { t is NonNullNamed || t is NonNullList }
pub open spec fn usage_allowed(vt: Type, vdefault: Option<Value>, lt: Type, ldefault: bool) -> bool {
    if spec_non_null(lt) && !spec_non_null(vt) {
        let has_non_null_var_default = vdefault is Some && !(vdefault->0 is Null);
        if !has_non_null_var_default && !ldefault { false }
        else { compat(vt, spec_nullable(lt)) }
    } else { compat(vt, lt) }
}

impl Type {
    pub fn nullable(self) -> (r: Self) ensures r == spec_nullable(self) {
        match self {
            Type::Named(_) => self,
            Type::List(_) => self,
            Type::NonNullNamed(name) => Type::Named(name),
            Type::NonNullList(inner) => Type::List(inner),
        }
    }
    pub fn is_non_null(&self) -> (r: bool)
        ensures r == spec_non_null(*self)
    {
        matches!(self, Type::NonNullNamed(_) | Type::NonNullList(_))
    }
    #[verifier::external_body]
    pub fn is_assignable_to(&self, target: &Self) -> (r: bool)
        ensures r == compat(*self, *target)
    { unimplemented!() }
}

pub open spec fn opt_val(o: Option<Node<Value>>) -> Option<Value> {
    match o { Some(n) => Some(*n.0), None => None }
}

fn is_variable_usage_allowed(
    variable_def: &VariableDefinition,
    variable_usage: &InputValueDefinition,
) -> (r: bool)
    ensures r == usage_allowed(*variable_def.ty.0, opt_val(variable_def.default_value), *variable_usage.ty.0, variable_usage.default_value is Some)
{
    // 1. Let variable_ty be the expected type of variable_def.
    let variable_ty = &variable_def.ty;
    // 2. Let location_ty be the expected type of the Argument,
    // ObjectField, or ListValue entry where variableUsage is
    // located.
    let location_ty = &variable_usage.ty;
    // 3. if location_ty is a non-null type AND variable_ty is
    // NOT a non-null type:
    if location_ty.is_non_null() && !variable_ty.is_non_null() {
        // 3.a. let hasNonNullVariableDefaultValue be true
        // if a default value exists for variableDefinition
        // and is not the value null.
        let has_non_null_default_value = variable_def.default_value.is_some();
        // 3.b. Let hasLocationDefaultValue be true if a default
        // value exists for the Argument or ObjectField where
        // variableUsage is located.
        let has_location_default_value = variable_usage.default_value.is_some();
        // 3.c. If hasNonNullVariableDefaultValue is NOT true
        // AND hasLocationDefaultValue is NOT true, return
        // false.
        if !has_non_null_default_value && !has_location_default_value {
            return false;
        }

        // 3.d. Let nullable_location_ty be the unwrapped
        // nullable type of location_ty.
        return variable_ty.is_assignable_to(&location_ty.as_ref().clone().nullable());
    }

    variable_ty.is_assignable_to(location_ty)
}

} // verus!
fn main() {}
