use vstd::prelude::*;
verus! {

pub struct LimitTracker {
    pub current: usize,
    /// High Water mark for this limit
    pub high: usize,
    /// Limit.
    pub limit: usize,
}

impl LimitTracker {
    pub open spec fn wf(&self) -> bool { self.current <= self.limit && self.current <= self.high }

    pub fn new(limit: usize) -> (r: Self)
        ensures r.current == 0, r.high == 0, r.limit == limit, r.wf()
    {
        Self {
            current: 0,
            high: 0,
            limit,
        }
    }

    /// Return whether the limit was reached
    #[must_use]
    pub fn check_and_increment(&mut self) -> (reached: bool)
        requires old(self).wf(), old(self).current < usize::MAX,
        ensures
            final(self).wf(),
            final(self).limit == old(self).limit,
            reached <==> old(self).current + 1 > old(self).limit,
            reached ==> final(self).current == old(self).current,
            !reached ==> final(self).current == old(self).current + 1,
            final(self).high == if old(self).current + 1 > old(self).high { (old(self).current + 1) as usize } else { old(self).high },
    {
        self.current += 1;
        if self.current > self.high {
            self.high = self.current;
        }
        let reached = self.current > self.limit;
        if reached {
            // Caller is gonna return early, keep increments and decrements balanced:
            self.decrement()
        }
        reached
    }

    pub fn decrement(&mut self)
        requires old(self).current > 0,
        ensures final(self).current == old(self).current - 1, final(self).high == old(self).high, final(self).limit == old(self).limit,
    {
        self.current -= 1;
    }
}

} // verus!
fn main() {}
