use vstd::prelude::*;
verus! {

// ---------------- shims ----------------
pub assume_specification<T: Default>[ core::mem::take::<T> ](dest: &mut T) -> (r: T)
    ensures r == *old(dest), call_ensures(T::default, (), *final(dest));

#[derive(Clone, Copy, PartialEq, Eq, Structural)]
pub enum TokenKind { Whitespace, Comment, Comma, Eof, Name, Bang, LBracket, RBracket, LCurly, RCurly, Other }
#[derive(Clone, Copy, PartialEq, Eq, Structural)]
pub enum SyntaxKind { COMMENT, WHITESPACE, COMMA, ERROR, IDENT, BANG, L_BRACK, R_BRACK, LIST_TYPE, NAMED_TYPE, NAME, NON_NULL_TYPE, OTHER }

#[derive(Clone)]
pub struct Token<'a> { pub kind: TokenKind, pub data: &'a str, pub index: usize }
impl<'a> Token<'a> {
    pub fn kind(&self) -> (r: TokenKind) ensures r == self.kind { self.kind }
    pub fn data(&self) -> (r: &'a str) ensures r == self.data { self.data }
    pub fn index(&self) -> (r: usize) ensures r == self.index { self.index }
}

pub struct Error { pub is_limit: bool, pub data: String }
impl Error {
    pub fn is_limit(&self) -> (r: bool) ensures r == self.is_limit { self.is_limit }
    pub fn data(&self) -> (r: &str) ensures r@ == self.data@ { self.data.as_str() }
    #[verifier::external_body]
    pub fn eof<S>(message: S, index: usize) -> (r: Error) ensures !r.is_limit { unimplemented!() }
    #[verifier::external_body]
    pub fn with_loc<S>(message: S, data: String, index: usize) -> (r: Error) ensures !r.is_limit { unimplemented!() }
}

#[verifier::external_body]
pub struct Lexer<'a> { p: core::marker::PhantomData<&'a ()> }
impl<'a> Lexer<'a> {
    pub uninterp spec fn rest(&self) -> Seq<char>;   // text not yet produced
    pub uninterp spec fn fuel(&self) -> nat;         // strictly decreases with every item
    #[verifier::external_body]
    pub fn next(&mut self) -> (r: Option<Result<Token<'a>, Error>>)
        ensures match r {
            None => final(self).rest() == old(self).rest() && final(self).fuel() == old(self).fuel(),
            Some(Ok(t)) => old(self).rest() == t.data@ + final(self).rest() && final(self).fuel() < old(self).fuel(),
            Some(Err(e)) => old(self).rest() == e.data@ + final(self).rest() && final(self).fuel() < old(self).fuel(),
        }
    { unimplemented!() }
}

#[verifier::external_body]
pub struct SyntaxTreeBuilder { x: u8 }
impl SyntaxTreeBuilder {
    pub uninterp spec fn text(&self) -> Seq<char>;
    #[verifier::external_body]
    pub fn token(&mut self, kind: SyntaxKind, text: &str)
        ensures final(self).text() == old(self).text() + text@
    { unimplemented!() }
}

pub enum PendingToken<'input> {
    Ignored(Token<'input>),
    Error(String),
}

pub struct LimitTracker { pub current: usize, pub high: usize, pub limit: usize }
impl LimitTracker {
    #[verifier::external_body]
    pub fn check_and_increment(&mut self) -> (reached: bool)
        ensures final(self).limit == old(self).limit,
            reached ==> final(self).current == old(self).current,
            !reached ==> final(self).current == old(self).current + 1,
    { unimplemented!() }
    #[verifier::external_body]
    pub fn decrement(&mut self)
        requires old(self).current > 0,
        ensures final(self).limit == old(self).limit, final(self).current == old(self).current - 1, final(self).high == old(self).high,
    { unimplemented!() }
}
pub struct NodeGuard { pub x: u8 }
pub struct Checkpoint { pub x: u8 }
impl Checkpoint {
    #[verifier::external_body]
    pub fn wrap_node(self, kind: SyntaxKind) -> NodeGuard { unimplemented!() }
}
impl Error {
    #[verifier::external_body]
    pub fn limit(message: &str, index: usize) -> (r: Error) ensures r.is_limit { unimplemented!() }
}
pub mod name {
    use super::*;
    #[verifier::external_body]
    pub fn validate_name(name: &str, p: &mut Parser)
        requires old(p).wf(),
        ensures final(p).conserved(old(p)), final(p).fuel() <= old(p).fuel(),
    { unimplemented!() }
}
#[verifier::external_body]
pub fn shim_format() -> String { unimplemented!() }
macro_rules! format { ($($t:tt)*) => { shim_format() } }
macro_rules! T { [!] => { TokenKind::Bang }; ['['] => { TokenKind::LBracket }; [']'] => { TokenKind::RBracket }; }
macro_rules! S { [!] => { SyntaxKind::BANG }; ['['] => { SyntaxKind::L_BRACK }; [']'] => { SyntaxKind::R_BRACK }; }

pub struct Parser<'input> {
    pub recursion_limit: LimitTracker,
    pub lexer: Lexer<'input>,
    pub current_token: Option<Token<'input>>,
    pub builder: SyntaxTreeBuilder,
    pub pending: Vec<PendingToken<'input>>,
    pub errors: Vec<Error>,
    pub accept_errors: bool,
}

pub open spec fn item_text(x: PendingToken) -> Seq<char> {
    match x { PendingToken::Ignored(t) => t.data@, PendingToken::Error(s) => s@ }
}
pub open spec fn pending_text(p: Seq<PendingToken>) -> Seq<char> decreases p.len() {
    if p.len() == 0 { seq![] } else { pending_text(p.drop_last()) + item_text(p.last()) }
}
pub open spec fn ignored_kind(k: TokenKind) -> bool { k is Comment || k is Whitespace || k is Comma }
pub open spec fn item_wf(x: PendingToken) -> bool {
    match x { PendingToken::Ignored(t) => ignored_kind(t.kind), PendingToken::Error(_) => true }
}
pub open spec fn pending_wf(p: Seq<PendingToken>) -> bool { forall|i: int| 0 <= i < p.len() ==> item_wf(#[trigger] p[i]) }
pub proof fn lemma_pending_push(p: Seq<PendingToken>, x: PendingToken)
    ensures pending_text(p.push(x)) == pending_text(p) + item_text(x)
{
    assert(p.push(x).drop_last() =~= p);
}
pub open spec fn cur_text(t: Option<Token>) -> Seq<char> { match t { Some(t) => t.data@, None => seq![] } }

impl<'input> Parser<'input> {
    pub open spec fn all_text(&self) -> Seq<char> {
        self.builder.text() + pending_text(self.pending@) + cur_text(self.current_token) + self.lexer.rest()
    }
    pub open spec fn wf(&self) -> bool { pending_wf(self.pending@) }
    /// what every primitive guarantees: nothing is lost, invariant kept, limits untouched
    pub open spec fn conserved(&self, o: &Self) -> bool {
        self.all_text() =~= o.all_text() && self.wf() && self.recursion_limit == o.recursion_limit
    }
    /// fuel for termination: items the lexer can still produce, plus the buffered token
    pub open spec fn fuel(&self) -> nat { self.lexer.fuel() + (if self.current_token is Some { 1nat } else { 0nat }) }

    /// Push an error to parser's error Vec.
    pub(crate) fn push_err(&mut self, err: Error)
        requires old(self).wf()
        ensures final(self).conserved(old(self)), final(self).fuel() == old(self).fuel(),
            final(self).current_token == old(self).current_token, final(self).builder == old(self).builder,
            final(self).pending == old(self).pending, final(self).lexer == old(self).lexer,
            final(self).accept_errors == old(self).accept_errors,
            !old(self).accept_errors ==> final(self).errors == old(self).errors,
    {
        if self.accept_errors {
            self.errors.push(err);
        }
    }

    /// Insert a token into the syntax tree.
    pub(crate) fn push_token(&mut self, kind: SyntaxKind, token: Token)
        requires old(self).wf()
        ensures final(self).builder.text() == old(self).builder.text() + token.data@,
            final(self).pending == old(self).pending, final(self).current_token == old(self).current_token,
            final(self).lexer == old(self).lexer, final(self).recursion_limit == old(self).recursion_limit,
            final(self).errors == old(self).errors, final(self).accept_errors == old(self).accept_errors,
    {
        self.builder.token(kind, token.data())
    }

    /// Consume a token from the lexer.
    pub(crate) fn pop(&mut self) -> (t: Token<'input>)
        requires old(self).wf(), old(self).current_token is Some
        ensures Some(t) == old(self).current_token, final(self).current_token is None,
            final(self).builder == old(self).builder, final(self).pending == old(self).pending,
            final(self).lexer == old(self).lexer, final(self).recursion_limit == old(self).recursion_limit,
            final(self).errors == old(self).errors, final(self).accept_errors == old(self).accept_errors,
    {
        if let Some(token) = self.current_token.take() {
            return token;
        }

        self.next_token()
            .expect("Could not pop a token from the lexer")
    }

    fn next_token(&mut self) -> (r: Option<Token<'input>>)
        requires old(self).wf(), old(self).current_token is None,
        ensures final(self).wf(), final(self).current_token is None,
            final(self).builder == old(self).builder, final(self).recursion_limit == old(self).recursion_limit,
            final(self).builder.text() + pending_text(final(self).pending@) + cur_text(r) + final(self).lexer.rest()
                =~= old(self).all_text(),
            r is Some ==> final(self).lexer.fuel() < old(self).lexer.fuel(),
            final(self).lexer.fuel() <= old(self).lexer.fuel(),
    {
        loop
            invariant self.wf(), self.current_token is None, self.builder == old(self).builder,
                self.recursion_limit == old(self).recursion_limit,
                self.builder.text() + pending_text(self.pending@) + self.lexer.rest() =~= old(self).all_text(),
                self.lexer.fuel() <= old(self).lexer.fuel(),
            decreases self.lexer.fuel(),
        { match self.lexer.next() { None => break, Some(res) => {
            match res {
                Err(err) => {
                    if err.is_limit() {
                        self.accept_errors = false;
                    }
                    // Queue the error data to be added to the CST later.
                    let data = err.data();
                    proof {
                        let a = self.builder.text(); let b = pending_text(self.pending@); let c = err.data@; let d = self.lexer.rest();
                        assert(a + b + (c + d) =~= a + (b + c) + d);
                        assert(data@.len() == 0 ==> c =~= Seq::<char>::empty());
                    }
                    if !data.is_empty() {
                        proof { lemma_pending_push(self.pending@, PendingToken::Error(err.data)); }
                        self.pending.push(PendingToken::Error(data.to_owned()));
                    }
                    self.errors.push(err);
                }
                Ok(token) => {
                    return Some(token);
                }
            }
        }}}

        None
    }

    pub(crate) fn peek_token(&mut self) -> (r: Option<&Token<'input>>)
        requires old(self).wf(),
        ensures final(self).conserved(old(self)), final(self).builder == old(self).builder,
            final(self).fuel() <= old(self).fuel(),
            r is Some <==> final(self).current_token is Some,
            r is Some ==> *r->0 == final(self).current_token->0,
            old(self).current_token is Some ==> final(self).current_token == old(self).current_token && final(self).pending == old(self).pending && final(self).lexer == old(self).lexer,
    {
        if self.current_token.is_none() {
            self.current_token = self.next_token();
        }
        self.current_token.as_ref()
    }

    pub(crate) fn peek(&mut self) -> (r: Option<TokenKind>)
        requires old(self).wf(),
        ensures final(self).conserved(old(self)), final(self).builder == old(self).builder,
            final(self).fuel() <= old(self).fuel(),
            r is Some <==> final(self).current_token is Some,
            r is Some ==> r->0 == final(self).current_token->0.kind,
            old(self).current_token is Some ==> final(self).current_token == old(self).current_token && final(self).pending == old(self).pending && final(self).lexer == old(self).lexer,
    {
        match self.peek_token() { Some(token) => Some(token.kind()), None => None }
    }

    pub(crate) fn skip_ignored(&mut self)
        requires old(self).wf(),
        ensures final(self).conserved(old(self)), final(self).builder == old(self).builder,
            final(self).fuel() <= old(self).fuel(),
    {
        while let Some(TokenKind::Comment | TokenKind::Whitespace | TokenKind::Comma) = self.peek()
            invariant self.conserved(old(self)), self.builder == old(self).builder, self.fuel() <= old(self).fuel(),
            decreases self.fuel(),
        {
            proof { lemma_pending_push(self.pending@, PendingToken::Ignored(self.current_token->0)); }
            let token = self.pop();
            self.pending.push(PendingToken::Ignored(token));
        }
    }

    pub(crate) fn push_ignored(&mut self)
        requires old(self).wf(),
        ensures final(self).conserved(old(self)), final(self).pending@.len() == 0,
            final(self).current_token == old(self).current_token, final(self).lexer == old(self).lexer,
            final(self).builder.text() =~= old(self).builder.text() + pending_text(old(self).pending@),
            final(self).fuel() == old(self).fuel(),
    {
        let pending = std::mem::take(&mut self.pending);
        for item in it: pending
            invariant self.pending@.len() == 0, pending_wf(old(self).pending@),
                vstd::std_specs::vec::into_iter_elts(it.snapshot@) == old(self).pending@,
                0 <= it.index@ <= old(self).pending@.len(),
                it.history@ =~= old(self).pending@.take(it.index@ as int),
                self.builder.text() =~= old(self).builder.text() + pending_text(old(self).pending@.take(it.index@ as int)),
                self.current_token == old(self).current_token, self.lexer == old(self).lexer,
                self.recursion_limit == old(self).recursion_limit,
        {
            proof {
                let ps = old(self).pending@;
                assert(ps.take(it.index@ + 1).drop_last() =~= ps.take(it.index@ as int));
                assert(ps.take(it.index@ + 1).last() == ps[it.index@ as int]);
                assert(item == ps[it.index@ as int]);
                assert(item_wf(ps[it.index@ as int]));
            }
            match item {
                PendingToken::Ignored(token) => {
                    let syntax_kind = match token.kind {
                        TokenKind::Comment => SyntaxKind::COMMENT,
                        TokenKind::Whitespace => SyntaxKind::WHITESPACE,
                        TokenKind::Comma => SyntaxKind::COMMA,
                        _ => unreachable!(),
                    };
                    self.push_token(syntax_kind, token);
                }
                PendingToken::Error(data) => {
                    self.builder.token(SyntaxKind::ERROR, &data);
                }
            }
        }
        proof {
            let ps = old(self).pending@;
            assert(ps.take(ps.len() as int) =~= ps);
            assert(pending_text(self.pending@) =~= Seq::<char>::empty());
        }
    }
}


impl<'input> Parser<'input> {
    #[verifier::external_body]
    pub fn start_node(&mut self, kind: SyntaxKind) -> NodeGuard
        requires old(self).wf(),
        ensures final(self).conserved(old(self)), final(self).fuel() <= old(self).fuel(),
    { unimplemented!() }
    #[verifier::external_body]
    pub fn checkpoint_node(&mut self) -> Checkpoint
        requires old(self).wf(),
        ensures final(self).conserved(old(self)), final(self).fuel() <= old(self).fuel(),
    { unimplemented!() }

    pub(crate) fn current(&mut self) -> (r: Option<&Token<'input>>)
        requires old(self).wf(),
        ensures final(self).conserved(old(self)), final(self).builder == old(self).builder,
            final(self).fuel() <= old(self).fuel(),
            r is Some <==> final(self).current_token is Some,
            r is Some ==> *r->0 == final(self).current_token->0,
            final(self).errors == old(self).errors || true,
    {
        self.peek_token()
    }

    pub(crate) fn bump(&mut self, kind: SyntaxKind)
        requires old(self).wf(),
        ensures final(self).conserved(old(self)), final(self).fuel() <= old(self).fuel(),
    {
        self.eat(kind);
        self.skip_ignored();
    }

    fn eat(&mut self, kind: SyntaxKind)
        requires old(self).wf(),
        ensures final(self).conserved(old(self)), final(self).fuel() <= old(self).fuel(),
    {
        self.push_ignored();
        if self.current().is_none() {
            return;
        }

        let token = self.pop();
        self.push_token(kind, token);
    }

    pub(crate) fn limit_err(&mut self, message: &str)
        requires old(self).wf(),
        ensures final(self).conserved(old(self)), final(self).fuel() <= old(self).fuel(),
    {
        let current = if let Some(current) = self.current() {
            current
        } else {
            return;
        };
        // this needs to be the computed location
        let err = Error::limit(message, current.index());
        self.push_err(err);
        self.accept_errors = false;
    }

    pub(crate) fn err_at_token(&mut self, current: &Token<'_>, message: &str)
        requires old(self).wf(),
        ensures final(self).conserved(old(self)), final(self).fuel() <= old(self).fuel(),
    {
        let err = if current.kind == TokenKind::Eof {
            Error::eof(message, current.index())
        } else {
            // this needs to be the computed location
            Error::with_loc(message, current.data().to_string(), current.index())
        };
        self.push_err(err);
    }

    pub(crate) fn err(&mut self, message: &str)
        requires old(self).wf(),
        ensures final(self).conserved(old(self)), final(self).fuel() <= old(self).fuel(),
    {
        let current = if let Some(current) = self.current() {
            current
        } else {
            return;
        };
        let err = if current.kind == TokenKind::Eof {
            Error::eof(message, current.index())
        } else {
            // this needs to be the computed location
            Error::with_loc(message, current.data().to_string(), current.index())
        };
        self.push_err(err);
    }

    pub(crate) fn at(&mut self, token: TokenKind) -> (r: bool)
        requires old(self).wf(),
        ensures final(self).conserved(old(self)), final(self).fuel() <= old(self).fuel(),
    {
        if let Some(t) = self.peek() {
            if t == token {
                return true;
            }
            return false;
        }

        false
    }

    pub(crate) fn expect(&mut self, token: TokenKind, kind: SyntaxKind)
        requires old(self).wf(),
        ensures final(self).conserved(old(self)), final(self).fuel() <= old(self).fuel(),
    {
        let Some(current) = self.current() else {
            return;
        };
        let is_eof = current.kind == TokenKind::Eof;
        let data = current.data();
        let index = current.index();

        if self.at(token) {
            self.bump(kind);
            return;
        }

        let err = if is_eof {
            let message = format!("expected {kind:?}, got EOF");
            Error::eof(message, index)
        } else {
            let message = format!("expected {kind:?}, got {data}");
            Error::with_loc(message, data.to_string(), index)
        };

        self.push_err(err);
    }
}

pub(crate) fn ty(p: &mut Parser)
    requires old(p).wf(),
    ensures final(p).all_text() =~= old(p).all_text(), final(p).wf(),
{
    match parse(p) {
        Ok(_) => (),
        Err(Some(token)) => p.err_at_token(&token, "expected a type"),
        Err(None) => p.err("expected a type"),
    }
}

fn parse<'a>(p: &mut Parser<'a>) -> (res: Result<(), Option<Token<'a>>>)
    requires old(p).wf(),
    ensures final(p).all_text() =~= old(p).all_text(), final(p).wf(),
        final(p).recursion_limit.current == old(p).recursion_limit.current,
        final(p).fuel() <= old(p).fuel(),
        res is Ok ==> final(p).fuel() < old(p).fuel(),
    decreases old(p).fuel(),
{
    let checkpoint = p.checkpoint_node();
    match p.peek() {
        Some(T!['[']) => {
            let _guard = p.start_node(SyntaxKind::LIST_TYPE);
            p.bump(S!['[']);

            if p.recursion_limit.check_and_increment() {
                p.limit_err("parser recursion limit reached");
                return Ok(()); // TODO: is this right?
            }
            let result = parse(p);
            p.recursion_limit.decrement();

            if let Err(Some(token)) = result {
                // TODO(@goto-bus-stop) ideally the span here would point to the entire list
                // type, so both opening and closing brackets `[]`.
                p.err_at_token(&token, "expected item type");
            }
            p.expect(T![']'], S![']']);
        }
        Some(TokenKind::Name) => {
            let _guard = p.start_node(SyntaxKind::NAMED_TYPE);
            let _name_node_guard = p.start_node(SyntaxKind::NAME);

            let token = p.pop();
            name::validate_name(token.data(), p);
            p.push_token(SyntaxKind::IDENT, token);
        }
        Some(_) => return Err(Some(p.pop())),
        None => return Err(None),
    };

    // There may be whitespace inside a list node or between the type and the non-null `!`.
    p.skip_ignored();

    // Deal with nullable types
    if let Some(T![!]) = p.peek() {
        let _guard = checkpoint.wrap_node(SyntaxKind::NON_NULL_TYPE);

        p.eat(S![!]);
    }

    // Handle post-node commas, whitespace, comments
    // TODO(@goto-bus-stop) This should maybe be done further up the parse tree? the type node is
    // parsed completely at this point.
    p.skip_ignored();

    Ok(())
}

} // verus!
fn main() {}
