use vstd::prelude::*;
verus! {

// ---- shims ----
#[derive(PartialEq, Eq, Structural)]
pub struct Name { pub id: u64 }
pub struct SourceSpan { pub x: u64 }
impl Name {
    #[verifier::external_body]
    pub fn location(&self) -> Option<SourceSpan> { unimplemented!() }
    #[verifier::external_body]
    pub fn as_str(&self) -> &str { unimplemented!() }
}
pub struct Node<T>(pub Box<T>);
pub struct SelectionSet { pub selections: Vec<Selection> }
pub enum Selection {
    Field(Box<Field>),
    FragmentSpread(Box<FragmentSpread>),
    InlineFragment(Box<InlineFragment>),
}
pub struct Field { pub name: Name, pub selection_set: SelectionSet }
pub struct FragmentSpread { pub fragment_name: Name }
impl FragmentSpread {
    #[verifier::external_body]
    pub fn location(&self) -> Option<SourceSpan> { unimplemented!() }
}
pub struct InlineFragment { pub selection_set: SelectionSet }
pub struct Fragment { pub selection_set: SelectionSet }
pub struct FragmentMap { pub dummy: u8 }
impl FragmentMap {
    #[verifier::external_body]
    pub fn get(&self, k: &Name) -> Option<&Fragment> { unimplemented!() }
}
pub struct ExecutableDocument { pub fragments: FragmentMap }
pub struct Valid<T>(pub T);
pub struct RequestError {
    pub message: String,
    pub location: Option<SourceSpan>,
    pub is_suspected_validation_bug: bool,
}
#[verifier::external_body]
#[verifier::reject_recursive_types(K)]
#[verifier::reject_recursive_types(V)]
pub struct HashMap<K, V> { k: core::marker::PhantomData<(K, V)> }
impl<'a> HashMap<&'a Name, u32> {
    #[verifier::external_body]
    pub fn get(&self, k: &Name) -> Option<&u32> { unimplemented!() }
    #[verifier::external_body]
    pub fn insert(&mut self, k: &'a Name, v: u32) -> Option<u32> { unimplemented!() }
}

const MAX_LISTS_DEPTH: u32 = 3;

#[verifier::exec_allows_no_decreases_clause]
pub fn check_selection_set<'doc>(
    document: &'doc Valid<ExecutableDocument>,
    fragment_depths: &mut HashMap<&'doc Name, u32>,
    depth_so_far: u32,
    selection_set: &'doc SelectionSet,
) -> Result<u32, RequestError> {
    let mut max_depth = depth_so_far;
    let mut __i: usize = 0;
    while __i < selection_set.selections.len() {
        let selection = &selection_set.selections[__i];
        __i += 1;
        match selection {
            Selection::InlineFragment(inline) => {
                max_depth = max_depth.max(check_selection_set(
                    document,
                    fragment_depths,
                    depth_so_far,
                    &inline.selection_set,
                )?)
            }
            Selection::FragmentSpread(spread) => {
                let Some(def) = document.0.fragments.get(&spread.fragment_name) else {
                    continue;
                };
                // Avoiding the entry API because we may have to modify the map in-between this `.get()`
                // and the `.insert()`.
                if let Some(fragment_depth) = fragment_depths.get(&spread.fragment_name) {
                    if depth_so_far + *fragment_depth > MAX_LISTS_DEPTH {
                        return Err(RequestError {
                            message: "Maximum introspection depth exceeded".into(),
                            location: spread.location(),
                            is_suspected_validation_bug: false,
                        });
                    }
                } else {
                    // Recursing without marking our fragment spread as used is fine,
                    // because validation guarantees that we do not have a self-referential
                    // fragment chain.
                    let post_fragment_depth = check_selection_set(
                        document,
                        fragment_depths,
                        depth_so_far,
                        &def.selection_set,
                    )?;
                    fragment_depths
                        .insert(&spread.fragment_name, post_fragment_depth - depth_so_far);
                    max_depth = max_depth.max(post_fragment_depth);
                }
            }
            Selection::Field(field) => {
                let mut depth = depth_so_far;
                if matches!(
                    field.name.as_str(),
                    "fields" | "interfaces" | "possibleTypes" | "inputFields"
                ) {
                    depth += 1;
                    if depth >= MAX_LISTS_DEPTH {
                        return Err(RequestError {
                            message: "Maximum introspection depth exceeded".into(),
                            location: field.name.location(),
                            is_suspected_validation_bug: false,
                        });
                    }
                }
                max_depth = max_depth.max(check_selection_set(
                    document,
                    fragment_depths,
                    depth,
                    &field.selection_set,
                )?)
            }
        }
    }
    Ok(max_depth)
}

} // verus!
fn main() {}
