use vstd::prelude::*;
verus! {

// ---- shims ----
#[derive(Clone, Copy, PartialEq, Eq, Structural)]
pub enum TokenKind { Eof, Other }
pub struct Token<'a> { pub kind: TokenKind, pub data: &'a str, pub index: usize }
impl<'a> Token<'a> {
    pub fn kind(&self) -> (r: TokenKind) ensures r == self.kind { self.kind }
}
pub struct Error { pub is_limit: bool }
impl Error {
    #[verifier::external_body]
    pub fn limit(message: &str, index: usize) -> (r: Error) ensures r.is_limit { unimplemented!() }
}
pub struct Cursor<'a> { pub calls: Ghost<nat>, pub src: &'a str }
impl<'a> Cursor<'a> {
    #[verifier::external_body]
    pub fn index(&self) -> usize { unimplemented!() }
    #[verifier::external_body]
    pub fn advance(&mut self) -> (r: Result<Token<'a>, Error>)
        ensures final(self).calls@ == old(self).calls@ + 1,
            r is Err ==> !r->Err_0.is_limit,
    { unimplemented!() }
}

// ---- extracted (limit.rs) ----
pub struct LimitTracker {
    pub current: usize,
    pub high: usize,
    pub limit: usize,
}
impl LimitTracker {
    #[must_use]
    pub fn check_and_increment(&mut self) -> (reached: bool)
        requires old(self).current < usize::MAX,
        ensures
            final(self).limit == old(self).limit,
            reached <==> old(self).current + 1 > old(self).limit,
            reached ==> final(self).current == old(self).current,
            !reached ==> final(self).current == old(self).current + 1,
            final(self).high == (if old(self).current + 1 > old(self).high { (old(self).current + 1) as usize } else { old(self).high }),
    {
        self.current += 1;
        if self.current > self.high {
            self.high = self.current;
        }
        let reached = self.current > self.limit;
        if reached {
            // Caller is gonna return early, keep increments and decrements balanced:
            self.decrement()
        }
        reached
    }

    pub fn decrement(&mut self)
        requires old(self).current > 0,
        ensures final(self).current == old(self).current - 1, final(self).high == old(self).high, final(self).limit == old(self).limit,
    {
        self.current -= 1;
    }
}

// ---- extracted (lexer/mod.rs) ----
pub struct Lexer<'a> {
    pub finished: bool,
    pub cursor: Cursor<'a>,
    pub limit_tracker: LimitTracker,
}

impl<'a> Lexer<'a> {
    /// items handed out so far == advance() calls == limit_tracker.current, never above the limit
    pub open spec fn wf(&self) -> bool {
        self.cursor.calls@ == self.limit_tracker.current as nat
        && self.limit_tracker.current <= self.limit_tracker.limit
        && (self.limit_tracker.high == self.limit_tracker.current || (self.finished && self.limit_tracker.high == self.limit_tracker.current + 1))
    }

    fn next(&mut self) -> (r: Option<Result<Token<'a>, Error>>)
        requires old(self).wf(), old(self).limit_tracker.current < usize::MAX,
        ensures
            final(self).wf(),
            final(self).limit_tracker.limit == old(self).limit_tracker.limit,
            old(self).finished ==> r is None && *final(self) == *old(self),
            !old(self).finished ==> r is Some,
            // a limit error iff the limit is exhausted, and then lexing stops without consuming
            (r is Some && r->0 is Err && r->0->Err_0.is_limit)
                <==> (!old(self).finished && old(self).limit_tracker.current == old(self).limit_tracker.limit),
            (r is Some && r->0 is Err && r->0->Err_0.is_limit)
                ==> final(self).finished && final(self).cursor.calls@ == old(self).cursor.calls@,
            // at most `limit` calls of advance
            final(self).cursor.calls@ <= final(self).limit_tracker.limit,
            (r is Some && r->0 is Ok && r->0->Ok_0.kind == TokenKind::Eof) ==> final(self).finished,
    {
        if self.finished {
            return None;
        }

        if self.limit_tracker.check_and_increment() {
            self.finished = true;
            return Some(Err(Error::limit(
                "token limit reached, aborting lexing",
                self.cursor.index(),
            )));
        }

        match self.cursor.advance() {
            Ok(token) => {
                if matches!(token.kind(), TokenKind::Eof) {
                    self.finished = true;
                }

                Some(Ok(token))
            }
            Err(err) => Some(Err(err)),
        }
    }
}

} // verus!
fn main() {}
