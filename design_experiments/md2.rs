use vstd::prelude::*;
verus! {

pub struct Name { pub s: String }
impl Name {
    pub fn as_str(&self) -> (r: &str) ensures r@ == self.s@ { self.s.as_str() }
}

pub open spec fn listy(n: Seq<char>) -> bool {
    n == "fields"@ || n == "interfaces"@ || n == "possibleTypes"@ || n == "inputFields"@
}

fn is_listy(name: &Name) -> (r: bool)
    ensures r == listy(name.s@)
{
    proof { reveal_strlit("fields"); reveal_strlit("interfaces"); reveal_strlit("possibleTypes"); reveal_strlit("inputFields"); }
    if matches!(
        name.as_str(),
        "fields" | "interfaces" | "possibleTypes" | "inputFields"
    ) { true } else { false }
}

pub struct SelectionSet { pub selections: Vec<Selection> }
pub enum Selection {
    Field(Box<Field>),
    InlineFragment(Box<InlineFragment>),
}
pub struct Field { pub listy: bool, pub selection_set: SelectionSet }
pub struct InlineFragment { pub selection_set: SelectionSet }

pub open spec fn sel_depth(s: Selection) -> nat decreases s {
    match s {
        Selection::Field(f) => (if f.listy { 1nat } else { 0nat }) + ss_depth(f.selection_set),
        Selection::InlineFragment(i) => ss_depth(i.selection_set),
    }
}
pub open spec fn ss_depth(ss: SelectionSet) -> nat decreases ss {
    seq_max(ss.selections@, ss.selections@.len() as int)
}
pub open spec fn seq_max(v: Seq<Selection>, n: int) -> nat decreases v, n {
    if n <= 0 || n > v.len() { 0 } else {
        let rest = seq_max(v, n - 1);
        let d = sel_depth(v[n - 1]);
        if d > rest { d } else { rest }
    }
}

} // verus!
fn main() {}
