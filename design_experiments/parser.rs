use vstd::prelude::*;
verus! {

// ---------------- shims ----------------
pub assume_specification<T: Default>[ core::mem::take::<T> ](dest: &mut T) -> (r: T)
    ensures r == *old(dest), call_ensures(T::default, (), *final(dest));

#[derive(Clone, Copy, PartialEq, Eq, Structural)]
pub enum TokenKind { Whitespace, Comment, Comma, Eof, Name, Bang, Other }
#[derive(Clone, Copy, PartialEq, Eq, Structural)]
pub enum SyntaxKind { COMMENT, WHITESPACE, COMMA, ERROR, IDENT, OTHER }

pub struct Token<'a> { pub kind: TokenKind, pub data: &'a str, pub index: usize }
impl<'a> Token<'a> {
    pub fn kind(&self) -> (r: TokenKind) ensures r == self.kind { self.kind }
    pub fn data(&self) -> (r: &'a str) ensures r == self.data { self.data }
    pub fn index(&self) -> (r: usize) ensures r == self.index { self.index }
}

pub struct Error { pub is_limit: bool, pub data: String }
impl Error {
    pub fn is_limit(&self) -> (r: bool) ensures r == self.is_limit { self.is_limit }
    pub fn data(&self) -> (r: &str) ensures r@ == self.data@ { self.data.as_str() }
    #[verifier::external_body]
    pub fn eof(message: &str, index: usize) -> (r: Error) ensures !r.is_limit { unimplemented!() }
    #[verifier::external_body]
    pub fn with_loc(message: &str, data: String, index: usize) -> (r: Error) ensures !r.is_limit { unimplemented!() }
}

#[verifier::external_body]
pub struct Lexer<'a> { p: core::marker::PhantomData<&'a ()> }
impl<'a> Lexer<'a> {
    pub uninterp spec fn rest(&self) -> Seq<char>;   // text not yet produced
    #[verifier::external_body]
    pub fn next(&mut self) -> (r: Option<Result<Token<'a>, Error>>)
        ensures match r {
            None => final(self).rest() == old(self).rest(),
            Some(Ok(t)) => old(self).rest() == t.data@ + final(self).rest(),
            Some(Err(e)) => old(self).rest() == e.data@ + final(self).rest(),
        }
    { unimplemented!() }
}

#[verifier::external_body]
pub struct SyntaxTreeBuilder { x: u8 }
impl SyntaxTreeBuilder {
    pub uninterp spec fn text(&self) -> Seq<char>;
    #[verifier::external_body]
    pub fn token(&mut self, kind: SyntaxKind, text: &str)
        ensures final(self).text() == old(self).text() + text@
    { unimplemented!() }
}

pub enum PendingToken<'input> {
    Ignored(Token<'input>),
    Error(String),
}

pub struct Parser<'input> {
    pub lexer: Lexer<'input>,
    pub current_token: Option<Token<'input>>,
    pub builder: SyntaxTreeBuilder,
    pub pending: Vec<PendingToken<'input>>,
    pub errors: Vec<Error>,
    pub accept_errors: bool,
}

pub open spec fn pending_text(p: Seq<PendingToken>) -> Seq<char> decreases p.len() {
    if p.len() == 0 { seq![] } else {
        (match p[0] { PendingToken::Ignored(t) => t.data@, PendingToken::Error(s) => s@ }) + pending_text(p.drop_first())
    }
}
pub open spec fn cur_text(t: Option<Token>) -> Seq<char> { match t { Some(t) => t.data@, None => seq![] } }

impl<'input> Parser<'input> {
    pub open spec fn all_text(&self) -> Seq<char> {
        self.builder.text() + pending_text(self.pending@) + cur_text(self.current_token) + self.lexer.rest()
    }

    /// Push an error to parser's error Vec.
    pub(crate) fn push_err(&mut self, err: Error)
        ensures final(self).all_text() == old(self).all_text()
    {
        if self.accept_errors {
            self.errors.push(err);
        }
    }

    /// Insert a token into the syntax tree.
    pub(crate) fn push_token(&mut self, kind: SyntaxKind, token: Token) {
        self.builder.token(kind, token.data())
    }

    /// Consume a token from the lexer.
    pub(crate) fn pop(&mut self) -> Token<'input> {
        if let Some(token) = self.current_token.take() {
            return token;
        }

        self.next_token()
            .expect("Could not pop a token from the lexer")
    }

    #[verifier::exec_allows_no_decreases_clause]
    fn next_token(&mut self) -> Option<Token<'input>> {
        #[verifier::loop_isolation(false)]
        #[verifier::exec_allows_no_decreases_clause]
        loop { match self.lexer.next() { None => break, Some(res) => {
            match res {
                Err(err) => {
                    if err.is_limit() {
                        self.accept_errors = false;
                    }
                    // Queue the error data to be added to the CST later.
                    let data = err.data();
                    if !data.is_empty() {
                        self.pending.push(PendingToken::Error(data.to_owned()));
                    }
                    self.errors.push(err);
                }
                Ok(token) => {
                    return Some(token);
                }
            }
        }}}

        None
    }

    pub(crate) fn peek_token(&mut self) -> Option<&Token<'input>> {
        if self.current_token.is_none() {
            self.current_token = self.next_token();
        }
        self.current_token.as_ref()
    }

    pub(crate) fn peek(&mut self) -> Option<TokenKind> {
        self.peek_token().map(|token| token.kind())
    }

    #[verifier::exec_allows_no_decreases_clause]
    pub(crate) fn skip_ignored(&mut self) {
        while let Some(TokenKind::Comment | TokenKind::Whitespace | TokenKind::Comma) = self.peek()
        {
            let token = self.pop();
            self.pending.push(PendingToken::Ignored(token));
        }
    }

    pub(crate) fn push_ignored(&mut self) {
        let pending = std::mem::take(&mut self.pending);
        for item in pending {
            match item {
                PendingToken::Ignored(token) => {
                    let syntax_kind = match token.kind {
                        TokenKind::Comment => SyntaxKind::COMMENT,
                        TokenKind::Whitespace => SyntaxKind::WHITESPACE,
                        TokenKind::Comma => SyntaxKind::COMMA,
                        _ => unreachable!(),
                    };
                    self.push_token(syntax_kind, token);
                }
                PendingToken::Error(data) => {
                    self.builder.token(SyntaxKind::ERROR, &data);
                }
            }
        }
    }
}

} // verus!
fn main() {}
