use vstd::prelude::*;
use vstd::string::StringSliceAdditionalSpecFns;
verus! {

pub assume_specification[ String::as_bytes ](s: &String) -> (r: &[u8])
    ensures r@ == vstd::utf8::encode_utf8(s@);

pub struct LineColumn { pub line: usize, pub column: usize }
pub struct SourceFile { pub source_text: String }

// ---- specification (GraphQL LineTerminator: "\n", "\r\n", "\r") ----
/// a line terminator ends exactly at position `i` (exclusive end) of `b`
pub open spec fn terminator_ends_at(b: Seq<u8>, i: int) -> bool {
    0 < i <= b.len() && (b[i - 1] == 0x0Au8 || (b[i - 1] == 0x0Du8 && !(i < b.len() && b[i] == 0x0Au8)))
}
/// number of line terminators that end at or before `n`
pub open spec fn terminators_before(b: Seq<u8>, n: int) -> nat decreases n {
    if n <= 0 { 0 } else { terminators_before(b, n - 1) + (if terminator_ends_at(b, n) { 1nat } else { 0nat }) }
}
/// start of the line containing offset `n`: end of the last terminator ending at or before n
pub open spec fn line_start(b: Seq<u8>, n: int) -> int decreases n {
    if n <= 0 { 0 } else if terminator_ends_at(b, n) { n } else { line_start(b, n - 1) }
}
pub open spec fn is_leading(x: u8) -> bool { x & 0xC0u8 != 0x80u8 }
/// number of UTF-8 leading bytes in b[lo..hi)
pub open spec fn leading_between(b: Seq<u8>, lo: int, hi: int) -> nat decreases hi - lo {
    if hi <= lo { 0 } else { leading_between(b, lo, hi - 1) + (if is_leading(b[hi - 1]) { 1nat } else { 0nat }) }
}

impl SourceFile {
    pub fn get_line_column(&self, offset: usize) -> (r: Option<LineColumn>)
        requires vstd::utf8::encode_utf8(self.source_text@).len() < usize::MAX,
        ensures
            r is None <==> offset > vstd::utf8::encode_utf8(self.source_text@).len(),
            r is Some ==> r->0.line == 1 + terminators_before(vstd::utf8::encode_utf8(self.source_text@), offset as int),
            r is Some ==> r->0.column == 1 + leading_between(vstd::utf8::encode_utf8(self.source_text@),
                line_start(vstd::utf8::encode_utf8(self.source_text@), offset as int), offset as int),
    {
        let bytes = self.source_text.as_bytes();
        if offset > bytes.len() {
            return None;
        }
        // Lines are separated by GraphQL LineTerminators: "\n", "\r\n", or "\r".
        // https://spec.graphql.org/October2021/#LineTerminator
        let mut line = 1;
        let mut line_start = 0;
        let mut i = 0;
        while i < offset
            invariant
                bytes@ == vstd::utf8::encode_utf8(self.source_text@), offset <= bytes@.len(), bytes@.len() < usize::MAX,
                0 <= i <= offset,
                line == 1 + terminators_before(bytes@, i as int), line <= 1 + i,
                line_start as int == crate::line_start(bytes@, i as int),
                0 <= line_start <= i,
            decreases offset - i,
        {
            let byte = bytes[i];
            i += 1;
            if byte == b'\n' || (byte == b'\r' && !(i < bytes.len() && bytes[i] == b'\n')) {
                line += 1;
                line_start = i;
            }
        }
        // Columns count Unicode scalar values: every byte that is not a UTF-8 continuation byte
        let mut column = 1;
        let mut j = line_start;
        while j < offset
            invariant
                bytes@ == vstd::utf8::encode_utf8(self.source_text@), offset <= bytes@.len(), bytes@.len() < usize::MAX,
                line_start <= j <= offset,
                column == 1 + leading_between(bytes@, line_start as int, j as int), column <= 1 + j,
            decreases offset - j,
        {
            if bytes[j] & 0xC0 != 0x80 {
                column += 1;
            }
            j += 1;
        }
        Some(LineColumn { line, column })
    }
}

} // verus!
fn main() {}
