use vstd::prelude::*;
verus! {

// ---- shim prelude (trusted) ----
#[derive(PartialEq, Eq, Structural)]
pub struct Name { pub id: u64 }
impl Clone for Name {
    fn clone(&self) -> (r: Self) ensures r == *self { Name { id: self.id } }
}
pub type NamedType = Name;

pub struct Schema { pub dummy: u8 }
pub uninterp spec fn subtype(s: &Schema, a: Name, b: Name) -> bool;
impl Schema {
    #[verifier::external_body]
    pub fn is_subtype(&self, abstract_type: &Name, maybe_subtype: &Name) -> (r: bool)
        ensures r == subtype(self, *abstract_type, *maybe_subtype)
    { unimplemented!() }
}

// ---- extracted ----
pub enum Type {
    Named(NamedType),
    NonNullNamed(NamedType),
    List(Box<Type>),
    NonNullList(Box<Type>),
}

// spec
pub open spec fn compat(v: Type, l: Type) -> bool
    decreases v
{
    match (l, v) {
        (Type::NonNullNamed(ln), Type::NonNullNamed(vn)) => ln == vn,
        (Type::NonNullList(li), Type::NonNullList(vi)) => compat(*vi, *li),
        (Type::NonNullNamed(_), _) => false,
        (Type::NonNullList(_), _) => false,
        // location nullable
        (Type::Named(ln), Type::NonNullNamed(vn)) => ln == vn,
        (Type::Named(ln), Type::Named(vn)) => ln == vn,
        (Type::List(li), Type::List(vi)) => compat(*vi, *li),
        (Type::List(li), Type::NonNullList(vi)) => compat(*vi, *li),
        _ => false,
    }
}

impl Type {
    pub fn is_non_null(&self) -> (r: bool)
        ensures r == (self is NonNullNamed || self is NonNullList)
    {
        matches!(self, Type::NonNullNamed(_) | Type::NonNullList(_))
    }

    pub fn is_assignable_to(&self, target: &Self) -> (r: bool)
        ensures r == compat(*self, *target)
        decreases self
    {
        match (target, self) {
            // Can't assign a nullable type to a non-nullable type.
            (Type::NonNullNamed(_) | Type::NonNullList(_), Type::Named(_) | Type::List(_)) => false,
            // Can't assign a list type to a non-list type.
            (Type::Named(_) | Type::NonNullNamed(_), Type::List(_) | Type::NonNullList(_)) => false,
            // Can't assign a non-list type to a list type.
            (Type::List(_) | Type::NonNullList(_), Type::Named(_) | Type::NonNullNamed(_)) => false,
            // Non-null named types can be assigned if they are the same.
            (Type::NonNullNamed(left), Type::NonNullNamed(right)) => left == right,
            // Non-null list types can be assigned if their inner types are compatible.
            (Type::NonNullList(left), Type::NonNullList(right)) => right.is_assignable_to(left),
            // Both nullable and non-nullable named types can be assigned to a nullable type of the
            // same name.
            (Type::Named(left), Type::Named(right) | Type::NonNullNamed(right)) => left == right,
            // Nullable and non-nullable lists can be assigned to a matching nullable list type.
            (Type::List(left), Type::List(right) | Type::NonNullList(right)) => {
                right.is_assignable_to(left)
            }
        }
    }
}

} // verus!
fn main() {}
