use vstd::prelude::*;
verus! {

// ---------------- shims ----------------
pub assume_specification<T: Default>[ core::mem::take::<T> ](dest: &mut T) -> (r: T)
    ensures r == *old(dest), call_ensures(T::default, (), *final(dest));

#[derive(Clone, Copy, PartialEq, Eq, Structural)]
pub enum TokenKind { Whitespace, Comment, Comma, Eof, Name, Bang, LBracket, RBracket, LCurly, RCurly, Other }
#[derive(Clone, Copy, PartialEq, Eq, Structural)]
pub enum SyntaxKind { COMMENT, WHITESPACE, COMMA, ERROR, IDENT, BANG, L_BRACK, R_BRACK, LIST_TYPE, NAMED_TYPE, NAME, NON_NULL_TYPE, OTHER }

#[derive(Clone)]
pub struct Token<'a> { pub kind: TokenKind, pub data: &'a str, pub index: usize }
impl<'a> Token<'a> {
    pub fn kind(&self) -> (r: TokenKind) ensures r == self.kind { self.kind }
    pub fn data(&self) -> (r: &'a str) ensures r == self.data { self.data }
    pub fn index(&self) -> (r: usize) ensures r == self.index { self.index }
}

pub struct Error { pub is_limit: bool, pub data: String }
impl Error {
    pub fn is_limit(&self) -> (r: bool) ensures r == self.is_limit { self.is_limit }
    pub fn data(&self) -> (r: &str) ensures r@ == self.data@ { self.data.as_str() }
    #[verifier::external_body]
    pub fn eof<S>(message: S, index: usize) -> (r: Error) ensures !r.is_limit { unimplemented!() }
    #[verifier::external_body]
    pub fn with_loc<S>(message: S, data: String, index: usize) -> (r: Error) ensures !r.is_limit { unimplemented!() }
}

#[verifier::external_body]
pub struct Lexer<'a> { p: core::marker::PhantomData<&'a ()> }
impl<'a> Lexer<'a> {
    pub uninterp spec fn rest(&self) -> Seq<char>;   // text not yet produced
    #[verifier::external_body]
    pub fn next(&mut self) -> (r: Option<Result<Token<'a>, Error>>)
        ensures match r {
            None => final(self).rest() == old(self).rest(),
            Some(Ok(t)) => old(self).rest() == t.data@ + final(self).rest(),
            Some(Err(e)) => old(self).rest() == e.data@ + final(self).rest(),
        }
    { unimplemented!() }
}

#[verifier::external_body]
pub struct SyntaxTreeBuilder { x: u8 }
impl SyntaxTreeBuilder {
    pub uninterp spec fn text(&self) -> Seq<char>;
    #[verifier::external_body]
    pub fn token(&mut self, kind: SyntaxKind, text: &str)
        ensures final(self).text() == old(self).text() + text@
    { unimplemented!() }
}

pub enum PendingToken<'input> {
    Ignored(Token<'input>),
    Error(String),
}

pub struct LimitTracker { pub current: usize, pub high: usize, pub limit: usize }
impl LimitTracker {
    #[verifier::external_body]
    pub fn check_and_increment(&mut self) -> bool { unimplemented!() }
    #[verifier::external_body]
    pub fn decrement(&mut self) { unimplemented!() }
}
pub struct NodeGuard { pub x: u8 }
pub struct Checkpoint { pub x: u8 }
impl Checkpoint {
    #[verifier::external_body]
    pub fn wrap_node(self, kind: SyntaxKind) -> NodeGuard { unimplemented!() }
}
impl Error {
    #[verifier::external_body]
    pub fn limit(message: &str, index: usize) -> (r: Error) ensures r.is_limit { unimplemented!() }
}
pub mod name {
    use super::*;
    #[verifier::external_body]
    pub fn validate_name(name: &str, p: &mut Parser) { unimplemented!() }
}
#[verifier::external_body]
pub fn shim_format() -> String { unimplemented!() }
macro_rules! format { ($($t:tt)*) => { shim_format() } }
macro_rules! T { [!] => { TokenKind::Bang }; ['['] => { TokenKind::LBracket }; [']'] => { TokenKind::RBracket }; }
macro_rules! S { [!] => { SyntaxKind::BANG }; ['['] => { SyntaxKind::L_BRACK }; [']'] => { SyntaxKind::R_BRACK }; }

pub struct Parser<'input> {
    pub recursion_limit: LimitTracker,
    pub lexer: Lexer<'input>,
    pub current_token: Option<Token<'input>>,
    pub builder: SyntaxTreeBuilder,
    pub pending: Vec<PendingToken<'input>>,
    pub errors: Vec<Error>,
    pub accept_errors: bool,
}

pub open spec fn pending_text(p: Seq<PendingToken>) -> Seq<char> decreases p.len() {
    if p.len() == 0 { seq![] } else {
        (match p[0] { PendingToken::Ignored(t) => t.data@, PendingToken::Error(s) => s@ }) + pending_text(p.drop_first())
    }
}
pub open spec fn cur_text(t: Option<Token>) -> Seq<char> { match t { Some(t) => t.data@, None => seq![] } }

impl<'input> Parser<'input> {
    pub open spec fn all_text(&self) -> Seq<char> {
        self.builder.text() + pending_text(self.pending@) + cur_text(self.current_token) + self.lexer.rest()
    }

    /// Push an error to parser's error Vec.
    pub(crate) fn push_err(&mut self, err: Error)
        ensures final(self).all_text() == old(self).all_text()
    {
        if self.accept_errors {
            self.errors.push(err);
        }
    }

    /// Insert a token into the syntax tree.
    pub(crate) fn push_token(&mut self, kind: SyntaxKind, token: Token) {
        self.builder.token(kind, token.data())
    }

    /// Consume a token from the lexer.
    pub(crate) fn pop(&mut self) -> Token<'input> {
        if let Some(token) = self.current_token.take() {
            return token;
        }

        self.next_token()
            .expect("Could not pop a token from the lexer")
    }

    #[verifier::exec_allows_no_decreases_clause]
    fn next_token(&mut self) -> Option<Token<'input>> {
        #[verifier::loop_isolation(false)]
        #[verifier::exec_allows_no_decreases_clause]
        loop { match self.lexer.next() { None => break, Some(res) => {
            match res {
                Err(err) => {
                    if err.is_limit() {
                        self.accept_errors = false;
                    }
                    // Queue the error data to be added to the CST later.
                    let data = err.data();
                    if !data.is_empty() {
                        self.pending.push(PendingToken::Error(data.to_owned()));
                    }
                    self.errors.push(err);
                }
                Ok(token) => {
                    return Some(token);
                }
            }
        }}}

        None
    }

    pub(crate) fn peek_token(&mut self) -> Option<&Token<'input>> {
        if self.current_token.is_none() {
            self.current_token = self.next_token();
        }
        self.current_token.as_ref()
    }

    pub(crate) fn peek(&mut self) -> Option<TokenKind> {
        self.peek_token().map(|token| token.kind())
    }

    #[verifier::exec_allows_no_decreases_clause]
    pub(crate) fn skip_ignored(&mut self) {
        while let Some(TokenKind::Comment | TokenKind::Whitespace | TokenKind::Comma) = self.peek()
        {
            let token = self.pop();
            self.pending.push(PendingToken::Ignored(token));
        }
    }

    pub(crate) fn push_ignored(&mut self) {
        let pending = std::mem::take(&mut self.pending);
        for item in pending {
            match item {
                PendingToken::Ignored(token) => {
                    let syntax_kind = match token.kind {
                        TokenKind::Comment => SyntaxKind::COMMENT,
                        TokenKind::Whitespace => SyntaxKind::WHITESPACE,
                        TokenKind::Comma => SyntaxKind::COMMA,
                        _ => unreachable!(),
                    };
                    self.push_token(syntax_kind, token);
                }
                PendingToken::Error(data) => {
                    self.builder.token(SyntaxKind::ERROR, &data);
                }
            }
        }
    }
}


impl<'input> Parser<'input> {
    #[verifier::external_body]
    pub fn start_node(&mut self, kind: SyntaxKind) -> NodeGuard { unimplemented!() }
    #[verifier::external_body]
    pub fn checkpoint_node(&mut self) -> Checkpoint { unimplemented!() }

    pub(crate) fn current(&mut self) -> Option<&Token<'input>> {
        self.peek_token()
    }

    pub(crate) fn bump(&mut self, kind: SyntaxKind) {
        self.eat(kind);
        self.skip_ignored();
    }

    fn eat(&mut self, kind: SyntaxKind) {
        self.push_ignored();
        if self.current().is_none() {
            return;
        }

        let token = self.pop();
        self.push_token(kind, token);
    }

    pub(crate) fn limit_err(&mut self, message: &str) {
        let current = if let Some(current) = self.current() {
            current
        } else {
            return;
        };
        // this needs to be the computed location
        let err = Error::limit(message, current.index());
        self.push_err(err);
        self.accept_errors = false;
    }

    pub(crate) fn err_at_token(&mut self, current: &Token<'_>, message: &str) {
        let err = if current.kind == TokenKind::Eof {
            Error::eof(message, current.index())
        } else {
            // this needs to be the computed location
            Error::with_loc(message, current.data().to_string(), current.index())
        };
        self.push_err(err);
    }

    pub(crate) fn err(&mut self, message: &str) {
        let current = if let Some(current) = self.current() {
            current
        } else {
            return;
        };
        let err = if current.kind == TokenKind::Eof {
            Error::eof(message, current.index())
        } else {
            // this needs to be the computed location
            Error::with_loc(message, current.data().to_string(), current.index())
        };
        self.push_err(err);
    }

    pub(crate) fn at(&mut self, token: TokenKind) -> bool {
        if let Some(t) = self.peek() {
            if t == token {
                return true;
            }
            return false;
        }

        false
    }

    pub(crate) fn expect(&mut self, token: TokenKind, kind: SyntaxKind) {
        let Some(current) = self.current() else {
            return;
        };
        let is_eof = current.kind == TokenKind::Eof;
        let data = current.data();
        let index = current.index();

        if self.at(token) {
            self.bump(kind);
            return;
        }

        let err = if is_eof {
            let message = format!("expected {kind:?}, got EOF");
            Error::eof(message, index)
        } else {
            let message = format!("expected {kind:?}, got {data}");
            Error::with_loc(message, data.to_string(), index)
        };

        self.push_err(err);
    }
}

pub(crate) fn ty(p: &mut Parser) {
    match parse(p) {
        Ok(_) => (),
        Err(Some(token)) => p.err_at_token(&token, "expected a type"),
        Err(None) => p.err("expected a type"),
    }
}

#[verifier::exec_allows_no_decreases_clause]
fn parse<'a>(p: &mut Parser<'a>) -> Result<(), Option<Token<'a>>> {
    let checkpoint = p.checkpoint_node();
    match p.peek() {
        Some(T!['[']) => {
            let _guard = p.start_node(SyntaxKind::LIST_TYPE);
            p.bump(S!['[']);

            if p.recursion_limit.check_and_increment() {
                p.limit_err("parser recursion limit reached");
                return Ok(()); // TODO: is this right?
            }
            let result = parse(p);
            p.recursion_limit.decrement();

            if let Err(Some(token)) = result {
                // TODO(@goto-bus-stop) ideally the span here would point to the entire list
                // type, so both opening and closing brackets `[]`.
                p.err_at_token(&token, "expected item type");
            }
            p.expect(T![']'], S![']']);
        }
        Some(TokenKind::Name) => {
            let _guard = p.start_node(SyntaxKind::NAMED_TYPE);
            let _name_node_guard = p.start_node(SyntaxKind::NAME);

            let token = p.pop();
            name::validate_name(token.data(), p);
            p.push_token(SyntaxKind::IDENT, token);
        }
        Some(_) => return Err(Some(p.pop())),
        None => return Err(None),
    };

    // There may be whitespace inside a list node or between the type and the non-null `!`.
    p.skip_ignored();

    // Deal with nullable types
    if let Some(T![!]) = p.peek() {
        let _guard = checkpoint.wrap_node(SyntaxKind::NON_NULL_TYPE);

        p.eat(S![!]);
    }

    // Handle post-node commas, whitespace, comments
    // TODO(@goto-bus-stop) This should maybe be done further up the parse tree? the type node is
    // parsed completely at this point.
    p.skip_ignored();

    Ok(())
}

} // verus!
fn main() {}
