use vstd::prelude::*;
verus! {
pub open spec fn listy_str(s: &str) -> bool {
    s == "fields" || s == "interfaces" || s == "possibleTypes" || s == "inputFields"
}
fn is_listy(s: &str) -> (r: bool)
    ensures r == listy_str(s)
{
    if matches!(
        s,
        "fields" | "interfaces" | "possibleTypes" | "inputFields"
    ) { true } else { false }
}
pub open spec fn listy(n: Seq<char>) -> bool {
    n == "fields"@ || n == "interfaces"@ || n == "possibleTypes"@ || n == "inputFields"@
}
fn is_listy2(s: &str) -> (r: bool)
    ensures r == listy(s@)
{
    let r = matches!(
        s,
        "fields" | "interfaces" | "possibleTypes" | "inputFields"
    );
    proof {
        assert(("fields"@ == s@) == ("fields" == s));
    }
    r
}
}
fn main() {}
