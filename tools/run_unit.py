#!/usr/bin/env python3
"""Developer helper: assemble and verify one unit, print a summary.  usage: run_unit.py <unit> [repo]"""
import importlib.util, json, os, sys, tempfile
sys.path.insert(0, os.path.dirname(os.path.abspath(__file__)))
UNITS = os.environ.get("VERIF_UNITS") or os.path.join(os.path.dirname(os.path.dirname(os.path.abspath(__file__))), "units")   # VERIF_UNITS: develop a unit outside /verif
sys.path.insert(0, UNITS)
import verus_unit

def load_unit(name):
    p = os.path.join(UNITS, name + ".py")
    spec = importlib.util.spec_from_file_location("unit_" + name, p)
    m = importlib.util.module_from_spec(spec); spec.loader.exec_module(m)
    return m.UNIT

if __name__ == "__main__":
    unit = load_unit(sys.argv[1])
    repo = sys.argv[2] if len(sys.argv) > 2 else os.environ.get("VERIF_REPO", "/repo")
    wd = os.environ.get("KEEP_DIR") or tempfile.mkdtemp(prefix="vunit_")
    r = verus_unit.verify_unit(unit, repo, wd, keep=True)
    print("assembled:", r.get("assembled"))
    print("verified=%s errors=%s clauses=%s canaries=%s/%s wall=%.1fs" % (r.get("verified"), r.get("errors"), r.get("clauses"), r.get("canaries_failed_as_required"), r.get("canaries"), r.get("wall_s", 0)))
    for u in r["undecided"]:
        print("UNDECIDED:", u)
    for f in r["failures"]:
        print("FAIL:", f["obligation"], "| site:", (f["site"] or {}).get("label"), "|", f["site_key"][:100])
        if os.environ.get("V"): print(f["rendered"])
