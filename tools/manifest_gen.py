#!/usr/bin/env python3
"""Regenerate MANIFEST.json from checks/props.py and checks/not_applicable.py (keeps it valid by construction)."""
import importlib.util, json, os, subprocess, sys
VERIF = os.path.dirname(os.path.dirname(os.path.abspath(__file__)))
def load(path, attr):
    spec = importlib.util.spec_from_file_location("m", path); m = importlib.util.module_from_spec(spec); spec.loader.exec_module(m); return getattr(m, attr)
PROPS = load(os.path.join(VERIF, "checks", "props.py"), "PROPS")
NA = load(os.path.join(VERIF, "checks", "not_applicable.py"), "NOT_APPLICABLE")
ids = [json.loads(l)["id"] for l in open(os.path.join(VERIF, "properties.jsonl"))]
checks = []
for pid in ids:
    if pid not in PROPS:
        continue
    c = PROPS[pid]
    checks.append({
        "property_id": pid,
        "quick_cmd": "python3 tools/check.py %s --tier quick" % pid,
        "thorough_cmd": "python3 tools/check.py %s --tier thorough" % pid,
        "evidence_file": "/verif/evidence/%s.json" % pid,
        "replay_cmd_template": "python3 tools/check.py %s --replay {path}" % pid,
        "engine": "+".join((["verus"] if c.get("verus") else []) + (["kani"] if c.get("kani") else [])),
        "level_claimed": {"category": c.get("level", "proof"), "text": c["explanation"], "design_ref": c.get("design_ref", "DESIGN.md section 4 " + pid)},
        "level_note": c.get("level_note", "Trusted: Verus+Z3 / Kani+CBMC, the extractor and its listed rewrites, the shim prelude of each unit; every external_body/assume_specification is listed in the evidence file. Not decided: " + "; ".join(c.get("not_decided", []))),
        "technique": c.get("technique", "contract-based deductive verification (Verus) of functions re-extracted from /repo on every run"),
    })
missing = [p for p in ids if p not in PROPS and p not in NA]
assert not missing, missing
m = {
    "version": 1,
    "setup_cmd": "python3 tools/setup.py",
    "hooks": {"guard": "kani", "enable": "no source hooks: harness modules are appended under #[cfg(kani)] to a scratch copy of /repo by tools/kani_unit.py; cfg(kani) is set only by cargo-kani",
              "baseline_off_cmd": "cd /repo && cargo test --workspace --no-fail-fast --offline", "source_commits": [], "add_only": True},
    "engines": [
        {"name": "verus", "path": "tools/verus_unit.py", "serves_properties": [p for p in ids if p in PROPS and PROPS[p].get("verus")], "kind_free_text": "deductive verifier (Verus/Z3) on functions extracted mechanically from /repo each run"},
        {"name": "kani", "path": "tools/kani_unit.py", "serves_properties": [p for p in ids if p in PROPS and PROPS[p].get("kani")], "kind_free_text": "Kani/CBMC harnesses (assume/assert contracts) compiled against the real crates in a scratch copy"},
    ],
    "checks": checks,
    "not_applicable": [{"property_id": p, "reason": NA[p]} for p in ids if p not in PROPS],
    "notes": "Exit 2 = undecided (lost anchor, unsupported construct, timeout) and prints no VIOLATION line. Known findings: /verif/known_findings.json.",
}
json.dump(m, open(os.path.join(VERIF, "MANIFEST.json"), "w"), indent=1)
print("MANIFEST.json: %d checks, %d not_applicable" % (len(checks), len(m["not_applicable"])))
