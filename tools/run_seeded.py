#!/usr/bin/env python3
"""Run the registered quick check of each seeded change against /repo with the change applied, then undo it.
usage: run_seeded.py [ID-k ...]   (default: all under /verif/seeded).  Writes /verif/seeded/results.json."""
import json, os, re, subprocess, sys, time
VERIF = os.path.dirname(os.path.dirname(os.path.abspath(__file__)))
SEEDED = os.path.join(VERIF, "seeded")
names = sys.argv[1:] or sorted(d for d in os.listdir(SEEDED) if os.path.isdir(os.path.join(SEEDED, d)))
res_path = os.environ.get("SEED_RESULTS") or os.path.join(SEEDED, "results.json")   # SEED_RESULTS: a shard of a parallel run writes its own file
results = json.load(open(res_path)) if os.path.exists(res_path) else {}
# a scratch worktree of /repo's HEAD stands in for /repo (VERIF_REPO), so that /repo itself stays usable meanwhile
WT = os.environ.get("SEED_WT", "/tmp/wt_seedrun")
if not os.path.exists(WT):
    subprocess.run("git -C /repo worktree add -q --detach %s HEAD" % WT, shell=True, check=True)
subprocess.run("git -C %s checkout -q --detach $(git -C /repo rev-parse HEAD) && git -C %s checkout -q -- ." % (WT, WT), shell=True, check=True)
for n in names:
    d = os.path.join(SEEDED, n)
    prop = json.load(open(os.path.join(d, "meta.json")))["property"]
    p = subprocess.run("git -C %s apply %s/patch.diff" % (WT, d), shell=True, capture_output=True, text=True)
    if p.returncode != 0:
        results[n] = {"error": "patch does not apply: " + p.stderr[-300:]}
        continue
    t0 = time.time()
    try:
        c = subprocess.run(["python3", os.path.join(VERIF, "tools", "check.py"), prop, "--tier", os.environ.get("VERIF_TIER", "quick")], capture_output=True, text=True, cwd=VERIF, timeout=3600, env=dict(os.environ, VERIF_REPO=WT))
        out, rc = c.stdout, c.returncode
    finally:
        subprocess.run("git -C %s checkout -- ." % WT, shell=True)
    viol = re.findall(r"^VIOLATION .*$", out, re.M)
    und = re.findall(r"^UNDECIDED: .*$", out, re.M)
    results[n] = {"property": prop, "exit": rc, "verdict": "DETECTED" if rc == 1 else ("undecided" if rc == 2 else "MISSED"),
                  "violations": [v[:300] for v in viol], "undecided": [u[:300] for u in und][:4], "wall_s": round(time.time() - t0)}
    print(n, results[n]["verdict"], rc, [v.split("obligation=")[-1][:120] for v in viol], [u[:120] for u in und][:2], flush=True)
    json.dump(results, open(res_path, "w"), indent=1)
