#!/bin/sh
# Regenerate every evidence file by running each registered quick check against /repo (developer helper).
cd "$(dirname "$0")/.."
for id in $(python3 -c "import json;print(' '.join(c['property_id'] for c in json.load(open('MANIFEST.json'))['checks']))"); do
  python3 tools/check.py $id --tier ${1:-quick} | tail -1
done
