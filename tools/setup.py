#!/usr/bin/env python3
"""MANIFEST.setup_cmd: nothing to build (pure Python + pre-installed verus/kani); just check the tools are there."""
import shutil, subprocess, sys
ok = True
for t in ("verus", "cargo", "kani", "cbmc"):
    if not shutil.which(t):
        print("missing tool:", t); ok = False
sys.exit(0 if ok else 1)
