"""Mechanical extraction of Rust items from /repo's working tree.

The scanner blanks comments, string/char/raw-string literals (same length, so
offsets are preserved) and then finds items by name and matches braces on the
blanked text; the returned text is sliced byte-for-byte from the original.

Nothing here interprets Rust beyond lexical structure.  If an item cannot be
found (or is found more than once) a LostAnchor is raised; callers turn that
into "undecided" (exit 2), never into a violation.
"""
import hashlib
import re


class LostAnchor(Exception):
    pass


def mask_source(src: str, comment_spans=None) -> str:
    """Return src with comments and literals replaced by spaces (newlines kept)."""
    out = list(src)
    if comment_spans is None:
        comment_spans = []
    i, n = 0, len(src)

    def blank(a, b):
        for k in range(a, b):
            if out[k] != "\n":
                out[k] = " "

    while i < n:
        c = src[i]
        if c == "/" and i + 1 < n and src[i + 1] == "/":
            j = src.find("\n", i)
            j = n if j < 0 else j
            blank(i, j)
            comment_spans.append((i, j))
            i = j
        elif c == "/" and i + 1 < n and src[i + 1] == "*":
            depth, j = 1, i + 2
            while j < n and depth:
                if src.startswith("/*", j):
                    depth += 1
                    j += 2
                elif src.startswith("*/", j):
                    depth -= 1
                    j += 2
                else:
                    j += 1
            blank(i, j)
            comment_spans.append((i, j))
            i = j
        elif c == '"' or (c == "b" and i + 1 < n and src[i + 1] == '"' and not _ident_char(src, i - 1)):
            s = i if c == '"' else i + 1
            j = s + 1
            while j < n and src[j] != '"':
                j += 2 if src[j] == "\\" else 1
            blank(s + 1, j)  # keep the quotes so `""` still looks like an expression
            i = j + 1
        elif c == "r" and not _ident_char(src, i - 1) and re.match(r'r#*"', src[i:i + 8] or ""):
            m = re.match(r'r(#*)"', src[i:])
            hashes = m.group(1)
            end = src.find('"' + hashes, i + len(m.group(0)))
            end = n if end < 0 else end + 1 + len(hashes)
            blank(i + len(m.group(0)), end - 1 - len(hashes))
            i = end
        elif c == "'":
            # char literal or lifetime
            m = re.match(r"'(\\.[^']*|[^\\'])'", src[i:i + 12])
            if m:
                blank(i + 1, i + len(m.group(0)) - 1)
                i += len(m.group(0))
            else:
                i += 1
        else:
            i += 1
    return "".join(out)


def _ident_char(src, i):
    return i >= 0 and (src[i].isalnum() or src[i] == "_")


def match_close(mask: str, open_idx: int) -> int:
    """Index of the bracket closing the one at open_idx (mask must be masked)."""
    pairs = {"{": "}", "(": ")", "[": "]"}
    o = mask[open_idx]
    c = pairs[o]
    depth = 0
    for k in range(open_idx, len(mask)):
        ch = mask[k]
        if ch == o:
            depth += 1
        elif ch == c:
            depth -= 1
            if depth == 0:
                return k
    raise LostAnchor("unbalanced bracket at offset %d" % open_idx)


def find_body_open(mask: str, start: int) -> int:
    """First `{` after start at paren/bracket depth 0."""
    depth = 0
    k = start
    while k < len(mask):
        ch = mask[k]
        if ch in "([":
            depth += 1
        elif ch in ")]":
            depth -= 1
        elif ch == "{" and depth == 0:
            return k
        elif ch == ";" and depth == 0:
            raise LostAnchor("item has no body")
        k += 1
    raise LostAnchor("no body found")


class Item:
    def __init__(self, path, relpath, src, start, end, kind, name, body_open=None):
        self.path = path
        self.relpath = relpath
        self.start = start
        self.end = end  # exclusive
        self.kind = kind
        self.name = name
        self.text = src[start:end]
        self.body_open = None if body_open is None else body_open - start
        self.line_start = src.count("\n", 0, start) + 1
        self.line_end = src.count("\n", 0, end) + 1
        self.sha256 = hashlib.sha256(self.text.encode()).hexdigest()

    def describe(self):
        return {
            "file": self.relpath,
            "item": "%s %s" % (self.kind, self.name),
            "lines": [self.line_start, self.line_end],
            "sha256": self.sha256[:16],
        }


class SourceFile:
    def __init__(self, repo, relpath):
        self.relpath = relpath
        self.path = "%s/%s" % (repo.rstrip("/"), relpath)
        try:
            with open(self.path, encoding="utf-8") as f:
                self.src = f.read()
        except OSError as e:
            raise LostAnchor("cannot read %s: %s" % (self.path, e))
        self.mask = mask_source(self.src)

    def _region(self, container):
        """(start,end) offsets of the body of `impl ...container...` / `mod name` or whole file.

        container is a regex matched against the masked header text between the
        keyword `impl` and the opening brace, e.g. r"Type" or r"Iterator for Lexer".
        """
        if container is None:
            return 0, len(self.src)
        hits = []
        for m in re.finditer(r"\b(impl|mod|trait)\b([^{;]*)\{", self.mask):
            header = " ".join(m.group(2).split())
            # strip leading generics of impl<...>
            header_nogen = re.sub(r"^<[^>]*(?:<[^>]*>[^>]*)*>\s*", "", header)
            if re.fullmatch(container, header_nogen) or re.fullmatch(container, header):
                o = m.end() - 1
                hits.append((o + 1, match_close(self.mask, o)))
        if len(hits) == 0:
            raise LostAnchor("container `%s` not found in %s" % (container, self.relpath))
        return hits

    def find(self, kind, name, container=None, nth=None, inside_fn=None):
        if inside_fn is not None:
            # a function nested in the body of the top-level function `inside_fn`: search that body only, one brace level down
            outer = self.find("fn", inside_fn, container)
            o = find_body_open(self.mask, outer.start)
            pat = r"fn\s+%s\b" % re.escape(name)
            hits = [o + 1 + m.start() for m in re.finditer(pat, self.mask[o + 1:outer.end]) if self._depth(o + 1, o + 1 + m.start()) == 0]
            if kind != "fn" or len(hits) != 1:
                raise LostAnchor("nested fn `%s` in `%s` found %d times in %s" % (name, inside_fn, len(hits), self.relpath))
            s = hits[0]
            b = find_body_open(self.mask, s)
            e = match_close(self.mask, b) + 1
            return Item(self.path, self.relpath, self.src, s, e, kind, name, b)
        regions = self._region(container)
        if container is None:
            regions = [regions]
        pats = {
            "fn": r"(?:pub(?:\s*\([^)]*\))?\s+)?(?:const\s+)?(?:unsafe\s+)?(?:async\s+)?fn\s+%s\b" % re.escape(name),
            "enum": r"(?:pub(?:\s*\([^)]*\))?\s+)?enum\s+%s\b" % re.escape(name),
            "struct": r"(?:pub(?:\s*\([^)]*\))?\s+)?struct\s+%s\b" % re.escape(name),
            "const": r"(?:pub(?:\s*\([^)]*\))?\s+)?(?:const|static)\s+%s\b" % re.escape(name),
            "impl": None,
        }
        found = []
        for (a, b) in regions:
            if kind == "impl":
                # whole impl block whose header matches `name`
                continue
            for m in re.finditer(pats[kind], self.mask[a:b]):
                s = a + m.start()
                # must be at depth 0 relative to the region (not nested in another fn's body)
                if container is None and kind == "fn" and self._depth(0, s) != 0:
                    continue
                if container is not None and self._depth(a, s) != 0:
                    continue
                found.append(s)
        if kind == "impl":
            for m in re.finditer(r"\bimpl\b([^{;]*)\{", self.mask):
                header = " ".join(m.group(1).split())
                header_nogen = re.sub(r"^<[^>]*(?:<[^>]*>[^>]*)*>\s*", "", header)
                if re.fullmatch(name, header_nogen):
                    o = m.end() - 1
                    e = match_close(self.mask, o) + 1
                    return Item(self.path, self.relpath, self.src, m.start(), e, "impl", name, o)
            raise LostAnchor("impl `%s` not found in %s" % (name, self.relpath))
        if nth is not None:
            if nth >= len(found):
                raise LostAnchor("%s %s #%d not found in %s" % (kind, name, nth, self.relpath))
            found = [found[nth]]
        if len(found) != 1:
            raise LostAnchor("%s `%s` (in %s) found %d times in %s" % (kind, name, container, len(found), self.relpath))
        s = found[0]
        if kind == "const":
            e = self._semi(s) + 1
            return Item(self.path, self.relpath, self.src, s, e, kind, name)
        if kind == "struct":
            # tuple struct `struct X(...);` / unit struct / braced struct
            k = s
            depth = 0
            while k < len(self.mask):
                ch = self.mask[k]
                if ch == "(":
                    k = match_close(self.mask, k)
                elif ch == ";":
                    return Item(self.path, self.relpath, self.src, s, k + 1, kind, name)
                elif ch == "{":
                    e = match_close(self.mask, k) + 1
                    return Item(self.path, self.relpath, self.src, s, e, kind, name, k)
                k += 1
            raise LostAnchor("struct %s: no end" % name)
        o = find_body_open(self.mask, s)
        e = match_close(self.mask, o) + 1
        return Item(self.path, self.relpath, self.src, s, e, kind, name, o)

    def _depth(self, a, s):
        d = 0
        for ch in self.mask[a:s]:
            if ch == "{":
                d += 1
            elif ch == "}":
                d -= 1
        return d

    def _semi(self, s):
        depth = 0
        for k in range(s, len(self.mask)):
            ch = self.mask[k]
            if ch in "([{":
                depth += 1
            elif ch in ")]}":
                depth -= 1
            elif ch == ";" and depth == 0:
                return k
        raise LostAnchor("no `;` after offset %d" % s)

    def count(self, regex):
        return len(re.findall(regex, self.mask))


def strip_comments(text: str) -> str:
    """Whitespace-normalised text without comments (used for known-finding keys)."""
    spans = []
    mask_source(text, spans)
    res = []
    pos = 0
    for a, b in spans:
        res.append(text[pos:a])
        res.append(" ")
        pos = b
    res.append(text[pos:])
    return " ".join("".join(res).split())
