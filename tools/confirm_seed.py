#!/usr/bin/env python3
"""Confirm a seeded change produced by a sub-agent and file it under /verif/seeded/<id>-<k>/.

usage: confirm_seed.py <PROP> <k> [<dst_k>]      (reads /tmp/seed_out_<PROP>/change<k>.diff, demo<k>/, notes<k>.md; uses worktree /tmp/seed_<PROP>)

Steps (all in the agent's scratch worktree, never in /repo): patch applies to a clean tree; workspace builds and the existing
test suite passes with it; the demo FAILS with it; after `git checkout -- .` the demo PASSES.
"""
import json, os, shutil, subprocess, sys, time

prop, k = sys.argv[1], sys.argv[2]
dst_k = sys.argv[3] if len(sys.argv) > 3 else k   # file under seeded/<PROP>-<dst_k> (a second round of agents reuses change1/change2)
wt = "/tmp/seed_%s" % prop
out = "/tmp/seed_out_%s" % prop
diff = "%s/change%s.diff" % (out, k)
demo = "%s/demo%s" % (out, k)
dst = "/verif/seeded/%s-%s" % (prop, dst_k)
env = dict(os.environ, CARGO_NET_OFFLINE="true")

def run(cmd, cwd, timeout=3600):
    p = subprocess.run(cmd, cwd=cwd, shell=True, capture_output=True, text=True, timeout=timeout, env=env)
    return p.returncode, (p.stdout + p.stderr)

log = {}
rc, o = run("git status --porcelain", wt)
assert o.strip() == "", "worktree not clean: " + o
rc, o = run("git apply --check %s && git apply %s" % (diff, diff), wt)
assert rc == 0, o
t0 = time.time()
rc, o = run("cargo test --workspace --no-fail-fast --offline -j 6 2>&1 | grep -E '^test result|FAILED|error(\\[|:)' | head -40", wt)
passed = sum(int(l.split()[3]) for l in o.splitlines() if l.startswith("test result"))
failed = sum(int(l.split()[5]) for l in o.splitlines() if l.startswith("test result"))
log["suite_with_change"] = {"passed": passed, "failed": failed, "compiles": "error" not in o, "wall_s": round(time.time() - t0)}
demo_cmd = "cargo run --offline -q -j 6"
if os.path.exists(demo + "/run.sh"):
    demo_cmd = "sh run.sh"
rc1, o1 = run(demo_cmd, demo)
log["demo_with_change"] = {"exit": rc1, "tail": o1[-1500:]}
run("git checkout -- .", wt)
rc2, o2 = run(demo_cmd, demo)
log["demo_without_change"] = {"exit": rc2, "tail": o2[-800:]}
ok = failed == 0 and passed >= 369 and rc1 != 0 and rc2 == 0
log["confirmed"] = ok
print(json.dumps(log, indent=1)[:3000])
if ok:
    os.makedirs(dst, exist_ok=True)
    shutil.copy(diff, dst + "/patch.diff")
    if os.path.isdir(demo):
        if os.path.exists(dst + "/demo"):
            shutil.rmtree(dst + "/demo")
        shutil.copytree(demo, dst + "/demo", ignore=shutil.ignore_patterns("target", "*.log"))
    if os.path.exists("%s/notes%s.md" % (out, k)):
        shutil.copy("%s/notes%s.md" % (out, k), dst + "/notes.md")
    meta = {"property": prop, "patch": "patch.diff", "demonstration": "demo/ (cargo project with path dependencies on a worktree of the repo; `cargo run --offline` exits non-zero with the patch, 0 without)",
            "needs_to_manifest": "see notes.md", "confirmed_by": "tools/confirm_seed.py in scratch worktree %s" % wt, "ran": log,
            "base_commit": subprocess.run("git rev-parse HEAD", cwd=wt, shell=True, capture_output=True, text=True).stdout.strip()}
    json.dump(meta, open(dst + "/meta.json", "w"), indent=1)
    print("filed", dst)
sys.exit(0 if ok else 1)
