"""Engine K (placeholder until built)."""


def run_units(kunits, repo, tier, prop):
    return {"undecided": ["kani engine not built yet"], "cmds": [], "harnesses": [], "assumptions": [], "trusted": []}


def find_witness(cfg, repo, violation):
    return None
