"""Engine K: Kani harness modules compiled against the real crates in a scratch copy of the repo.

Harness files live in /verif/kani/<crate>/<name>.rs.  Each starts with
    //! @target <path of the /repo source file the module is appended to>
and every harness carries a metadata comment directly above its #[kani::proof]:
    // @verif prop=C31 class=complete|bounded bound="..." targets="A::f,B::g" tier=quick|thorough timeout=120
The module is appended to the target file as
    #[cfg(kani)] #[path = "..."] mod __verif_kani_<n>;
so it is a child module (sees private items) and nothing in /repo is edited.

class=complete : loop-free (or loops bounded by operand width with unwinding assertions on) over the
                 full symbolic domain of the inputs -- counted as proved.
class=bounded  : fixed input length / unwind / step cap -- a stand-in, never counted as proved.
"""
import os
import re
import resource
import shlex
import shutil
import subprocess
import tempfile
import time

VERIF = os.path.dirname(os.path.dirname(os.path.abspath(__file__)))
KANI_DIR = os.path.join(VERIF, "kani")
MEM_CAP_GB = int(os.environ.get("VERIF_KANI_MEM_GB", "20"))


def parse_harness_file(path):
    with open(path) as f:
        text = f.read()
    m = re.search(r"^//! @target (\S+)", text, re.M)
    if not m:
        raise ValueError("%s: no //! @target line" % path)
    target = m.group(1)
    crate = re.search(r"^//! @crate (\S+)", text, re.M)
    harnesses = []
    for hm in re.finditer(r"// @verif ([^\n]*)\n((?:\s*(?://[^\n]*|#\[[^\n]*\])\n)*)\s*(?:pub\s+)?fn\s+(\w+)", text):
        meta = dict((k, v.strip('"')) for k, v in re.findall(r'(\w+)=("[^"]*"|\S+)', hm.group(1)))
        attrs = hm.group(2)
        if "kani::proof" not in attrs:
            continue
        # doc comment above the @verif line
        pre = text[:hm.start()].rstrip().split("\n")
        doc = []
        while pre and pre[-1].strip().startswith("///"):
            doc.insert(0, pre.pop().strip()[3:].strip())
        harnesses.append({"name": hm.group(3), "meta": meta, "doc": " ".join(doc)[:400], "file": path,
                          "stubs": re.findall(r"kani::stub\(([^)]*)\)", attrs),
                          "unwind": (re.findall(r"kani::unwind\((\d+)\)", attrs) or [None])[0]})
    return {"path": path, "target": target, "crate": crate.group(1) if crate else target.split("/")[1], "harnesses": harnesses, "text": text}


def _limits():
    cap = MEM_CAP_GB * (1 << 30)
    try:
        resource.setrlimit(resource.RLIMIT_AS, (cap, cap))
    except (ValueError, OSError):
        pass


def make_scratch(repo, files):
    """rsync the working tree (no target/, no .git) and append the harness modules."""
    scratch = tempfile.mkdtemp(prefix="verif_kani_")
    subprocess.run(["rsync", "-a", "--exclude", "/target", "--exclude", ".git", repo.rstrip("/") + "/", scratch + "/"], check=True)
    lock = os.path.join(repo, "Cargo.lock")
    if os.path.exists(lock):
        shutil.copy(lock, os.path.join(scratch, "Cargo.lock"))
    for n, hf in enumerate(files):
        tgt = os.path.join(scratch, hf["target"])
        if not os.path.exists(tgt):
            raise FileNotFoundError(hf["target"])
        with open(tgt, "a") as f:
            f.write('\n#[cfg(kani)] #[path = "%s"] mod __verif_kani_%d;\n' % (hf["path"], n))
    return scratch


def target_dir():
    d = os.environ.get("VERIF_KANI_TARGET")
    if d:
        os.makedirs(d, exist_ok=True)
        return d, False
    return tempfile.mkdtemp(prefix="verif_kani_target_"), True


def run_cargo_kani(scratch, crate, names, tdir, timeout_each, extra=None, jobs=None):
    cmd = ["cargo", "kani", "-p", crate, "-Z", "unstable-options", "-Z", "stubbing", "-Z", "function-contracts",
           "--harness-timeout", "%ds" % timeout_each, "--output-format", "terse", "--exact",
           "-j", str(jobs or min(8, max(1, len(names))))]
    for n in names:
        cmd += ["--harness", n]
    if extra:
        cmd += extra
    env = dict(os.environ, CARGO_NET_OFFLINE="true", CARGO_TARGET_DIR=tdir)
    t0 = time.time()
    try:
        p = subprocess.run(cmd, cwd=scratch, env=env, capture_output=True, text=True,
                           timeout=600 + timeout_each * max(1, len(names)), preexec_fn=_limits)
        out = p.stdout + "\n" + p.stderr
        rc = p.returncode
    except subprocess.TimeoutExpired as e:
        out = (e.stdout or b"").decode("utf-8", "replace") if isinstance(e.stdout, bytes) else (e.stdout or "")
        out += "\n[verif] cargo kani timed out"
        rc = -9
    return " ".join(shlex.quote(c) for c in cmd), out, rc, time.time() - t0


def parse_output(out):
    """Split cargo-kani terse output into per-harness results (handles the `-j` "Thread N:" format)."""
    bodies = {}
    cur_by_thread = {}
    cur = None
    for line in out.split("\n"):
        m = re.match(r"^(?:Thread (\d+): )?Checking harness (\S+?)\.\.\.\s*$", line)
        if m:
            t = m.group(1)
            name = m.group(2)
            bodies.setdefault(name, [])
            if t is None:
                cur = name
            else:
                cur_by_thread[t] = name
            continue
        m = re.match(r"^Thread (\d+):\s*(.*)$", line)
        if m:
            cur = cur_by_thread.get(m.group(1))
            line = m.group(2)
        if re.match(r"^(Manual Harness Summary|Complete - |Verification failed for)", line):
            cur = None
        if cur is not None:
            bodies[cur].append(line)
    res = {}
    for full, lines in bodies.items():
        name = full.split("::")[-1]
        body = "\n".join(lines)
        r = {"full_name": full, "body": body}
        m = re.search(r"VERIFICATION:- (SUCCESSFUL|FAILED)", body)
        r["verdict"] = m.group(1) if m else None
        m = re.search(r"Verification Time: ([0-9.]+)s", body)
        r["time_s"] = float(m.group(1)) if m else None
        m = re.search(r"\*\* (\d+) of (\d+) failed", body)
        if m:
            r["n_failed"], r["n_checks"] = int(m.group(1)), int(m.group(2))
        m = re.search(r"\*\* (\d+) of (\d+) cover properties satisfied", body)
        if m:
            r["covers_sat"], r["covers"] = int(m.group(1)), int(m.group(2))
        r["failed_checks"] = [" ".join(x.split()) for x in re.findall(r"Failed Checks: ([^\n]*)", body)]
        r["timeout"] = bool(re.search(r"timed out|Timeout|TIMEOUT", body))
        r["oom"] = bool(re.search(r"out of memory|std::bad_alloc|Killed|memory exhausted", body, re.I))
        res[name] = r
    return res


def run_units(files_rel, repo, tier, prop):
    """files_rel: list of paths relative to /verif/kani.  Runs the harnesses tagged prop=<prop>."""
    result = {"undecided": [], "cmds": [], "harnesses": [], "assumptions": [], "trusted": []}
    files = []
    try:
        for rel in files_rel:
            files.append(parse_harness_file(os.path.join(KANI_DIR, rel)))
    except (OSError, ValueError) as e:
        result["undecided"].append("kani harness file: %s" % e)
        return result
    by_crate = {}
    for hf in files:
        sel = [h for h in hf["harnesses"] if prop in h["meta"].get("prop", "").split(",")
               and (tier == "thorough" or h["meta"].get("tier", "quick") == "quick")]
        if sel:
            by_crate.setdefault(hf["crate"], []).append((hf, sel))
    if not by_crate:
        result["undecided"].append("no kani harness selected for %s" % prop)
        return result
    tdir, tmp_target = target_dir()
    scratch = None
    try:
        for crate, lst in by_crate.items():
            try:
                scratch = make_scratch(repo, [hf for hf, _ in lst])
            except (FileNotFoundError, subprocess.CalledProcessError) as e:
                result["undecided"].append("kani scratch copy: lost anchor %s" % e)
                continue
            hs = []
            for n, (hf, sel) in enumerate(lst):
                rel = hf["target"].split("/src/", 1)[1][:-3]
                parts = [x for x in rel.split("/") if x not in ("mod", "lib", "main")]
                for h in sel:
                    h["fq"] = "::".join(parts + ["__verif_kani_%d" % n, h["name"]])
                    hs.append(h)
            tmax = max(int(h["meta"].get("timeout", "180")) for h in hs)
            cmd, out, rc, wall = run_cargo_kani(scratch, crate, [h["fq"] for h in hs], tdir, tmax)
            result["cmds"].append(cmd)
            parsed = parse_output(out)
            if not parsed:
                # compilation failure or tool crash: undecided
                tail = "\n".join(out.strip().split("\n")[-25:])
                result["undecided"].append("cargo kani produced no harness result for crate %s (compile error in harness module after a source change, or tool failure):\n%s" % (crate, tail))
                shutil.rmtree(scratch, ignore_errors=True)
                scratch = None
                continue
            for h in hs:
                meta = h["meta"]
                r = parsed.get(h["name"])
                rec = {"harness": h["name"], "class": meta.get("class", "bounded"), "bound": meta.get("bound"),
                       "targets": meta.get("targets", "").split(","), "doc": h["doc"], "crate": crate}
                if h["stubs"]:
                    result["assumptions"].append("kani %s: stubs %s" % (h["name"], h["stubs"]))
                if h["unwind"]:
                    result["assumptions"].append("kani %s: unwind(%s) with unwinding assertions on" % (h["name"], h["unwind"]))
                if r is None:
                    rec["status"] = "undecided"
                    result["undecided"].append("kani harness %s did not run" % h["name"])
                    result["harnesses"].append(rec)
                    continue
                rec.update({"time_s": r.get("time_s"), "n_checks": r.get("n_checks"), "covers": r.get("covers"), "covers_sat": r.get("covers_sat")})
                if r["verdict"] == "SUCCESSFUL":
                    if r.get("covers") and r.get("covers_sat") != r.get("covers"):
                        rec["status"] = "undecided"
                        result["undecided"].append("kani %s: only %s of %s cover goals reachable (vacuity guard)" % (h["name"], r.get("covers_sat"), r.get("covers")))
                    else:
                        rec["status"] = "ok"
                elif r["verdict"] == "FAILED":
                    real = [c for c in r["failed_checks"] if "unwinding assertion" not in c and "unsupported" not in c.lower() and "not currently supported" not in c.lower()]
                    if (r["timeout"] or r["oom"]) and rec["class"] == "bounded":
                        # a bounded stand-in that does not finish proves nothing and refutes nothing: recorded, no effect on the verdict
                        rec["status"] = "not_completed"
                        result.setdefault("not_completed", []).append("%s (%s)" % (h["name"], "timeout" if r["timeout"] else "out of memory"))
                    elif r["timeout"] or r["oom"] or not real:
                        rec["status"] = "undecided"
                        result["undecided"].append("kani %s: %s" % (h["name"], "timeout" if r["timeout"] else ("out of memory" if r["oom"] else "unwinding/unsupported-construct failure only: %s" % r["failed_checks"][:3])))
                    else:
                        rec["status"] = "failed"
                        rec["failed_check"] = real[0][:200]
                        rec["all_failed_checks"] = real[:10]
                        rec["output_tail"] = r["body"][-3000:]
                        rec["witness"] = playback(scratch, crate, h, tdir)
                elif r["timeout"] and rec["class"] == "bounded":
                    rec["status"] = "not_completed"
                    result.setdefault("not_completed", []).append("%s (timeout)" % h["name"])
                else:
                    rec["status"] = "undecided"
                    result["undecided"].append("kani %s: no verdict (%s)" % (h["name"], "timeout" if r["timeout"] else "tool failure"))
                result["harnesses"].append(rec)
            shutil.rmtree(scratch, ignore_errors=True)
            scratch = None
    finally:
        if scratch:
            shutil.rmtree(scratch, ignore_errors=True)
        if tmp_target:
            shutil.rmtree(tdir, ignore_errors=True)
    result["trusted"] += ["Kani 0.68 / CBMC 6.11 (bit-precise; machine integers are machine integers)",
                          "harness assumptions (kani::assume) listed in /verif/kani/*/*.rs"]
    return result


def playback(scratch, crate, h, tdir):
    """Ask Kani for the concrete values of the failing trace and replay them natively on the real crate."""
    w = {"input": None}
    try:
        cmd, out, rc, wall = run_cargo_kani(scratch, crate, [h["fq"]], tdir, int(h["meta"].get("timeout", "180")),
                                            extra=["-Z", "concrete-playback", "--concrete-playback=print"], jobs=1)
        m = re.search(r"```\s*\n(.*?)```", out, re.S)
        if not m:
            w["note"] = "kani printed no concrete playback test"
            return w
        test = m.group(1)
        w["kani_concrete_playback_test"] = test
        vals = []
        for line in re.findall(r"vec!\[([0-9, ]*)\]", test):
            vals.append([int(x) for x in line.replace(" ", "").split(",") if x])
        w["input"] = {"kani_any_values_in_order_little_endian_bytes": vals, "decode": h["meta"].get("decode", "see harness source: each vec is one kani::any() value")}
        # native replay: add the generated test to the harness module and run it with `cargo kani playback`
        tname = re.search(r"fn (kani_concrete_playback_\w+)", test)
        if tname:
            with open(os.path.join(scratch, "__playback.rs"), "w") as f:
                f.write(h and open(h["file"]).read() + "\n" + test + "\n")
            # re-point the module path at the augmented copy
            for root, _, files in os.walk(os.path.join(scratch, "crates")):
                for fn in files:
                    if fn.endswith(".rs"):
                        p = os.path.join(root, fn)
                        s = open(p).read()
                        if ('#[path = "%s"]' % h["file"]) in s:
                            s = s.replace('#[cfg(kani)] #[path = "%s"]' % h["file"], '#[cfg(kani)] #[path = "%s"]' % os.path.join(scratch, "__playback.rs"))
                            open(p, "w").write(s)
            env = dict(os.environ, CARGO_NET_OFFLINE="true", CARGO_TARGET_DIR=tdir, RUST_BACKTRACE="0")
            pcmd = ["cargo", "kani", "playback", "-Z", "concrete-playback", "-p", crate, "--", tname.group(1), "--nocapture"]
            try:
                p = subprocess.run(pcmd, cwd=scratch, env=env, capture_output=True, text=True, timeout=900)
                tail = (p.stdout + p.stderr)[-2500:]
                w["native_replay_cmd"] = " ".join(pcmd)
                w["native_replay_output_tail"] = tail
                w["native_replay_failed_as_expected"] = ("test result: FAILED" in tail) or ("panicked" in tail)
            except subprocess.TimeoutExpired:
                w["native_replay_output_tail"] = "timeout"
    except Exception as e:  # best effort
        w["note"] = "playback error: %r" % e
    return w


def find_witness(cfg, repo, violation):
    """For a failed Verus obligation: run the property's Kani companion harnesses (bounded) to get a concrete input."""
    files_rel, prop_tag = cfg["files"], cfg["tag"]
    kr = run_units(files_rel, repo, "thorough", prop_tag)
    for h in kr["harnesses"]:
        if h["status"] == "failed" and h.get("witness") and h["witness"].get("input") is not None:
            w = dict(h["witness"])
            w["companion_harness"] = h["harness"]
            w["companion_failed_check"] = h.get("failed_check")
            return w
    return {"input": None, "note": "companion harnesses found no failing input within their bounds: %s" % [(h["harness"], h["status"]) for h in kr["harnesses"]]}
