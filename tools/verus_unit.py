"""Assemble one Verus unit from /repo's current source, run Verus, parse the result.

A unit is a Python module in /verif/units/ exposing UNIT (see units/README.md).
Everything done to the extracted text is mechanical and listed in the unit:
clause splicing, loop-invariant splicing, ghost hints, literal rewrites with an
expected match count.  A count mismatch or a missing item is a LostAnchor
(undecided), never a violation.
"""
import json
import os
import re
import subprocess
import tempfile
import time

from extract import LostAnchor, SourceFile, mask_source, match_close, strip_comments

SEMANTIC = [
    ("postcondition not satisfied", "postcondition"),
    ("precondition not satisfied", "precondition"),
    ("invariant not satisfied at end of loop body", "invariant-preserved"),
    ("invariant not satisfied before loop", "invariant-entry"),
    ("assertion failed", "assert"),
    ("possible arithmetic underflow/overflow", "overflow"),
    ("possible division by zero", "div-by-zero"),
    ("decreases not satisfied", "decreases"),
    ("could not prove termination", "termination"),
    ("loop invariant not satisfied", "invariant"),
    ("unable to prove post-condition of closure", "closure-postcondition"),
    ("precondition not met", "precondition"),        # e.g. "precondition not met: index in bounds for this access" (slice / Vec indexing)
    ("unreachable", "panic"),
    ("panic", "panic"),
    ("possible bit shift underflow/overflow", "overflow"),
    ("recommendation not met", None),  # warnings only
]


class Assembled:
    def __init__(self):
        self.lines = []          # output text lines
        self.items = []          # dicts: name, fn_id, out_start, out_end, describe
        self.clause_lines = {}   # out line (1-based) -> (fn_id, kind, label, props)
        self.canary_lines = {}   # out line -> (fn_id, where)
        self.rewrites = []       # descriptions of applied rewrites

    def add(self, text):
        start = len(self.lines) + 1
        self.lines.extend(text.split("\n"))
        return start, len(self.lines)

    def text(self):
        return "\n".join(self.lines) + "\n"


def _apply_rewrites(text, rewrites, what, log):
    for rw in rewrites or []:
        old, new = rw[0], rw[1]
        count = rw[2] if len(rw) > 2 else 1
        is_re = len(rw) > 3 and rw[3] == "re"
        if is_re:
            found = len(re.findall(old, text))
        else:
            found = text.count(old)
        if count == "*":
            pass          # optional rewrite: applies wherever the text occurs, also nowhere (the code may legitimately not use the construct)
        elif (count is None and found < 1) or (count is not None and found != count):
            raise LostAnchor("%s: rewrite anchor %r found %d times, expected %s" % (what, old[:60], found, count if count is not None else ">=1"))
        text = re.sub(old, new, text) if is_re else text.replace(old, new)
        # a regex rewrite may compute its replacement (a function of the match); it is then described by its docstring
        log.append("%s: %r -> %r (x%d)" % (what, old[:70], (new.__doc__ or "computed replacement").strip()[:160] if callable(new) else new[:70], found))
    return text


GLOBAL_DROPS = [
    (r"(?m)^[ \t]*///.*\n", ""),            # doc comments
    (r"(?m)^[ \t]*#\[(inline|allow|must_use|doc|derive|cfg_attr|non_exhaustive|serde)[^\]]*\]\s*\n", ""),
    (r"\bpub\s*\(\s*(crate|super)\s*\)", "pub"),
    (r"(?m)^[ \t]*debug_assert!\([^;]*\);\s*\n", ""),
    (r"\|_\|", "|_unused|"),              # Verus: closure parameters must be variables, not patterns (alpha-renaming of an unused parameter)
]


def _loop_positions(mask_body):
    """Offsets of loop keywords in masked fn text, in source order."""
    return [m.start() for m in re.finditer(r"\b(while|loop|for)\b", mask_body)
            if not re.match(r"for\s*<", mask_body[m.start():m.start() + 8])]


def _loop_body_open(mask, kw_pos):
    depth = 0
    k = kw_pos
    while k < len(mask):
        ch = mask[k]
        if ch in "([":
            depth += 1
        elif ch in ")]":
            depth -= 1
        elif ch == "{" and depth == 0:
            return k
        k += 1
    raise LostAnchor("loop without body")


def _ghost_only(text):
    """A hint may contain only `proof { .. }` blocks, `let ghost ..;` bindings and comments."""
    m = mask_source(text)
    i, n = 0, len(m)
    while i < n:
        if m[i].isspace():
            i += 1
            continue
        if m.startswith("proof", i):
            j = m.find("{", i)
            if j < 0 or m[i + 5:j].strip():
                return False
            i = match_close(m, j) + 1
            continue
        if m.startswith("broadcast use ", i):
            j = m.find(";", i)
            if j < 0:
                return False
            i = j + 1
            continue
        if m.startswith("let ghost ", i):
            depth = 0
            j = i
            while j < n:
                if m[j] in "([{":
                    depth += 1
                elif m[j] in ")]}":
                    depth -= 1
                elif m[j] == ";" and depth == 0:
                    break
                j += 1
            if j >= n:
                return False
            i = j + 1
            continue
        return False
    return True


def _split_top_commas(text, mask, n):
    """Split off the first n top-level comma-separated arguments; return (args, rest_text, rest_mask)."""
    args, depth, start = [], 0, 0
    k = 0
    while k < len(mask) and len(args) < n:
        ch = mask[k]
        if ch in "([{":
            depth += 1
        elif ch in ")]}":
            depth -= 1
        elif ch == "," and depth == 0:
            args.append(text[start:k].strip())
            start = k + 1
        k += 1
    if len(args) != n:
        raise LostAnchor("combinator call: expected %d leading arguments" % n)
    return args, text[start:], mask[start:]


def inline_combinators(text, fn_id, expected, log):
    """Mechanical beta-reduction of Parser::peek_while / peek_while_kind / parse_separated_list at their call sites:
    the call is replaced by the combinator's own body (frame check `peek_while_is_the_plain_loop` pins that body) with the
    closure inlined.  `FnMut(&mut Parser)` closures are outside Verus; the loops are not.  A `return ControlFlow::Break(())` /
    `return ControlFlow::Continue(())` inside a peek_while closure becomes `break` / `continue` of the inlined loop."""
    count = 0
    while True:
        mask = mask_source(text)
        m = re.search(r"\b(\w+)\s*\.\s*(peek_while_kind|peek_while|parse_separated_list)\s*\(", mask)
        if not m:
            break
        recv, comb = m.group(1), m.group(2)
        op = m.end() - 1
        cl = match_close(mask, op)
        nlead = {"peek_while": 0, "peek_while_kind": 1, "parse_separated_list": 2}[comb]
        lead, rest, rmask = _split_top_commas(text[op + 1:cl], mask[op + 1:cl], nlead)
        rest_s = rest.strip()
        if rest_s.endswith(","):
            rest_s = rest_s[:-1].rstrip()
        if rest_s.startswith("|"):
            j = rest_s.index("|", 1)
            params = [x.strip() for x in rest_s[1:j].split(",")]
            body = rest_s[j + 1:].strip()
            if params[0] != recv:
                raise LostAnchor("%s: closure parameter %r differs from the receiver %r" % (fn_id, params[0], recv))
        elif re.match(r"^[\w:]+$", rest_s):
            params = [recv, "kind"]
            body = "{ %s(%s); }" % (rest_s, recv)
        else:
            raise LostAnchor("%s: unsupported combinator argument %r" % (fn_id, rest_s[:40]))
        if comb == "peek_while":
            if len(params) != 2:
                raise LostAnchor("%s: peek_while closure must take (parser, kind)" % fn_id)
            body = body.replace("return ControlFlow::Break(())", "break").replace("return ControlFlow::Continue(())", "continue")
            if re.search(r"\breturn\b", mask_source(body)):
                raise LostAnchor("%s: `return` inside a peek_while closure" % fn_id)
            new = ("while let Some(%s) = %s.peek() { let __cf: ControlFlow<()> = %s; match __cf { ControlFlow::Break(()) => break, ControlFlow::Continue(()) => {} } }"
                   % (params[1], recv, body))
        else:
            if re.search(r"\breturn\b", mask_source(body)):
                raise LostAnchor("%s: `return` inside a %s closure" % (fn_id, comb))
            if comb == "peek_while_kind":
                new = "while let Some(__kind) = %s.peek() { if __kind != %s { break; } %s }" % (recv, lead[0], body)
            else:
                new = ("if let Some(__kind0) = %s.peek() { if __kind0 == %s { %s.bump(%s); } }\n%s\n"
                       "while let Some(__kind) = %s.peek() { if __kind != %s { break; } { %s.bump(%s); %s } }"
                       % (recv, lead[0], recv, lead[1], body, recv, lead[0], recv, lead[1], body))
        text = text[:m.start()] + new + text[cl + 1:]
        count += 1
        log.append("%s: %s call inlined (closure beta-reduced into the combinator's loop)" % (fn_id, comb))
    if count != expected:
        raise LostAnchor("%s: %d combinator call sites found, unit expects %d" % (fn_id, count, expected))
    return text


def inline_closures(text, fn_id, names, log):
    """Mechanical beta-reduction of a local zero-argument closure `let [mut] NAME = || { BODY };` that is called exactly once
    (`NAME()`): the definition is removed and the call becomes `{ BODY }`.  (Verus has no closures that capture `&mut` state.)
    Any other shape is a LostAnchor."""
    for name in names:
        mask = mask_source(text)
        m = re.search(r"let\s+(?:mut\s+)?%s\s*=\s*\|\|\s*\{" % re.escape(name), mask)
        if not m or len(re.findall(r"\b%s\b" % re.escape(name), mask)) != 2:
            raise LostAnchor("%s: closure `%s` is not `let %s = || {..};` used exactly once" % (fn_id, name, name))
        o = m.end() - 1
        c = match_close(mask, o)
        semi = re.match(r"\s*;", mask[c + 1:])
        if not semi:
            raise LostAnchor("%s: closure `%s`: no `;` after its body" % (fn_id, name))
        body = text[o:c + 1]
        text = text[:m.start()] + text[c + 1 + semi.end():]
        mask = mask_source(text)
        u = re.search(r"\b%s\s*\(\s*\)" % re.escape(name), mask)
        if not u:
            raise LostAnchor("%s: closure `%s` is not called as `%s()`" % (fn_id, name, name))
        text = text[:u.start()] + body + text[u.end():]
        log.append("%s: local closure `%s` inlined at its single call" % (fn_id, name))
    return text


def _split_call_args(t):
    out, depth, cur = [], 0, ""
    for ch in t:
        if ch in "([{<":
            depth += 1
        elif ch in ")]}>":
            depth -= 1
        if ch == "," and depth == 0:
            out.append(cur)
            cur = ""
        else:
            cur += ch
    if cur.strip():
        out.append(cur)
    return [x.strip() for x in out]


def inline_helpers(text, item, fn_id, known, log):
    """Calls of SIMPLE free functions of the same source file that the unit does not provide (`known`) are replaced by
    `{ let p1: T1 = a1; ..; <body> }` -- what a call of a function means when its body has no `return`, no `?`, no loop, no closure and no macro
    definition.  A helper a refactoring split off is thus judged as part of its caller instead of being a lost anchor; anything not simple is left
    alone (the run is then undecided as before).  On the unchanged tree nothing is inlined."""
    src = open(item.path).read()
    m0 = text.index("{")
    for hm in re.finditer(r"(?m)^(?:pub(?:\s*\([a-z]+\))?\s+)?fn (\w+)\s*\(", src):
        name = hm.group(1)
        if name in known or not re.search(r"(?<![\w.:])%s\(" % re.escape(name), text[m0:]):
            continue
        k = src.index("(", hm.start())
        depth, e = 0, k
        while True:
            depth += src[e] in "([{"
            depth -= src[e] in ")]}"
            if depth == 0:
                break
            e += 1
        params = _split_call_args(src[k + 1:e])
        b = src.index("{", e)
        depth, f = 0, b
        while True:
            depth += src[f] == "{"
            depth -= src[f] == "}"
            if depth == 0:
                break
            f += 1
        body = src[b:f + 1]
        for pat, rep in GLOBAL_DROPS:
            body = re.sub(pat, rep, body)
        body = re.sub(r"//[^\n]*", "", body)
        if re.search(r"\breturn\b|\?|\b(loop|while|for)\b|(?:[(,=]\s*)(?:move\s+)?\|[^|\n]*\||macro_rules!", body) or any(":" not in q or q.split(":")[0].strip().startswith(("mut ", "&", "self")) for q in params):
            continue
        out, pos, n = "", m0, 0
        head = text[:m0]
        rest = text[m0:]
        while True:
            cm = re.search(r"(?<![\w.:])%s\(" % re.escape(name), rest)
            if not cm:
                break
            a = cm.end() - 1
            depth, z = 0, a
            while True:
                depth += rest[z] in "([{"
                depth -= rest[z] in ")]}"
                if depth == 0:
                    break
                z += 1
            args = _split_call_args(rest[a + 1:z])
            if len(args) != len(params):
                raise LostAnchor("%s: call of helper %s with %d argument(s), %d parameter(s)" % (fn_id, name, len(args), len(params)))
            lets = "".join("let %s = %s; " % (q, x) for q, x in zip(params, args))
            out += rest[:cm.start()] + "{ " + lets + body + " }"
            rest = rest[z + 1:]
            n += 1
        text = head + out + rest
        log.append("%s: %d call(s) of the same-file helper `%s` replaced by its body with the parameters let-bound (the helper has no return / ? / loop / closure)" % (fn_id, n, name))
    return text


def build_fn(item, spec, canary, log):
    """Return (text, clause_marks, canary_marks); marks are (line offset within text, info)."""
    fn_id = spec.get("id") or (("%s::" % spec["container_name"]) if spec.get("container_name") else "") + spec["name"]
    text = item.text
    for pat, rep in GLOBAL_DROPS:
        text = re.sub(pat, rep, text)
    if spec.get("inline_helpers") is not None and item.kind == "fn":
        text = inline_helpers(text, item, fn_id, set(spec["inline_helpers"]) | {spec["name"]}, log)
    if spec.get("inline_closures"):
        text = inline_closures(text, fn_id, spec["inline_closures"], log)
    text = _apply_rewrites(text, spec.get("rewrites"), fn_id, log)
    if spec.get("inline_combinators") is not None:
        text = inline_combinators(text, fn_id, spec["inline_combinators"], log)
    mask = mask_source(text)
    body_open = _loop_body_open(mask, 0) if item.kind == "fn" else None
    if item.kind != "fn":
        if item.kind in ("struct", "enum") and not text.lstrip().startswith("pub"):
            text = "pub " + text.lstrip()
            log.append("%s: private item made pub (visibility only)" % fn_id)
        if item.kind == "struct" and spec.get("pub_fields"):
            # make private fields visible to `open spec fn`s (visibility only; listed in the unit)
            text, n = re.subn(r"(?m)^(\s+)(?!pub\b)(\w+\s*:)", r"\1pub \2", text)
            log.append("%s: %d private field(s) made pub" % (fn_id, n))
        return fn_id, text, [], []
    sig, body = text[:body_open], text[body_open:]
    msig = mask[:body_open]
    # return value naming
    ret = spec.get("ret", "r")
    depth = 0
    arrow = -1
    for k, ch in enumerate(msig):
        if ch in "(<[":
            depth += 1
        elif ch in ")]":
            depth -= 1
        elif ch == ">" and k > 0 and msig[k - 1] != "-":
            depth -= 1
        elif ch == "-" and msig[k:k + 2] == "->" and depth == 0:
            arrow = k
    if arrow >= 0:
        rt = sig[arrow + 2:]
        where = ""
        wm = re.search(r"\bwhere\b", mask_source(rt))
        if wm:
            rt, where = rt[:wm.start()], rt[wm.start():]
        sig = sig[:arrow] + "-> (%s: %s) %s" % (ret, rt.strip(), where)
    # hints (ghost code) inside the body
    loop_hints = []
    for h in spec.get("hints", []):
        where, anchor, proof = h
        if not _ghost_only(proof):
            raise ValueError("%s: hint is not ghost-only code: %r" % (fn_id, proof[:80]))
        if where in ("loop_body_start", "loop_body_end", "after_loop"):
            loop_hints.append(h)      # keyed by loop ordinal, not by statement text: survives edits of the loop body
            continue
        if where == "body_start":
            body = "{\n" + proof + "\n" + body[1:]
            continue
        if where == "body_end":
            body = body.rstrip()[:-1] + "\n" + proof + "\n}"
            continue
        cnt = body.count(anchor)
        if where == "before_each":
            # the same ghost text in front of EVERY occurrence (e.g. each `continue;` of a loop body): path-independent proofs only
            if cnt < 1:
                raise LostAnchor("%s: hint anchor %r found %d times" % (fn_id, anchor[:60], cnt))
            body = body.replace(anchor, proof + "\n" + anchor)
            continue
        if cnt != 1:
            raise LostAnchor("%s: hint anchor %r found %d times" % (fn_id, anchor[:60], cnt))
        if where == "before":
            body = body.replace(anchor, proof + "\n" + anchor)
        elif where == "after":
            body = body.replace(anchor, anchor + "\n" + proof)
        else:
            raise ValueError(where)
    # loops
    loops = spec.get("loops", [])
    mbody = mask_source(body)
    kws = _loop_positions(mbody)
    if spec.get("n_loops") is not None and len(kws) != spec["n_loops"]:
        raise LostAnchor("%s: %d loops found, unit expects %d" % (fn_id, len(kws), spec["n_loops"]))
    keyed = [lp for lp in loops if lp is not None and lp.get("when")]
    if len(loops) - len(keyed) > len(kws):
        raise LostAnchor("%s: %d loops found, contracts for %d" % (fn_id, len(kws), len(loops)))
    MARK = "\u0001%d\u0002"
    inserts = []  # (pos in body, text)
    for li, lp in enumerate(loops):
        if lp is None:
            continue
        if lp.get("when"):
            # a contract keyed by a text that occurs in the loop's HEADER (between the keyword and the body): it follows its loop when other loops
            # come or go, and is skipped -- not a lost anchor -- when no loop has that header any more
            hits = [k for k in kws if lp["when"] in body[k:_loop_body_open(mbody, k)]]
            if len(hits) != 1:
                log.append("%s: loop contract `%s` skipped: %d loops match" % (fn_id, lp["when"][:50], len(hits)))
                continue
            o = _loop_body_open(mbody, hits[0])
        else:
            if li >= len(kws):
                raise LostAnchor("%s: %d loops found, contract for loop %d" % (fn_id, len(kws), li))
            o = _loop_body_open(mbody, kws[li])
        parts = []
        if lp.get("invariant_except_break"):
            parts.append("invariant_except_break\n" + "".join("    %s%s,\n" % (MARK % _reg(("loop%d-invariant_except_break" % li, c[0], c[1], c[2] if len(c) > 2 else None)), c[1]) for c in lp["invariant_except_break"]))
        if lp.get("invariant"):
            parts.append("invariant\n" + "".join("    %s%s,\n" % (MARK % _reg(("loop%d-invariant" % li, c[0], c[1], c[2] if len(c) > 2 else None)), c[1]) for c in lp["invariant"]))
        if lp.get("ensures"):
            parts.append("ensures\n" + "".join("    %s%s,\n" % (MARK % _reg(("loop%d-ensures" % li, c[0], c[1], c[2] if len(c) > 2 else None)), c[1]) for c in lp["ensures"]))
        if lp.get("decreases"):
            parts.append("decreases %s%s\n" % (MARK % _reg(("loop%d-decreases" % li, "decreases", lp["decreases"])), lp["decreases"]))
        inserts.append((o, "\n" + "".join(parts)))
        if canary:
            inserts.append((o + 1, "\n%sproof { assert(false); } // canary\n" % (MARK % _reg(("canary", "loop%d" % li, "")))))
    for where, li, proof in loop_hints:
        if li >= len(kws):
            raise LostAnchor("%s: hint for loop %d, only %d loops" % (fn_id, li, len(kws)))
        o = _loop_body_open(mbody, kws[li])
        if where == "loop_body_start":
            inserts.append((o + 1, "\n" + proof + "\n"))
        elif where == "after_loop":
            inserts.append((match_close(mbody, o) + 1, "\n" + proof + "\n"))      # right after the loop's closing brace
        else:
            inserts.append((match_close(mbody, o), "\n" + proof + "\n"))
    # stable order: for equal positions the loop contract (inserted before `{`) must come before body-start text
    for pos, t in sorted(inserts, key=lambda x: -x[0]):
        body = body[:pos] + t + body[pos:]
    # clauses
    cl = []
    for kind in ("requires", "ensures", "decreases"):
        group = [c for c in spec.get("clauses", []) if c[0] == kind]
        if not group:
            continue
        if kind == "decreases":
            cl.append("    decreases %s%s\n" % (MARK % _reg(("decreases", "decreases", group[0][2])), group[0][2]))
        else:
            cl.append("    %s\n" % kind + "".join("        %s%s,\n" % (MARK % _reg((kind, c[1], c[2], c[3] if len(c) > 3 else None)), c[2]) for c in group))
    if spec.get("no_decreases"):
        sig = "#[verifier::exec_allows_no_decreases_clause]\n" + sig
    if spec.get("loops_see_context"):
        # facts established before a loop stay visible inside it (needed when a local shadows a parameter the postcondition names)
        sig = "#[verifier::loop_isolation(false)]\n#[verifier::allow_complex_invariants]\n" + sig
    if spec.get("spinoff"):
        sig = "#[verifier::spinoff_prover]\n" + sig      # own solver process: lets Verus check the functions of one file in parallel (no semantic effect)
    # with loops_see_context a failed canary at the body start would be ASSUMED inside the loops and make their canaries pass:
    # the loop canaries alone then stand for the body too (a reachable loop body means a satisfiable precondition)
    if canary and not (spec.get("loops_see_context") and spec.get("loops")):
        body = "{\n%sproof { assert(false); } // canary\n" % (MARK % _reg(("canary", "body", ""))) + body[1:]
    out = sig.rstrip() + "\n" + "".join(cl) + body
    # resolve marks to line offsets
    marks = []
    res_lines = []
    for ln, line in enumerate(out.split("\n")):
        for m in re.finditer("\u0001(\\d+)\u0002", line):
            marks.append((ln, _REG[int(m.group(1))]))
        res_lines.append(re.sub("\u0001\\d+\u0002", "", line))
    return fn_id, "\n".join(res_lines), marks, []


_REG = []


def _reg(info):
    _REG.append(info)
    return len(_REG) - 1


def assemble(unit, repo, canary=False):
    asm = Assembled()
    files = {}
    asm.add("// GENERATED by /verif/tools/verus_unit.py from %s -- do not edit\n#![allow(unused_imports, unused_variables, dead_code, unused_mut, unused_macros, unused_parens, unreachable_code, unused_assignments)]\nuse vstd::prelude::*;\n%s\nverus! {\n" % (repo, unit.get("outer", "")))
    for part in unit["parts"]:
        if isinstance(part, str):
            asm.add(part)
            continue
        spec = part
        if unit.get("spinoff") and spec.get("kind", "fn") == "fn" and "spinoff" not in spec:
            spec = dict(spec, spinoff=True)
        rel = spec["file"]
        if rel not in files:
            files[rel] = SourceFile(repo, rel)
        item = files[rel].find(spec.get("kind", "fn"), spec["name"], spec.get("container"), spec.get("nth"), spec.get("inside_fn"))
        fn_id, text, marks, _ = build_fn(item, spec, canary, asm.rewrites)
        wrap = spec.get("wrap")
        pre = (wrap + " {\n") if wrap else ""
        post = "\n}" if wrap else ""
        if spec.get("attrs"):
            pre = pre + spec["attrs"] + "\n"
        start, end = asm.add(pre + text + post + "\n")
        off = start + pre.count("\n")
        asm.items.append({"fn_id": fn_id, "kind": item.kind, "out_start": start, "out_end": end,
                          "src": item.describe(), "props": spec.get("props"), "src_line0": item.line_start,
                          "body_off": off})
        for ln, info in marks:
            line = off + ln
            if info[0] == "canary":
                asm.canary_lines[line] = (fn_id, info[1])
            else:
                asm.clause_lines[line] = (fn_id, info[0], info[1], info[3] if len(info) > 3 else None, info[2])
    asm.add("\n} // verus!\nfn main() {}\n")
    return asm


def run_verus(path, rlimit=None, timeout=600, extra=None):
    cmd = ["verus", path, "--error-format=json", "--multiple-errors", "50", "--output-json", "--time-expanded"]
    if rlimit:
        cmd += ["--rlimit", str(rlimit)]
    if extra:
        cmd += extra
    t0 = time.time()
    try:
        p = subprocess.run(cmd, capture_output=True, text=True, timeout=timeout, cwd=os.path.dirname(path))
    except subprocess.TimeoutExpired:
        return {"timeout": True, "cmd": " ".join(cmd), "wall_s": time.time() - t0, "diags": [], "summary": None, "stderr": ""}
    diags = []
    for line in p.stderr.splitlines():
        line = line.strip()
        if line.startswith("{"):
            try:
                d = json.loads(line)
            except ValueError:
                continue
            if d.get("$message_type") == "diagnostic":
                diags.append(d)
    summary = None
    try:
        summary = json.loads(p.stdout)
    except ValueError:
        pass
    return {"timeout": False, "cmd": " ".join(cmd), "wall_s": time.time() - t0, "diags": diags,
            "summary": summary, "stderr": p.stderr, "rc": p.returncode}


def classify(diag):
    msg = diag["message"]
    for pat, kind in SEMANTIC:
        if pat in msg:
            return kind
    return None


def analyse(asm, res):
    """Map diagnostics to obligations.  Returns dict(failures=[...], undecided=[...])."""
    failures, undecided = [], []
    if res["timeout"]:
        undecided.append("verus timed out")
        return failures, undecided
    if res["summary"] is None:
        undecided.append("verus produced no JSON summary (rc=%s): %s" % (res.get("rc"), res["stderr"][-2000:]))
    for d in res["diags"]:
        if d["level"] != "error":
            continue
        if d["message"].startswith("aborting due to"):
            continue
        kind = classify(d)
        prim = [s for s in d["spans"] if s["is_primary"]]
        sec = [s for s in d["spans"] if not s["is_primary"]]
        if kind is None:
            if "rlimit" in d["message"].lower() or "resource limit" in d["message"].lower():
                undecided.append("rlimit: " + d["message"])
            else:
                undecided.append("non-semantic verus error: %s @ %s" % (d["message"], [(s["line_start"], (s["text"] or [{}])[0].get("text", "").strip()[:100]) for s in prim]))
            continue
        pl = prim[0]["line_start"] if prim else None
        fn = _item_at(asm, pl)
        label, props, clause_text = None, None, None
        site = None
        if kind in ("postcondition", "invariant-preserved", "invariant-entry", "decreases", "invariant"):
            info = _clause_at(asm, prim[0]) if prim else None
            if kind == "invariant":
                # `loop invariant not satisfied` at a `continue`: the primary span is the continue statement,
                # the violated invariant is the secondary span
                info = None
                for s_ in sec:
                    info = _clause_at(asm, s_)
                    if info:
                        break
            if info:
                label, props, clause_text = info[2], info[3], info[4]
            if kind == "invariant" and prim:
                site = {"label": "at this continue", "text": _span_text(prim[0]), "line": pl}
            elif sec:
                site = {"label": sec[0].get("label"), "text": _span_text(sec[0]), "line": sec[0]["line_start"]}
        elif kind == "precondition":
            for s in sec:
                info = _clause_at(asm, s)
                if info:
                    label, clause_text = "%s.%s" % (info[0], info[2]), info[4]
                    props = info[3]
                elif label is None:
                    label = "callee:" + _span_text(s)[:80]
            site = {"label": "call site", "text": _span_text(prim[0]), "line": pl}
        else:
            site = {"label": "at", "text": _span_text(prim[0]) if prim else "", "line": pl}
            label = strip_comments(site["text"])[:80]
        if fn is None:
            # error in the hand-written part of the unit (spec/lemma/prelude): proof infrastructure
            fn_id = "prelude@%s" % pl
            src = None
        else:
            fn_id = fn["fn_id"]
            src = dict(fn["src"])
            if site and site.get("line"):
                src["approx_src_line"] = fn["src_line0"] + max(0, site["line"] - fn["body_off"])
        failures.append({
            "obligation": "%s/%s[%s]" % (fn_id, kind, label),
            "fn": fn_id, "kind": kind, "label": label, "clause": clause_text,
            "props": props if props else (fn["props"] if fn else None),
            "site": site, "site_key": strip_comments(site["text"]) if site else "",
            "src": src, "message": d["message"], "rendered": d.get("rendered", ""),
            "in_prelude": fn is None,
        })
    return failures, undecided


def _span_text(s):
    return "\n".join(t["text"][max(0, t["highlight_start"] - 1):t["highlight_end"] - 1] if len(s["text"]) == 1 else t["text"] for t in s["text"])


def _item_at(asm, line):
    if line is None:
        return None
    for it in asm.items:
        if it["out_start"] <= line <= it["out_end"]:
            return it
    return None


def _clause_at(asm, span):
    for ln in range(span["line_start"], span["line_end"] + 1):
        if ln in asm.clause_lines:
            return asm.clause_lines[ln]
    # multi-line clause: search upwards within 12 lines for the nearest clause mark
    for ln in range(span["line_start"], max(0, span["line_start"] - 12), -1):
        if ln in asm.clause_lines:
            return asm.clause_lines[ln]
    return None


def _all_known(failures):
    """True iff every failed obligation is listed (obligation + site) in the committed known_findings.json."""
    if not failures:
        return True
    try:
        with open(os.path.join(os.path.dirname(os.path.dirname(os.path.abspath(__file__))), "known_findings.json")) as f:
            kf = json.load(f).get("findings", [])
    except (OSError, ValueError):
        return False
    for fl in failures:
        if fl.get("in_prelude"):
            return False
        if not any(k["obligation"] == fl.get("obligation") and (k.get("site_key") is None or k["site_key"] == fl.get("site_key", "")) for k in kf):
            return False
    return True


def verify_unit(unit, repo, workdir, keep=False):
    """Full run of one unit: main file + canary file.  Returns a result dict."""
    out = {"unit": unit["name"], "undecided": [], "failures": [], "functions": [], "verified": 0, "errors": 0}
    t0 = time.time()
    try:
        asm = assemble(unit, repo, canary=False)
        asm_c = assemble(unit, repo, canary=True)
    except LostAnchor as e:
        out["undecided"].append("lost anchor: %s" % e)
        out["wall_s"] = time.time() - t0
        return out
    # Verus is deterministic on identical input: results are cached by the hash of the assembled text (which contains the
    # code just extracted from the repo), so units shared by several properties are verified once per source state.
    import hashlib
    key = hashlib.sha256(("v4|" + asm.text() + "|" + asm_c.text() + "|" + repr(unit.get("rlimit")) + repr(unit.get("rlimit_retry")) + repr(unit.get("verus_args"))).encode()).hexdigest()
    cdir = os.environ.get("VERIF_UNIT_CACHE", os.path.join(os.path.dirname(os.path.dirname(os.path.abspath(__file__))), ".cache", "units"))
    cpath = os.path.join(cdir, "%s-%s.json" % (unit["name"], key[:32]))
    if os.environ.get("VERIF_NO_CACHE") != "1" and os.path.exists(cpath):
        try:
            with open(cpath) as f:
                cached = json.load(f)
            if cached.get("undecided") or not _all_known(cached.get("failures")):
                raise ValueError("only verdicts that are clean, or whose every failure is a listed known finding, are reused")
            cached["cache_hit"] = True
            cached["verify_wall_s"] = cached.get("verify_wall_s", cached.get("wall_s"))
            cached["wall_s"] = time.time() - t0
            return cached
        except (OSError, ValueError):
            pass
    path = os.path.join(workdir, "%s.rs" % unit["name"])
    with open(path, "w") as f:
        f.write(asm.text())
    pathc = os.path.join(workdir, "%s_canary.rs" % unit["name"])
    with open(pathc, "w") as f:
        f.write(asm_c.text())
    res = run_verus(path, rlimit=unit.get("rlimit"), extra=unit.get("verus_args"))
    failures, undecided = analyse(asm, res)
    # An exhausted resource limit is not a verdict: retry with larger limits before giving up.
    for rl in unit.get("rlimit_retry", [100, 400]):
        if not any(u.startswith("rlimit") for u in undecided):
            break
        out.setdefault("rlimit_retries", []).append(rl)
        res = run_verus(path, rlimit=rl, extra=unit.get("verus_args"), timeout=900)
        failures, undecided = analyse(asm, res)
    out["failures"] = failures
    out["undecided"] += undecided
    out["cmd"] = res["cmd"]
    out["rewrites"] = asm.rewrites
    out["functions"] = [dict(it["src"], id=it["fn_id"]) for it in asm.items]
    out["clauses"] = len(asm.clause_lines)
    out["clause_list"] = [{"fn": v[0], "kind": v[1], "label": v[2], "text": v[4]} for k, v in sorted(asm.clause_lines.items())]
    out["assembled"] = path
    out["assembled_text"] = asm.text()
    if res["summary"]:
        vr = res["summary"].get("verification-results", {})
        out["verified"] = vr.get("verified", 0)
        out["errors"] = vr.get("errors", 0)
        tm = res["summary"].get("times-ms", {})
        out["smt_ms"] = tm.get("smt", {}).get("total")
        out["verus_total_ms"] = tm.get("total")
        fb = []
        for m in tm.get("smt", {}).get("smt-run-module-times", []):
            for f in m.get("function-breakdown", []):
                fb.append({"function": f["function"], "mode": f.get("mode:"), "ms": f["time"], "rlimit": f.get("rlimit"), "success": f["success"]})
        out["function_breakdown"] = fb
        if not vr.get("success") and not failures and not undecided:
            out["undecided"].append("verus reported failure without a classified diagnostic")
        if vr.get("encountered-vir-error"):
            out["undecided"].append("verus VIR error (construct outside the supported subset?)")
    # canary run: every canary must FAIL
    if not out["undecided"]:
        resc = run_verus(pathc, rlimit=unit.get("rlimit"), extra=unit.get("verus_args"))
        failed_lines = set()
        for d in resc["diags"]:
            if d["level"] == "error" and "assertion failed" in d["message"]:
                for s in d["spans"]:
                    if s["is_primary"]:
                        failed_lines.add(s["line_start"])
        vac = []
        for ln, (fn_id, where) in asm_c.canary_lines.items():
            if ln not in failed_lines:
                vac.append("%s/%s" % (fn_id, where))
        out["canaries"] = len(asm_c.canary_lines)
        out["canaries_failed_as_required"] = len(asm_c.canary_lines) - len(vac)
        if resc["timeout"] or resc["summary"] is None:
            out["undecided"].append("canary run did not complete")
        elif vac:
            out["undecided"].append("VACUOUS: assert(false) verified at " + ", ".join(vac))
        out["wall_canary_s"] = resc["wall_s"]
    out["wall_s"] = time.time() - t0
    out["cache_hit"] = False
    out["verify_wall_s"] = out["wall_s"]
    # only clean verdicts are cached: a failed or undecided run is always re-verified from scratch, so a verdict that was
    # produced while the unit was being edited (or under resource pressure) can never be replayed later
    # (a run whose ONLY failures are the committed known findings counts as clean for this purpose: its verdict is the expected one)
    if not out["undecided"] and _all_known(out["failures"]):
        try:
            os.makedirs(cdir, exist_ok=True)
            with open(cpath + ".tmp", "w") as f:
                json.dump(out, f)
            os.replace(cpath + ".tmp", cpath)
        except OSError:
            pass
    if not keep:
        for p in (path, pathc):
            try:
                os.remove(p)
            except OSError:
                pass
    return out
