#!/usr/bin/env python3
"""Print the markdown table of all seeded changes with the verdict of the registered quick check (from seeded/results.json).
The description is the heading of the sub-agent's notes.md (its own words)."""
import json, os, re
V = os.path.dirname(os.path.dirname(os.path.abspath(__file__)))
S = os.path.join(V, "seeded")
res = json.load(open(os.path.join(S, "results.json")))
rows = []
tot = {"DETECTED": 0, "MISSED": 0, "undecided": 0}
for n in sorted(d for d in os.listdir(S) if os.path.isdir(os.path.join(S, d))):
    desc = ""
    p = os.path.join(S, n, "notes.md")
    if os.path.exists(p):
        for line in open(p):
            if line.startswith("#"):
                desc = re.sub(r"^#+\s*", "", line.strip())
                desc = re.sub(r"^(C\d\d\s+)?(seeded\s+)?[Cc]hange\s*\d\s*[—:\-–]+\s*", "", desc)
                desc = re.sub(r"^C\d\d\s+(seeded\s+)?change\s*\d\s*[—:\-–]+\s*", "", desc)
                break
    r = res.get(n, {})
    v = r.get("verdict", "?")
    tot[v] = tot.get(v, 0) + 1
    why = "; ".join(re.sub(r" no-failing-input-found$", "", x.split("obligation=")[-1]) for x in r.get("violations", []))[:200]
    if not why and r.get("undecided"):
        why = r["undecided"][0].replace("UNDECIDED: ", "")[:200]
    rows.append("| %s | %s | %s | %s |" % (n, desc.replace("|", "/")[:170], v, why.replace("|", "/")))
print("| change | what it does (the sub-agent's heading) | verdict | failed obligation / reason for no verdict |")
print("|---|---|---|---|")
print("\n".join(rows))
print()
print("Totals over %d changes: %d DETECTED, %d MISSED, %d undecided." % (len(rows), tot.get("DETECTED", 0), tot.get("MISSED", 0), tot.get("undecided", 0)))
