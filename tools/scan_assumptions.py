"""Mechanical scan of an assembled Verus file for everything that is assumed rather than proved."""
import re


def scan(text, unit):
    assumptions, trusted = [], []
    lines = text.split("\n")
    for i, line in enumerate(lines):
        s = line.strip()
        if s.startswith("//"):
            continue
        if "external_body" in s:
            # name the function that follows
            sig = ""
            for j in range(i + 1, min(i + 6, len(lines))):
                if re.search(r"\b(fn|struct)\s+\w+", lines[j]):
                    sig = " ".join(lines[j].split())[:140]
                    break
            assumptions.append("%s: external_body (contract assumed, body not verified): %s" % (unit, sig))
            trusted.append("%s: %s" % (unit, sig))
        if re.search(r"\bassume_specification\b", s):
            sig = " ".join(" ".join(lines[i:i + 3]).split())[:160]
            assumptions.append("%s: assume_specification (std function, spec assumed): %s" % (unit, sig))
            trusted.append("%s: %s" % (unit, sig))
        if re.search(r"\bassume\s*\(", s):
            assumptions.append("%s: assume(...) at assembled line %d: %s" % (unit, i + 1, s[:140]))
        if re.search(r"\badmit\s*\(", s):
            assumptions.append("%s: admit() at assembled line %d" % (unit, i + 1))
        if "exec_allows_no_decreases_clause" in s:
            assumptions.append("%s: termination not proved (exec_allows_no_decreases_clause) near assembled line %d" % (unit, i + 1))
        if re.search(r"\buninterp\s+spec\s+fn", s):
            assumptions.append("%s: uninterpreted spec function: %s" % (unit, s[:140]))
        if re.search(r"\baxiom\b|broadcast\s+axiom|#\[verifier::external\]", s):
            assumptions.append("%s: axiom/external at assembled line %d: %s" % (unit, i + 1, s[:140]))
    return assumptions, trusted
