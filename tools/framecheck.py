"""Syntactic side conditions that contracts rely on.  A failed frame check is 'undecided' (the
assumption no longer describes the code), never a violation."""
import glob
import os
import re

from extract import SourceFile, mask_source, LostAnchor

CHECKS = {}


def frame(name):
    def deco(f):
        CHECKS[name] = f
        return f
    return deco


def run(name, repo):
    try:
        return CHECKS[name](repo)
    except LostAnchor as e:
        return False, "lost anchor: %s" % e
    except OSError as e:
        return False, str(e)


def _non_test(repo, rel):
    """Masked text of a file with #[cfg(test)] modules blanked."""
    sf = SourceFile(repo, rel)
    mask = sf.mask
    out = mask
    for m in re.finditer(r"#\[cfg\(test\)\]\s*(?:pub\s+)?mod\s+\w+\s*\{", mask):
        o = m.end() - 1
        from extract import match_close
        c = match_close(mask, o)
        out = out[:m.start()] + re.sub(r"[^\n]", " ", out[m.start():c + 1]) + out[c + 1:]
    return sf, out


def _files(repo, sub):
    base = os.path.join(repo, sub)
    res = []
    for root, _, files in os.walk(base):
        for f in files:
            if f.endswith(".rs"):
                res.append(os.path.relpath(os.path.join(root, f), repo))
    return sorted(res)


def _fn_span(sf, mask, kind, name, container=None):
    it = sf.find(kind, name, container)
    return it.start, it.end


@frame("only_lexer_next_makes_limit_errors")
def only_lexer_next_makes_limit_errors(repo):
    """Cursor::advance (assumed) never returns a limit error: in lexer/, `Error::limit(` and
    `LimitExceeded` occur only inside Lexer::next / Error::limit."""
    hits = []
    for rel in _files(repo, "crates/apollo-parser/src/lexer"):
        sf, mask = _non_test(repo, rel)
        for m in re.finditer(r"Error::limit\s*\(|LimitExceeded", mask):
            ok = False
            if rel.endswith("lexer/mod.rs"):
                a, b = _fn_span(sf, mask, "fn", "next", r"Iterator for Lexer<'a>")
                ok = a <= m.start() < b
            if not ok:
                hits.append("%s@%d" % (rel, mask.count("\n", 0, m.start()) + 1))
    sf, mask = _non_test(repo, "crates/apollo-parser/src/error.rs")
    n = len(re.findall(r"ErrorData::LimitExceeded", mask))
    # constructed once in Error::limit, matched in is_limit; Self::LimitExceeded in len/Display
    a, b = _fn_span(sf, mask, "fn", "limit", "Error")
    constructed_elsewhere = [m.start() for m in re.finditer(r"data\s*:\s*ErrorData::LimitExceeded", mask) if not (a <= m.start() < b)]
    if hits or constructed_elsewhere:
        return False, "limit errors are created outside Lexer::next: %s %s" % (hits, constructed_elsewhere)
    return True, "lexer/: Error::limit only in Lexer::next; ErrorData::LimitExceeded only constructed in Error::limit"


@frame("file_id_counter_single_fetch_add")
def file_id_counter_single_fetch_add(repo):
    """FileId::new touches NEXT by exactly one fetch_add(1, ..); elsewhere NEXT is only stored to in reset()."""
    sf, mask = _non_test(repo, "crates/apollo-compiler/src/parser.rs")
    a, b = _fn_span(sf, mask, "fn", "new", "FileId")
    body = mask[a:b]
    uses = re.findall(r"\bNEXT\s*\.\s*(\w+)\s*\(", body)
    if uses != ["fetch_add"] or not re.search(r"NEXT\s*\.\s*fetch_add\s*\(\s*1\s*,", sf.src[a:b]):
        return False, "FileId::new no longer uses exactly one NEXT.fetch_add(1, ..): %s" % uses
    all_uses = [(m.group(1), m.start()) for m in re.finditer(r"\bNEXT\s*\.\s*(\w+)\s*\(", mask)]
    ra, rb = _fn_span(sf, mask, "fn", "reset", "FileId")
    other = [(u, p) for u, p in all_uses if not (a <= p < b) and not (ra <= p < rb and u == "store")]
    if other:
        return False, "NEXT is accessed outside FileId::new/reset: %s" % other
    return True, "FileId::new reads and advances NEXT with a single atomic fetch_add(1); no other access besides reset()'s store"


@frame("grammar_uses_primitives_only")
def grammar_uses_primitives_only(repo):
    """The ~55 grammar functions that are not extracted reach the tree and the lexer only through the verified
    primitives: outside ty.rs, nothing under parser/grammar/ calls pop / push_token / eat / next_token or touches
    the fields pending, current_token, builder, lexer, errors, accept_errors."""
    bad = []
    pat = re.compile(r"\.\s*(pop|push_token|eat|next_token)\s*\(|\.\s*(pending|current_token|builder|lexer|errors|accept_errors)\b(?!\s*\()")
    for rel in _files(repo, "crates/apollo-parser/src/parser/grammar"):
        if rel.endswith("/ty.rs"):
            continue
        sf, mask = _non_test(repo, rel)
        for m in pat.finditer(mask):
            bad.append("%s@%d:%s" % (rel, mask.count("\n", 0, m.start()) + 1, m.group(0).strip()))
    if bad:
        return False, "grammar code touches tokens/tree directly: %s" % bad[:8]
    return True, "grammar/*.rs (except ty.rs, which is extracted) use only the Parser primitives under contract"


@frame("document_ends_with_flush")
def document_ends_with_flush(repo):
    """document() ends with push_ignored() then finishing the DOCUMENT node; Parser::parse calls document() first."""
    sf = SourceFile(repo, "crates/apollo-parser/src/parser/grammar/document.rs")
    it = sf.find("fn", "document")
    body = " ".join(mask_source(it.text).split())
    if not body.endswith("p.push_ignored(); doc.finish_node(); }"):
        return False, "document() no longer ends with `p.push_ignored(); doc.finish_node();`"
    sf2 = SourceFile(repo, "crates/apollo-parser/src/parser/mod.rs")
    it2 = sf2.find("fn", "parse", r"Parser<'input>")
    b2 = " ".join(mask_source(it2.text).split())
    if "{ grammar::document::document(&mut self);" not in b2:
        return False, "Parser::parse no longer starts with grammar::document::document(&mut self)"
    return True, "document() ends with push_ignored(); Parser::parse runs document() first"


@frame("coordinate_display_formats")
def coordinate_display_formats(repo):
    """Display of the five coordinate kinds is write!(f, ..) of exactly the pieces the parsers return, with the separators of the grammar."""
    sf = SourceFile(repo, "crates/apollo-compiler/src/coordinate.rs")
    want = {"TypeCoordinate": '"{ty}"', "TypeAttributeCoordinate": '"{ty}.{field}"', "FieldArgumentCoordinate": '"{ty}.{field}({argument}:)"',
            "DirectiveCoordinate": '"@{directive}"', "DirectiveArgumentCoordinate": '"@{directive}({argument}:)"'}
    for ty, fmt in want.items():
        it = sf.find("fn", "fmt", r"fmt::Display for %s" % ty)
        body = " ".join(it.text.split())
        if ("write!(f, %s)" % fmt) not in body:
            return False, "Display for %s is no longer write!(f, %s)" % (ty, fmt)
        if ty == "TypeAttributeCoordinate" and "attribute: field" not in body:
            return False, "Display for TypeAttributeCoordinate no longer binds attribute as `field`"
    return True, "Display impls are format strings of exactly the parsed pieces: " + ", ".join(want.values())


@frame("cursor_fields_written_only_by_primitives")
def cursor_fields_written_only_by_primitives(repo):
    """Unit `cursor` proves that Cursor::new establishes and every primitive preserves the representation invariant; this checks that nothing in
    lexer/mod.rs writes the cursor's private state behind their back: no assignment to self.index / self.pending / self.chars, and self.offset is
    assigned only in `eof` (State::Start: after the last character, when the lexer finishes)."""
    sf, mask = _non_test(repo, "crates/apollo-parser/src/lexer/mod.rs")
    bad = [m.group(0) for m in re.finditer(r"self\s*\.\s*(index|pending|chars)\s*(=(?!=)|\.take\(|\.next\()", mask)]
    offs = [m.start() for m in re.finditer(r"self\s*\.\s*offset\s*=(?!=)", mask)]
    a, b = _fn_span(sf, mask, "fn", "eof", r"Cursor<'a>")
    outside = [o for o in offs if not (a <= o < b)]
    if bad or outside or len(offs) > 1:
        return False, "lexer/mod.rs writes cursor state directly: %s, offset assignments outside eof: %d (total %d)" % (bad, len(outside), len(offs))
    return True, "lexer/mod.rs changes index / pending / chars only through Cursor's primitives; the single `self.offset = ..` is in eof (end of input)"


@frame("peek_while_is_the_plain_loop")
def peek_while_is_the_plain_loop(repo):
    """The unit inlines the combinators peek_while / peek_while_kind / parse_separated_list at every call site in the grammar; this checks that
    the combinators still are the plain loops that were inlined (modulo debug_assert! and the `before` clone used only by it)."""
    sf = SourceFile(repo, "crates/apollo-parser/src/parser/mod.rs")
    def norm(name):
        it = sf.find("fn", name, r"Parser<'input>")
        t = re.sub(r"debug_assert!\s*\((?:[^()]|\([^()]*\))*\)\s*;", "", it.text)
        t = mask_source(t)
        t = re.sub(r"let before = self\.current_token\.clone\(\);", "", t)
        return " ".join(t.split())
    a = norm("peek_while")
    want_a = "pub(crate) fn peek_while( &mut self, mut run: impl FnMut(&mut Parser, TokenKind) -> ControlFlow<()>, ) { while let Some(kind) = self.peek() { match run(self, kind) { ControlFlow::Break(()) => break, ControlFlow::Continue(()) => { } } } }"
    b = norm("peek_while_kind")
    want_b = "pub(crate) fn peek_while_kind(&mut self, expect: TokenKind, mut run: impl FnMut(&mut Parser)) { while let Some(kind) = self.peek() { if kind != expect { break; } run(self); } }"
    c = norm("parse_separated_list")
    want_c = "pub(crate) fn parse_separated_list( &mut self, separator: TokenKind, separator_syntax: SyntaxKind, mut run: impl FnMut(&mut Parser), ) { if matches!(self.peek(), Some(kind) if kind == separator) { self.bump(separator_syntax); } run(self); self.peek_while_kind(separator, |p| { p.bump(separator_syntax); run(p); }); }"
    if a != want_a:
        return False, "peek_while changed: %s" % a
    if b != want_b:
        return False, "peek_while_kind changed: %s" % b
    if c != want_c:
        return False, "parse_separated_list changed: %s" % c
    return True, "peek_while / peek_while_kind / parse_separated_list are the plain loops that the unit inlines at their call sites"
