"""Syntactic side conditions that contracts rely on.  A failed frame check is 'undecided' (the
assumption no longer describes the code), never a violation."""
import glob
import os
import re

from extract import SourceFile, mask_source, LostAnchor

CHECKS = {}


def frame(name):
    def deco(f):
        CHECKS[name] = f
        return f
    return deco


def run(name, repo):
    try:
        return CHECKS[name](repo)
    except LostAnchor as e:
        return False, "lost anchor: %s" % e
    except OSError as e:
        return False, str(e)
