#!/bin/sh
# Developer helper (not a registered command): apply each selftest/harmless_*.diff to a scratch worktree of /repo's HEAD and run the quick checks
# given as arguments (default: those with Verus units that finish quickly) with VERIF_REPO pointing at it. Every line must say `0 violations` and
# `0 undecided`; nothing is written to /repo and evidence goes to a scratch directory (check.py does that for VERIF_REPO != /repo).
cd "$(dirname "$0")/.."
WT=${SELFTEST_WT:-/tmp/wt_selftest}
CHECKS=${*:-C06 C09 C14 C15 C16 C17 C25 C26 C28 C29 C32 C33}
[ -d "$WT" ] || git -C /repo worktree add -q --detach "$WT" HEAD
git -C "$WT" checkout -q --detach "$(git -C /repo rev-parse HEAD)"
for d in selftest/harmless_*.diff; do
  git -C "$WT" checkout -q -- .
  if ! git -C "$WT" apply "$PWD/$d" 2>/dev/null; then echo "$d: does not apply to this HEAD (skipped)"; continue; fi
  for id in $CHECKS; do
    printf '%s  ' "$d"; VERIF_REPO="$WT" python3 tools/check.py "$id" --tier quick | tail -1
  done
done
git -C "$WT" checkout -q -- .
git -C /repo worktree remove --force "$WT"
