#!/usr/bin/env python3
"""The command registered in MANIFEST.json:  check.py <PROPERTY-ID> [--tier quick|thorough]

Exit 0: every obligation of the property's units discharged (known findings
printed as KNOWN-FINDING lines).  Exit 1 + `VIOLATION property=<id> replay=<path>`:
an obligation fails with a semantic verifier verdict and is not a listed known
finding.  Exit 2: undecided (lost anchor, unsupported construct, timeout, tool
failure, vacuity guard tripped) -- never an alarm.
"""
import argparse
import importlib.util
import json
import os
import re
import shutil
import sys
import tempfile
import time

HERE = os.path.dirname(os.path.abspath(__file__))
VERIF = os.path.dirname(HERE)
sys.path.insert(0, HERE)
sys.path.insert(0, os.path.join(os.path.dirname(os.path.dirname(os.path.abspath(__file__))), "units"))
import verus_unit  # noqa: E402
import kani_unit  # noqa: E402
import framecheck  # noqa: E402
import scan_assumptions  # noqa: E402


def load_py(path, attr):
    spec = importlib.util.spec_from_file_location("m_" + os.path.basename(path)[:-3], path)
    m = importlib.util.module_from_spec(spec)
    spec.loader.exec_module(m)
    return getattr(m, attr)


def load_unit(name):
    return load_py(os.path.join(VERIF, "units", name + ".py"), "UNIT")


def slug(s):
    return re.sub(r"[^A-Za-z0-9_.-]+", "_", s)[:120]


def known_findings():
    p = os.path.join(VERIF, "known_findings.json")
    if not os.path.exists(p):
        return {"findings": [], "fixed": []}
    with open(p) as f:
        return json.load(f)


def match_known(prop, failure, kf):
    for k in kf.get("findings", []):
        if k["property"] != prop:
            continue
        if k["obligation"] != failure["obligation"]:
            continue
        if k.get("site_key") is not None and k["site_key"] != failure.get("site_key", ""):
            continue
        return k
    return None


def main():
    ap = argparse.ArgumentParser()
    ap.add_argument("prop")
    ap.add_argument("--tier", default=os.environ.get("VERIF_TIER", "quick"))
    ap.add_argument("--replay")
    ap.add_argument("--keep", action="store_true")
    args = ap.parse_args()
    prop = args.prop
    tier = args.tier if args.tier in ("quick", "thorough") else "quick"
    seed = int(os.environ.get("VERIF_SEED", "0") or 0)
    repo = os.environ.get("VERIF_REPO", "/repo")
    t0 = time.time()

    if args.replay:
        with open(args.replay) as f:
            print(f.read())
        return 0

    props = load_py(os.path.join(VERIF, "checks", "props.py"), "PROPS")
    if prop not in props:
        print("unknown or unclaimed property %s" % prop)
        return 2
    cfg = props[prop]
    kf = known_findings()
    work = tempfile.mkdtemp(prefix="verif_%s_" % prop)
    undecided, violations, known_hits = [], [], []
    unit_results = []
    functions, assumptions, trusted = [], [], []
    obligations = discharged = 0
    clause_samples = []
    solver_ms = 0
    backends = set()
    checker_cmds = []
    bounded_units = []
    bounded_run = bounded_ok = 0
    bounded_not_completed = []
    other_prop_failures = []

    try:
        # ---- frame checks (syntactic side conditions the contracts rely on) ----
        for fc in cfg.get("frame", []):
            ok, msg = framecheck.run(fc, repo)
            if not ok:
                undecided.append("frame check %s: %s" % (fc, msg))
            else:
                assumptions.append("frame check passed: %s" % msg)

        # ---- Verus units ----
        for uname in cfg.get("verus", []):
            unit = load_unit(uname)
            r = verus_unit.verify_unit(unit, repo, work, keep=True)
            unit_results.append(r)
            backends.add("verus 0.2026.09.13 / z3")
            checker_cmds.append(r.get("cmd", "verus"))
            undecided += ["%s: %s" % (uname, u) for u in r["undecided"]]
            mine = []
            for f in r["failures"]:
                fprops = f.get("props") or unit["properties"]
                if prop in fprops or f.get("in_prelude"):
                    mine.append(f)
            # function-level obligations; a function counts against THIS property only if one of its
            # failed clauses is attributed to this property (clauses carry property tags)
            n_fn = r.get("verified", 0) + r.get("errors", 0)
            obligations += n_fn
            failed_fns_mine = set(f["fn"] for f in mine)
            # a function whose failed obligation belongs to ANOTHER property (e.g. a known finding of C02 inside `parse`) is not an alarm
            # here, but it is not counted as discharged either
            failed_fns_all = set(f["fn"] for f in r["failures"])
            for f in r["failures"]:
                if f["fn"] not in failed_fns_mine:
                    other_prop_failures.append("%s: %s (attributed to %s)" % (uname, f["obligation"], ",".join(f.get("props") or unit["properties"])))
            # such functions are left out of BOTH counts for this property (Verus reports failed clauses one by one: the clauses of this
            # property inside them did verify, but the function as a whole is not a discharged unit) and are listed in the evidence
            others_only = failed_fns_all - failed_fns_mine
            obligations -= len(others_only)
            discharged += n_fn - len(failed_fns_all) if not r["undecided"] else r.get("verified", 0)
            solver_ms += r.get("smt_ms") or 0
            functions += [dict(f, unit=uname, engine="verus") for f in r.get("functions", [])]
            clause_samples += ["%s: %s %s [%s]: %s" % (uname, c["fn"], c["kind"], c["label"], " ".join(c["text"].split())[:160]) for c in r.get("clause_list", [])]
            if r.get("assembled_text"):
                a, t = scan_assumptions.scan(r["assembled_text"], uname)
                assumptions += a
                trusted += t
                assumptions += ["%s rewrite: %s" % (uname, x) for x in r.get("rewrites", [])]
            for f in mine:
                if f.get("in_prelude"):
                    undecided.append("%s: proof infrastructure (hand-written lemma/spec) failed: %s" % (uname, f["obligation"]))
                    continue
                k = match_known(prop, f, kf)
                if k:
                    known_hits.append((k, f))
                    discharged += 0
                else:
                    violations.append(dict(f, unit=uname, engine="verus"))
            # failures in the unit that belong to other properties still make this run's
            # function count honest: they are counted as not discharged above.

        # ---- Kani units ----
        kunits = list(cfg.get("kani", []))
        if kunits and not undecided_blocks(undecided):
            kr = kani_unit.run_units(kunits, repo, tier, prop)
            backends.add("kani 0.68 / cbmc 6.11")
            undecided += kr["undecided"]
            checker_cmds += kr["cmds"]
            for h in kr["harnesses"]:
                if h["class"] == "bounded":
                    # a bounded stand-in is never counted as a discharged proof obligation
                    bounded_run += 1
                    bounded_ok += 1 if h["status"] == "ok" else 0
                else:
                    obligations += 1
                functions.append({"id": h["harness"], "engine": "kani", "targets": h.get("targets"), "class": h["class"], "bound": h.get("bound"), "time_s": h.get("time_s"), "checks": h.get("n_checks")})
                solver_ms += int(1000 * (h.get("time_s") or 0))
                if h["class"] == "bounded":
                    bounded_units.append("%s (bound: %s)" % (h["harness"], h.get("bound")))
                if h["status"] == "ok":
                    discharged += 0 if h["class"] == "bounded" else 1
                    clause_samples.append("kani: %s [%s] %s" % (h["harness"], h["class"], h.get("doc", "")))
                elif h["status"] == "failed":
                    f = {"obligation": "kani/%s[%s]" % (h["harness"], h.get("failed_check", "?")), "site_key": h.get("failed_check", ""), "kind": "kani",
                         "fn": h["harness"], "message": h.get("failed_check"), "rendered": h.get("output_tail", ""), "witness": h.get("witness"),
                         "src": {"targets": h.get("targets")}, "site": None, "label": h.get("failed_check")}
                    k = match_known(prop, f, kf)
                    if k:
                        known_hits.append((k, f))
                    else:
                        violations.append(dict(f, unit="kani", engine="kani"))
            assumptions += kr["assumptions"]
            trusted += kr["trusted"]
            bounded_not_completed += kr.get("not_completed", [])

        # ---- witness search for Verus failures (replay on the real code) ----
        for v in violations:
            if v["engine"] == "verus" and cfg.get("witness"):
                try:
                    w = kani_unit.find_witness(cfg["witness"], repo, v)
                except Exception as e:  # witness search is best effort
                    w = {"error": repr(e)}
                v["witness"] = w
    finally:
        if not args.keep:
            shutil.rmtree(work, ignore_errors=True)

    wall = time.time() - t0
    # ---- report ----
    rc = 0
    os.makedirs(os.path.join(VERIF, "replays"), exist_ok=True)
    for k, f in known_hits:
        print("KNOWN-FINDING: property=%s %s" % (prop, k["what"]))
    for v in violations:
        path = os.path.join(VERIF, "replays", "%s-%s.json" % (prop, slug(v["obligation"])))
        w = v.get("witness")
        has_input = bool(w and w.get("input") is not None)
        with open(path, "w") as f:
            json.dump({"property": prop, "failed_obligation": v["obligation"], "engine": v["engine"], "unit": v["unit"],
                       "function": v.get("fn"), "clause": v.get("clause"), "site": v.get("site"), "source": v.get("src"),
                       "verifier_message": v.get("message"), "verifier_output": v.get("rendered"),
                       "failing_input": w.get("input") if has_input else None,
                       "replay_on_real_code": w if w else "no concrete input: the verifier gives no counterexample for this obligation",
                       "repo": repo}, f, indent=1)
        print("VIOLATION property=%s replay=%s obligation=%s%s" % (prop, path, v["obligation"], "" if has_input else " no-failing-input-found"))
        rc = 1
    if undecided:
        for u in undecided:
            print("UNDECIDED: %s" % u)
        if rc == 0:
            rc = 2

    ev = {
        "property_id": prop, "tier": tier, "seed": seed, "level": cfg.get("level", "proof"),
        "coverage": {
            "obligations": obligations, "discharged": discharged - 0,
            "checker_cmd": " ; ".join(sorted(set(checker_cmds)))[:2000] or "none",
            "trusted_base": sorted(set(trusted)),
            "explanation": cfg.get("explanation", ""),
            "back_ends": sorted(backends),
            "solver_time_ms": solver_ms,
            "functions_under_contract": functions,
            "n_functions_under_contract": len([f for f in functions if f.get("engine") == "verus" and str(f.get("item", "")).startswith("fn")]) + len([f for f in functions if f.get("engine") == "kani"]),
            "spliced_clauses": sum(r.get("clauses", 0) for r in unit_results),
            "vacuity_canaries": {"inserted": sum(r.get("canaries", 0) for r in unit_results), "failed_as_required": sum(r.get("canaries_failed_as_required", 0) for r in unit_results)},
            "samples": clause_samples[:60],
            "evaluations": sum((f.get("checks") or 0) for f in functions if f.get("engine") == "kani") + sum(r.get("clauses", 0) + r.get("canaries", 0) for r in unit_results),
            "distinct_nontrivial": len(set(f["id"] for f in functions if f.get("engine") == "kani" and (f.get("checks") or 0) > 0)) + sum(r.get("clauses", 0) for r in unit_results),
            "rule": "evaluations = CBMC property checks evaluated by the Kani harnesses of this run + contract clauses and vacuity canaries checked by Verus; "
                    "a case is one Kani harness with at least one reachable check, or one spliced contract clause (requires/ensures/invariant/decreases) -- all distinct by construction",
            "bounded_stand_ins_not_counted_as_proved": bounded_units,
            "bounded_stand_ins": {"run": bounded_run, "passed": bounded_ok, "not_completed_within_timeout": bounded_not_completed, "note": "Kani harnesses with a stated bound; NOT included in obligations/discharged"},
            "units": [{"unit": r["unit"], "reused_from_cache": bool(r.get("cache_hit")), "verify_wall_s": round(r.get("verify_wall_s") or 0, 1), "smt_ms": r.get("smt_ms"),
                       "functions_verified": r.get("verified"), "slowest": sorted([(f["function"], f["ms"]) for f in r.get("function_breakdown", [])], key=lambda x: -x[1])[:3]} for r in unit_results],
            "not_decided": cfg.get("not_decided", []),
            "known_findings_hit": [k["what"] for k, _ in known_hits],
            "failed_obligations_attributed_to_other_properties": sorted(set(other_prop_failures)),
            "unit_results_reused_from_cache": [r["unit"] for r in unit_results if r.get("cache_hit")],
            "cache_note": "Verus unit verdicts are cached by the SHA-256 of the assembled file (it contains the code extracted from the repo on this run); a hit means the identical text was verified earlier in this sandbox",
            "undecided": undecided,
            "repo": repo,
        },
        "assumptions": sorted(set(assumptions)) + cfg.get("assumptions", []),
        "wall_s": round(wall, 2),
        "violations": len(violations),
    }
    # evidence under /verif/evidence describes /repo only; runs against a scratch tree (VERIF_REPO) write elsewhere
    evdir = os.path.join(VERIF, "evidence") if os.path.realpath(repo) == "/repo" else os.path.join(tempfile.gettempdir(), "verif_scratch_evidence")
    os.makedirs(evdir, exist_ok=True)
    with open(os.path.join(evdir, "%s.json" % prop), "w") as f:
        json.dump(ev, f, indent=1)
    print("%s: %d/%d obligations discharged%s, %d violations, %d known findings, %d undecided%s, %.1fs" % (prop, discharged, obligations, (" (+%d/%d bounded stand-ins passed)" % (bounded_ok, bounded_run)) if bounded_run else "", len(violations), len(known_hits), len(undecided),
          (", %d function(s) left out: they fail obligations of other properties" % len(set(x.split(" (attributed")[0].split("/")[0] for x in other_prop_failures))) if other_prop_failures else "", wall))
    return rc


def undecided_blocks(undecided):
    return False


if __name__ == "__main__":
    try:
        rc = main()
    except SystemExit:
        raise
    except BaseException as e:  # a crash of the machinery is never an alarm
        import traceback
        traceback.print_exc()
        print("UNDECIDED: internal error in the checking machinery: %r" % (e,))
        rc = 2
    sys.exit(rc)
