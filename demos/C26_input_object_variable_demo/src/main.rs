//! `{ a: $v, b: 1 }` with no runtime value for `$v`: the spec's input-object coercion treats `a` as not provided
//! (table in https://spec.graphql.org/October2021/#sec-Input-Objects.Input-Coercion: `{ a: $var, b: 123 }` with `{}` -> `{ b: 123 }`),
//! so its default applies.
use apollo_compiler::resolvers::{self, ResolvedValue};
use apollo_compiler::{ExecutableDocument, Schema};
struct Root;
impl resolvers::ObjectValue for Root {
    fn type_name(&self) -> &str { "Query" }
    fn resolve_field<'a>(&'a self, info: &resolvers::ResolveInfo<'a>) -> Result<ResolvedValue<'a>, resolvers::FieldError> {
        match info.field_name() {
            "f" | "g" => Ok(ResolvedValue::leaf(serde_json::to_string(info.arguments()).unwrap())),
            _ => Err(self.unknown_field_error(info)),
        }
    }
}
fn main() {
    let sdl = "input I { a: Int = 5, b: Int } input J { a: Int, b: Int } type Query { f(i: I): String g(j: J): String }";
    let schema = Schema::parse_and_validate(sdl, "schema.graphql").unwrap();
    let mut bad = 0;
    for (query, expected) in [
        ("query($v: Int) { f(i: {a: $v, b: 1}) }", r#"{"data":{"f":"{\"i\":{\"a\":5,\"b\":1}}"}}"#),
        ("query($v: Int) { g(j: {a: $v, b: 1}) }", r#"{"data":{"g":"{\"j\":{\"b\":1}}"}}"#),
    ] {
        let document = ExecutableDocument::parse_and_validate(&schema, query, "query.graphql").unwrap();
        let response = resolvers::Execution::new(&schema, &document).execute_sync(&Root).unwrap();
        let got = serde_json::to_string(&response).unwrap();
        println!("{query}\n  got      {got}\n  expected {expected}");
        if got != expected { bad += 1; }
    }
    std::process::exit(if bad == 0 { 0 } else { 1 });
}
