use apollo_compiler::resolvers::{self, ResolvedValue};
use apollo_compiler::{ExecutableDocument, Schema};

struct Root;
struct T;
impl resolvers::ObjectValue for Root {
    fn type_name(&self) -> &str { "Query" }
    fn resolve_field<'a>(&'a self, info: &resolvers::ResolveInfo<'a>) -> Result<ResolvedValue<'a>, resolvers::FieldError> {
        match info.field_name() {
            "i" => Ok(ResolvedValue::object(T)),
            _ => Err(self.unknown_field_error(info)),
        }
    }
}
impl resolvers::ObjectValue for T {
    fn type_name(&self) -> &str { "T" }
    fn resolve_field<'a>(&'a self, info: &resolvers::ResolveInfo<'a>) -> Result<ResolvedValue<'a>, resolvers::FieldError> {
        match info.field_name() {
            "f" => Ok(ResolvedValue::null()),
            _ => Err(self.unknown_field_error(info)),
        }
    }
}
fn main() {
    let sdl = "type Query { i: I } interface I { f: Int } type T implements I { f: Int! }";
    let schema = Schema::parse_and_validate(sdl, "schema.graphql").unwrap();
    for query in ["{ i { f } }", "{ i { ... on T { f } } }"] {
        let document = ExecutableDocument::parse_and_validate(&schema, query, "query.graphql").unwrap();
        let response = resolvers::Execution::new(&schema, &document).execute_sync(&Root).unwrap();
        println!("{query} -> {}", serde_json::to_string(&response).unwrap());
    }
}
