//! C33 known finding: a field of type `[[Int!]!]!` gets a FLAT list in the generated response
//! (ResponseBuilder::generate_field_value looks at one list level only). Exits 1 while the finding stands.
use apollo_compiler::{ExecutableDocument, Schema};
use apollo_smith::{ResponseBuilder, Unstructured, Value};

fn main() {
    let schema = Schema::parse_and_validate("type Query { m: [[Int!]!]! }", "schema.graphql").unwrap();
    let doc = ExecutableDocument::parse_and_validate(&schema, "{ m }", "query.graphql").unwrap();
    let buf: Vec<u8> = (0..2048u32).map(|i| (i.wrapping_mul(2654435761) >> 24) as u8).collect();
    let mut u = Unstructured::new(&buf);
    let data = ResponseBuilder::new(&mut u, &doc, &schema).with_min_list_size(1).with_max_list_size(3).build_data().unwrap();
    println!("{{ m }} with m: [[Int!]!]! -> {data}");
    let rows = match &data { Value::Object(o) => o.get("m").and_then(|v| v.as_array()).cloned().unwrap_or_default(), _ => vec![] };
    let nested = !rows.is_empty() && rows.iter().all(|row| row.is_array());
    println!("{}", if nested { "every item of m is a list: lists nest as the type does" } else { "items of m are NOT lists: the response is one list level short" });
    std::process::exit(if nested { 0 } else { 1 });
}
