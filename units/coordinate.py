"""Unit `coordinate` -- C23 (parsing half, unbounded): the five schema-coordinate parsers accept exactly the forms
Name | Name.Name | Name.Name(Name:) | @Name | @Name(Name:) and return exactly the component names.

Extracted verbatim from crates/apollo-compiler/src/coordinate.rs: the structs TypeCoordinate, TypeAttributeCoordinate,
FieldArgumentCoordinate, DirectiveCoordinate, DirectiveArgumentCoordinate and their `FromStr::from_str` bodies
(wrapped as inherent methods; `Self::Err` spelled out).

Listed rewrites: `s.split_once(c)` -> `split_once_char(s, c)`, `s.strip_prefix(c)` -> `strip_prefix_char(s, c)`:
str search methods have no Verus spec; the free functions carry the documented std semantics as assumed contracts.
Name::try_from(&str) is a shim whose contract (Ok iff Name grammar, same text) is what unit `name` proves for the
real Name::new, which TryFrom<&str> forwards to.
"""
CO = "crates/apollo-compiler/src/coordinate.rs"

PRELUDE = r'''
// ---------------- specification ----------------
pub open spec fn is_start(c: char) -> bool { ('A' <= c <= 'Z') || ('a' <= c <= 'z') || c == '_' }
pub open spec fn is_cont(c: char) -> bool { is_start(c) || ('0' <= c <= '9') }
/// https://spec.graphql.org/October2021/#Name
pub open spec fn is_name(s: Seq<char>) -> bool {
    s.len() > 0 && is_start(s[0]) && forall|i: int| 1 <= i < s.len() ==> is_cont(#[trigger] s[i])
}
pub open spec fn dot() -> Seq<char> { seq!['.'] }
pub open spec fn lparen() -> Seq<char> { seq!['('] }
pub open spec fn colon_rparen() -> Seq<char> { seq![':', ')'] }
pub open spec fn at() -> Seq<char> { seq!['@'] }
// the five forms
pub open spec fn form_type(s: Seq<char>) -> bool { is_name(s) }
pub open spec fn form_type_attribute(s: Seq<char>) -> bool {
    exists|a: Seq<char>, b: Seq<char>| is_name(a) && is_name(b) && s =~= #[trigger] (a + dot() + b)
}
pub open spec fn form_field_argument(s: Seq<char>) -> bool {
    exists|a: Seq<char>, b: Seq<char>, c: Seq<char>| is_name(a) && is_name(b) && is_name(c) && s =~= #[trigger] (a + dot() + b + lparen() + c + colon_rparen())
}
pub open spec fn form_directive(s: Seq<char>) -> bool {
    exists|a: Seq<char>| is_name(a) && s =~= #[trigger] (at() + a)
}
pub open spec fn form_directive_argument(s: Seq<char>) -> bool {
    exists|a: Seq<char>, b: Seq<char>| is_name(a) && is_name(b) && s =~= #[trigger] (at() + a + lparen() + b + colon_rparen())
}

// names contain none of the separator characters
pub proof fn lemma_name_has_no(a: Seq<char>, c: char)
    requires is_name(a), c == '.' || c == '(' || c == ':' || c == ')' || c == '@'
    ensures !a.contains(c)
{
    if a.contains(c) {
        let i = choose|i: int| 0 <= i < a.len() && a[i] == c;
        if i == 0 { assert(is_start(a[0])); } else { assert(is_cont(a[i])); }
    }
}

// splitting at the first occurrence of a separator is unique
pub proof fn lemma_split_unique(a: Seq<char>, b: Seq<char>, x: Seq<char>, y: Seq<char>, c: char)
    requires a + seq![c] + b =~= x + seq![c] + y, !a.contains(c), !x.contains(c)
    ensures a =~= x, b =~= y
{
    let l = a + seq![c] + b;
    let r = x + seq![c] + y;
    if a.len() < x.len() {
        assert(l[a.len() as int] == c);
        assert(r[a.len() as int] == x[a.len() as int]);
        assert(x.contains(c));
    }
    if x.len() < a.len() {
        assert(r[x.len() as int] == c);
        assert(l[x.len() as int] == a[x.len() as int]);
        assert(a.contains(c));
    }
    assert(a.len() == x.len());
    assert forall|i: int| 0 <= i < a.len() implies a[i] == x[i] by { assert(l[i] == a[i]); assert(r[i] == x[i]); }
    assert(b.len() == y.len()) by { assert(l.len() == r.len()); }
    assert forall|i: int| 0 <= i < b.len() implies b[i] == y[i] by { assert(l[a.len() + 1 + i] == b[i]); assert(r[x.len() + 1 + i] == y[i]); }
}
pub proof fn lemma_strip_unique(b: Seq<char>, y: Seq<char>, c: char)
    requires seq![c] + b =~= seq![c] + y
    ensures b =~= y
{
    assert(b.len() == y.len()) by { assert((seq![c] + b).len() == (seq![c] + y).len()); }
    assert forall|i: int| 0 <= i < b.len() implies b[i] == y[i] by { assert((seq![c] + b)[1 + i] == b[i]); assert((seq![c] + y)[1 + i] == y[i]); }
}

// Name.Name
pub proof fn lemma_type_attribute(s: Seq<char>)
    ensures
        form_type_attribute(s) ==> s.contains('.'),
        forall|x: Seq<char>, y: Seq<char>| (s =~= #[trigger] (x + dot() + y) && !x.contains('.')) ==> (form_type_attribute(s) <==> (is_name(x) && is_name(y))),
{
    if form_type_attribute(s) {
        let (a, b) = choose|a: Seq<char>, b: Seq<char>| is_name(a) && is_name(b) && s =~= #[trigger] (a + dot() + b);
        assert(s[a.len() as int] == '.');
    }
    assert forall|x: Seq<char>, y: Seq<char>| (s =~= #[trigger] (x + dot() + y) && !x.contains('.')) implies (form_type_attribute(s) <==> (is_name(x) && is_name(y))) by {
        if form_type_attribute(s) {
            let (a, b) = choose|a: Seq<char>, b: Seq<char>| is_name(a) && is_name(b) && s =~= #[trigger] (a + dot() + b);
            lemma_name_has_no(a, '.');
            lemma_split_unique(a, b, x, y, '.');
        }
    }
}
// @Name
pub proof fn lemma_directive(s: Seq<char>)
    ensures
        form_directive(s) ==> s.len() > 0 && s[0] == '@',
        forall|y: Seq<char>| s =~= #[trigger] (at() + y) ==> (form_directive(s) <==> is_name(y)),
{
    if form_directive(s) {
        let a = choose|a: Seq<char>| is_name(a) && s =~= #[trigger] (at() + a);
        assert(s[0] == '@');
    }
    assert forall|y: Seq<char>| s =~= #[trigger] (at() + y) implies (form_directive(s) <==> is_name(y)) by {
        if form_directive(s) {
            let a = choose|a: Seq<char>| is_name(a) && s =~= #[trigger] (at() + a);
            lemma_strip_unique(a, y, '@');
        }
    }
}

pub open spec fn arg_tail(rest: Seq<char>) -> bool { exists|c: Seq<char>| is_name(c) && rest =~= #[trigger] (c + colon_rparen()) }
// `Name:)` split at the first ':'
pub proof fn lemma_arg_tail(rest: Seq<char>)
    ensures
        arg_tail(rest) ==> rest.contains(':'),
        forall|u: Seq<char>, v: Seq<char>| (rest =~= #[trigger] (u + seq![':'] + v) && !u.contains(':')) ==> (arg_tail(rest) <==> (is_name(u) && v =~= seq![')'])),
{
    if arg_tail(rest) {
        let c = choose|c: Seq<char>| is_name(c) && rest =~= #[trigger] (c + colon_rparen());
        assert(rest[c.len() as int] == ':');
    }
    assert forall|u: Seq<char>, v: Seq<char>| (rest =~= #[trigger] (u + seq![':'] + v) && !u.contains(':')) implies (arg_tail(rest) <==> (is_name(u) && v =~= seq![')'])) by {
        if arg_tail(rest) {
            let c = choose|c: Seq<char>| is_name(c) && rest =~= #[trigger] (c + colon_rparen());
            lemma_name_has_no(c, ':');
            assert(c + colon_rparen() =~= c + seq![':'] + seq![')']);
            lemma_split_unique(c, seq![')'], u, v, ':');
        }
        if is_name(u) && v =~= seq![')'] {
            assert(u + seq![':'] + v =~= u + colon_rparen());
        }
    }
}
// Name.Name(Name:) split at the first '('
pub proof fn lemma_field_argument(s: Seq<char>)
    ensures
        form_field_argument(s) ==> s.contains('('),
        forall|x: Seq<char>, rest: Seq<char>| (s =~= #[trigger] (x + lparen() + rest) && !x.contains('(')) ==> (form_field_argument(s) <==> (form_type_attribute(x) && arg_tail(rest))),
{
    if form_field_argument(s) {
        let (a, b, c) = choose|a: Seq<char>, b: Seq<char>, c: Seq<char>| is_name(a) && is_name(b) && is_name(c) && s =~= #[trigger] (a + dot() + b + lparen() + c + colon_rparen());
        assert(s[(a + dot() + b).len() as int] == '(');
    }
    assert forall|x: Seq<char>, rest: Seq<char>| (s =~= #[trigger] (x + lparen() + rest) && !x.contains('(')) implies (form_field_argument(s) <==> (form_type_attribute(x) && arg_tail(rest))) by {
        if form_field_argument(s) {
            let (a, b, c) = choose|a: Seq<char>, b: Seq<char>, c: Seq<char>| is_name(a) && is_name(b) && is_name(c) && s =~= #[trigger] (a + dot() + b + lparen() + c + colon_rparen());
            let ab = a + dot() + b;
            lemma_name_has_no(a, '('); lemma_name_has_no(b, '(');
            assert(!ab.contains('(')) by {
                if ab.contains('(') {
                    let i = choose|i: int| 0 <= i < ab.len() && ab[i] == '(';
                    if i < a.len() { assert(a[i] == '('); assert(a.contains('(')); }
                    else if i == a.len() { }
                    else { assert(b[i - a.len() - 1] == '('); assert(b.contains('(')); }
                }
            }
            assert(s =~= ab + lparen() + (c + colon_rparen()));
            lemma_split_unique(ab, c + colon_rparen(), x, rest, '(');
            assert(form_type_attribute(x)) by { assert(x =~= a + dot() + b); }
            assert(arg_tail(rest)) by { assert(rest =~= c + colon_rparen()); }
        }
        if form_type_attribute(x) && arg_tail(rest) {
            let (a, b) = choose|a: Seq<char>, b: Seq<char>| is_name(a) && is_name(b) && x =~= #[trigger] (a + dot() + b);
            let c = choose|c: Seq<char>| is_name(c) && rest =~= #[trigger] (c + colon_rparen());
            assert(s =~= a + dot() + b + lparen() + c + colon_rparen());
        }
    }
}
// @Name(Name:) split at the first '('
pub proof fn lemma_directive_argument(s: Seq<char>)
    ensures
        form_directive_argument(s) ==> s.contains('('),
        forall|x: Seq<char>, rest: Seq<char>| (s =~= #[trigger] (x + lparen() + rest) && !x.contains('(')) ==> (form_directive_argument(s) <==> (form_directive(x) && arg_tail(rest))),
{
    if form_directive_argument(s) {
        let (a, b) = choose|a: Seq<char>, b: Seq<char>| is_name(a) && is_name(b) && s =~= #[trigger] (at() + a + lparen() + b + colon_rparen());
        assert(s[(at() + a).len() as int] == '(');
    }
    assert forall|x: Seq<char>, rest: Seq<char>| (s =~= #[trigger] (x + lparen() + rest) && !x.contains('(')) implies (form_directive_argument(s) <==> (form_directive(x) && arg_tail(rest))) by {
        if form_directive_argument(s) {
            let (a, b) = choose|a: Seq<char>, b: Seq<char>| is_name(a) && is_name(b) && s =~= #[trigger] (at() + a + lparen() + b + colon_rparen());
            let aa = at() + a;
            lemma_name_has_no(a, '(');
            assert(!aa.contains('(')) by {
                if aa.contains('(') {
                    let i = choose|i: int| 0 <= i < aa.len() && aa[i] == '(';
                    if i >= 1 { assert(a[i - 1] == '('); assert(a.contains('(')); }
                }
            }
            assert(s =~= aa + lparen() + (b + colon_rparen()));
            lemma_split_unique(aa, b + colon_rparen(), x, rest, '(');
            assert(form_directive(x)) by { assert(x =~= at() + a); }
            assert(arg_tail(rest)) by { assert(rest =~= b + colon_rparen()); }
        }
        if form_directive(x) && arg_tail(rest) {
            let a = choose|a: Seq<char>| is_name(a) && x =~= #[trigger] (at() + a);
            let b = choose|b: Seq<char>| is_name(b) && rest =~= #[trigger] (b + colon_rparen());
            assert(s =~= at() + a + lparen() + b + colon_rparen());
        }
    }
}

// ---------------- shims (trusted) ----------------
pub struct Name { pub text: Ghost<Seq<char>> }
pub type NamedType = Name;
pub struct InvalidNameError { pub x: u8 }
impl Name {
    // contract proved for the real Name::new in unit `name` (bytes); TryFrom<&str> forwards to Name::new
    #[verifier::external_body]
    pub fn try_from(value: &str) -> (r: Result<Name, InvalidNameError>)
        ensures r is Ok <==> is_name(value@), r is Ok ==> r->Ok_0.text@ == value@
    { unimplemented!() }
}
pub enum SchemaCoordinateParseError { InvalidFormat, InvalidName(InvalidNameError) }
impl From<InvalidNameError> for SchemaCoordinateParseError {
    fn from(e: InvalidNameError) -> (r: Self) { SchemaCoordinateParseError::InvalidName(e) }
}
impl vstd::std_specs::convert::FromSpecImpl<InvalidNameError> for SchemaCoordinateParseError {
    open spec fn obeys_from_spec() -> bool { true }
    open spec fn from_spec(v: InvalidNameError) -> Self { SchemaCoordinateParseError::InvalidName(v) }
}

// &str values with the same characters are equal (what a string-literal pattern compares) -- assumed axiom
#[verifier::external_body]
pub proof fn axiom_str_ext() ensures forall|a: &str, b: &str| #![trigger a@, b@] a@ =~= b@ ==> a == b { }

// str::split_once(char): splits at the FIRST occurrence (std documentation) -- assumed
#[verifier::external_body]
pub fn split_once_char<'a>(s: &'a str, c: char) -> (r: Option<(&'a str, &'a str)>)
    ensures
        r is None <==> !s@.contains(c),
        r is Some ==> ({ let p = r->0; s@ =~= p.0@ + seq![c] + p.1@ && !p.0@.contains(c) }),
{ unimplemented!() }
// str::strip_prefix(char) -- assumed
#[verifier::external_body]
pub fn strip_prefix_char<'a>(s: &'a str, c: char) -> (r: Option<&'a str>)
    ensures
        r is None <==> !(s@.len() > 0 && s@[0] == c),
        r is Some ==> s@ =~= seq![c] + r->0@,
{ unimplemented!() }
'''

DISPATCH = r'''
// ---------------- SchemaCoordinate::from_str: dispatch over the five forms ----------------
pub assume_specification<T, E, F2, O: FnOnce(E) -> Result<T, F2>>[Result::<T, E>::or_else](s: Result<T, E>, op: O) -> (r: Result<T, F2>)
    requires s is Err ==> op.requires((s->Err_0,))
    ensures match s { Ok(v) => r == Ok::<T, F2>(v), Err(e) => op.ensures((e,), r) };
#[verifier::external_body]
pub fn str_starts_with_char(s: &str, c: char) -> (r: bool) ensures r == (s@.len() > 0 && s@[0] == c) { unimplemented!() }
/// what the components of a parsed coordinate say about the text (the `components` clauses of the five from_str contracts)
pub open spec fn components(c: SchemaCoordinate, s: Seq<char>) -> bool {
    match c {
        SchemaCoordinate::Type(c) => @TYPE@,
        SchemaCoordinate::TypeAttribute(c) => @TYPE_ATTRIBUTE@,
        SchemaCoordinate::FieldArgument(c) => @FIELD_ARGUMENT@,
        SchemaCoordinate::Directive(c) => @DIRECTIVE@,
        SchemaCoordinate::DirectiveArgument(c) => @DIRECTIVE_ARGUMENT@,
    }
}
pub open spec fn parsed_Type(o: Result<SchemaCoordinate, SchemaCoordinateParseError>, s: Seq<char>) -> bool { (o is Ok <==> form_type(s)) && (o is Ok ==> o->Ok_0 is Type && components(o->Ok_0, s)) }
pub open spec fn parsed_TypeAttribute(o: Result<SchemaCoordinate, SchemaCoordinateParseError>, s: Seq<char>) -> bool { (o is Ok <==> form_type_attribute(s)) && (o is Ok ==> o->Ok_0 is TypeAttribute && components(o->Ok_0, s)) }
pub open spec fn parsed_Directive(o: Result<SchemaCoordinate, SchemaCoordinateParseError>, s: Seq<char>) -> bool { (o is Ok <==> form_directive(s)) && (o is Ok ==> o->Ok_0 is Directive && components(o->Ok_0, s)) }
/// `@`-forms start with `@`, the others with a NameStart character
pub proof fn lemma_at_dispatch(s: Seq<char>)
    ensures (form_directive(s) || form_directive_argument(s)) ==> s.len() > 0 && s[0] == '@',
            (form_type(s) || form_type_attribute(s) || form_field_argument(s)) ==> s.len() > 0 && s[0] != '@'
{
    if form_directive(s) { let a = choose|a: Seq<char>| is_name(a) && s =~= #[trigger] (at() + a); assert(s[0] == at()[0]); }
    if form_directive_argument(s) { let (a, b) = choose|a: Seq<char>, b: Seq<char>| is_name(a) && is_name(b) && s =~= #[trigger] (at() + a + lparen() + b + colon_rparen()); assert(s[0] == at()[0]); }
    if form_type_attribute(s) { let (a, b) = choose|a: Seq<char>, b: Seq<char>| is_name(a) && is_name(b) && s =~= #[trigger] (a + dot() + b); assert(s[0] == a[0]); }
    if form_field_argument(s) { let (a, b, c) = choose|a: Seq<char>, b: Seq<char>, c: Seq<char>| is_name(a) && is_name(b) && is_name(c) && s =~= #[trigger] (a + dot() + b + lparen() + c + colon_rparen()); assert(s[0] == a[0]); }
}
'''


COMP = {
    "TypeCoordinate": "r is Ok ==> r->Ok_0.ty.text@ =~= input@",
    "TypeAttributeCoordinate": "r is Ok ==> is_name(r->Ok_0.ty.text@) && is_name(r->Ok_0.attribute.text@) && input@ =~= r->Ok_0.ty.text@ + dot() + r->Ok_0.attribute.text@",
    "DirectiveCoordinate": "r is Ok ==> is_name(r->Ok_0.directive.text@) && input@ =~= at() + r->Ok_0.directive.text@",
    "FieldArgumentCoordinate": "r is Ok ==> is_name(r->Ok_0.ty.text@) && is_name(r->Ok_0.field.text@) && is_name(r->Ok_0.argument.text@) && input@ =~= r->Ok_0.ty.text@ + dot() + r->Ok_0.field.text@ + lparen() + r->Ok_0.argument.text@ + colon_rparen()",
    "DirectiveArgumentCoordinate": "r is Ok ==> is_name(r->Ok_0.directive.text@) && is_name(r->Ok_0.argument.text@) && input@ =~= at() + r->Ok_0.directive.text@ + lparen() + r->Ok_0.argument.text@ + colon_rparen()",
}


def _as_spec(clause):
    assert clause.startswith("r is Ok ==> ")
    return clause[len("r is Ok ==> "):].replace("r->Ok_0", "c").replace("input@", "s")


DISPATCH_TEXT = (DISPATCH.replace("@TYPE@", _as_spec(COMP["TypeCoordinate"])).replace("@TYPE_ATTRIBUTE@", _as_spec(COMP["TypeAttributeCoordinate"]))
                 .replace("@FIELD_ARGUMENT@", _as_spec(COMP["FieldArgumentCoordinate"])).replace("@DIRECTIVE@", _as_spec(COMP["DirectiveCoordinate"]))
                 .replace("@DIRECTIVE_ARGUMENT@", _as_spec(COMP["DirectiveArgumentCoordinate"])))


def S(name):
    return dict(file=CO, kind="struct", name=name, props=["C23"])


def F(ty, clauses, hints=None, rewrites=None):
    return dict(file=CO, kind="fn", name="from_str", container="FromStr for %s" % ty, container_name=ty, wrap="impl %s" % ty,
                clauses=clauses, hints=hints or [], props=["C23"],
                rewrites=[("Self::Err", "SchemaCoordinateParseError", 1)] + (rewrites or []))


UNIT = {
    "name": "coordinate",
    "properties": ["C23"],
    "parts": [
        PRELUDE,
        S("TypeCoordinate"), S("TypeAttributeCoordinate"), S("FieldArgumentCoordinate"), S("DirectiveCoordinate"), S("DirectiveArgumentCoordinate"),
        F("TypeCoordinate", [
            ("ensures", "ok_iff_form", "r is Ok <==> form_type(input@)"),
            ("ensures", "components", COMP["TypeCoordinate"]),
        ]),
        F("TypeAttributeCoordinate", [
            ("ensures", "ok_iff_form", "r is Ok <==> form_type_attribute(input@)"),
            ("ensures", "components", COMP["TypeAttributeCoordinate"]),
        ], rewrites=[("input.split_once('.')", "split_once_char(input, '.')", 1)],
           hints=[("body_start", None, "proof { lemma_type_attribute(input@); }")]),
        F("DirectiveCoordinate", [
            ("ensures", "ok_iff_form", "r is Ok <==> form_directive(input@)"),
            ("ensures", "components", COMP["DirectiveCoordinate"]),
        ], rewrites=[("input.strip_prefix('@')", "strip_prefix_char(input, '@')", 1)],
           hints=[("body_start", None, "proof { lemma_directive(input@); }")]),
    
        F("FieldArgumentCoordinate", [
            ("ensures", "ok_iff_form", "r is Ok <==> form_field_argument(input@)"),
            ("ensures", "components", COMP["FieldArgumentCoordinate"]),
        ], rewrites=[("input.split_once('(')", "split_once_char(input, '(')", 1), ("rest.split_once(':')", "split_once_char(rest, ':')", 1)],
           hints=[("body_start", None, "proof { lemma_field_argument(input@); reveal_strlit(\")\"); axiom_str_ext(); assert(\")\"@ =~= seq![')']); }"),
                  ("before", "let field = TypeAttributeCoordinate::from_str(field)?;", "proof { lemma_arg_tail(rest@); }")]),
        F("DirectiveArgumentCoordinate", [
            ("ensures", "ok_iff_form", "r is Ok <==> form_directive_argument(input@)"),
            ("ensures", "components", COMP["DirectiveArgumentCoordinate"]),
        ], rewrites=[("input.split_once('(')", "split_once_char(input, '(')", 1), ("rest.split_once(':')", "split_once_char(rest, ':')", 1)],
           hints=[("body_start", None, "proof { lemma_directive_argument(input@); reveal_strlit(\")\"); axiom_str_ext(); assert(\")\"@ =~= seq![')']); }"),
                  ("before", "let directive = DirectiveCoordinate::from_str(directive)?;", "proof { lemma_arg_tail(rest@); }")]),
        dict(file=CO, kind="enum", name="SchemaCoordinate", props=["C23"]),
        DISPATCH_TEXT,
        F("SchemaCoordinate", [
            ("ensures", "ok_iff_one_of_the_five_forms", "r is Ok <==> (form_type(input@) || form_type_attribute(input@) || form_field_argument(input@) || form_directive(input@) || form_directive_argument(input@))"),
            ("ensures", "the_variant_has_that_form_and_those_components",
             "r is Ok ==> components(r->Ok_0, input@) && match r->Ok_0 { SchemaCoordinate::Type(_) => form_type(input@), SchemaCoordinate::TypeAttribute(_) => form_type_attribute(input@), "
             "SchemaCoordinate::FieldArgument(_) => form_field_argument(input@), SchemaCoordinate::Directive(_) => form_directive(input@), SchemaCoordinate::DirectiveArgument(_) => form_directive_argument(input@) }"),
        ], rewrites=[("Result<Self, ", "Result<SchemaCoordinate, ", 1),
                     ("input.starts_with('@')", "str_starts_with_char(input, '@')", 1),
                     (r"\.or_else\(\|_unused\| (\w+)Coordinate::from_str\(input\)\.map\(Self::(\w+)\)\)",
                      r".or_else(|_unused: SchemaCoordinateParseError| -> (o: Result<SchemaCoordinate, SchemaCoordinateParseError>) ensures parsed_\2(o, input@) { \1Coordinate::from_str(input).map(|v: \1Coordinate| -> (o2: SchemaCoordinate) ensures o2 == SchemaCoordinate::\2(v) { SchemaCoordinate::\2(v) }) })", None, "re"),
                     (r"\.map\(Self::(\w+)\)", r".map(|v: \1Coordinate| -> (o2: SchemaCoordinate) ensures o2 == SchemaCoordinate::\1(v) { SchemaCoordinate::\1(v) })", None, "re")],
           hints=[("body_start", None, "proof { lemma_at_dispatch(input@); }")]),
    ],
}
