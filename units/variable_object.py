"""Unit `variable_object` -- C28, a SECOND PASS over `coerce_variable_value` (resolvers/input_coercion.rs) for the INPUT-OBJECT case, which unit
`variable_value` cuts out: "input-object defaults filled in, unknown input fields rejected".

Extracted verbatim: coerce_variable_value (with unit variable_value's prelude); the list arm is again replaced by the opaque `coerce_items`.
Specification (https://spec.graphql.org/October2021/#sec-Input-Objects.Input-Coercion): a value that is not a JSON object is an error; a key that is not a field
of the input-object type is an error; then, per field of the type in order: a provided value (also null) is replaced by its coercion to the field's type
(a failure is an error); otherwise the field's default value is inserted if it has one; otherwise a non-null field type is an error; otherwise no entry.
Listed rewrites (beyond those of unit variable_value):
  * the RECURSIVE call `coerce_variable_value(..)` inside the input-object arm -> `coerce_nested(..)`: it enters as the same function-of-its-arguments
    `variable_coerced` that unit `variables` uses for the top-level call (the function is pure);
  * `object.keys().find(|key| !ty_def.fields.contains_key(key.as_str()))` -> `first_unknown_key(object, &ty_def.fields)` (Some iff there is such a key);
  * `for (field_name, field_def) in &ty_def.fields {` -> an index loop over the entries in order;
  * `if let Some(field_value) = object.get_mut(K) { *field_value = CALL?` -> `if let Some(field_value) = object.get(K) { let __nv = CALL?; object.insert(K, __nv);`
    (serde_json: `insert` under an existing key replaces the value in place -- what assigning through `get_mut` does);
  * `object.into()` -> `JsonValue::Object(object)` (serde_json's `From<Map>`).
Shims (trusted): serde_json's Map as entries with uninterpreted `entries_has` / `entries_at` / `map_insert` (get / insert / clone speak only through them).
Termination of the recursion is not checked.
"""
import importlib.util
import os
_here = os.path.dirname(os.path.abspath(__file__))
_spec = importlib.util.spec_from_file_location("variable_value_unit", os.path.join(_here, "variable_value.py"))
VV = importlib.util.module_from_spec(_spec)
_spec.loader.exec_module(VV)

IC = VV.IC
_p = VV.PRELUDE
def _rep(a, b):
    global _p
    assert _p.count(a) == 1, a[:60]
    _p = _p.replace(a, b)

_rep("pub struct JsonMap { pub x: u64 }", r'''pub type Entries = Seq<(Seq<char>, JsonValue)>;
pub uninterp spec fn entries_has(e: Entries, k: Seq<char>) -> bool;
pub uninterp spec fn entries_at(e: Entries, k: Seq<char>) -> JsonValue;
/// serde_json::Map::insert on the entries in order (replace the value of an existing key in place, else append): uninterpreted
pub uninterp spec fn map_insert(e: Entries, k: Seq<char>, v: JsonValue) -> Entries;
#[verifier::external_body]
pub struct JsonMap { x: u8 }
impl JsonMap {
    pub uninterp spec fn view(&self) -> Entries;
    #[verifier::external_body]
    pub fn get(&self, k: &str) -> (r: Option<&JsonValue>) ensures match r { Some(v) => entries_has(self@, k@) && *v == entries_at(self@, k@), None => !entries_has(self@, k@) } { unimplemented!() }
    #[verifier::external_body]
    pub fn insert(&mut self, k: &str, v: JsonValue) -> (r: Option<JsonValue>) ensures final(self)@ == map_insert(old(self)@, k@, v) { unimplemented!() }
}
impl Clone for JsonMap {
    #[verifier::external_body]
    fn clone(&self) -> (r: Self) ensures r@ == self@ { unimplemented!() }
}''')
_rep("pub struct InputObjectType { pub x: u64 }", r'''pub enum Value { Null, Other(u64) }
pub struct InputValueDefinition { pub ty: Node<Type>, pub default_value: Option<Node<Value>> }
#[verifier::external_body]
pub struct FieldMap { x: u8 }
impl FieldMap {
    /// the fields in order
    pub uninterp spec fn view(&self) -> Seq<(Name, Node<InputValueDefinition>)>;
    #[verifier::external_body]
    pub fn len(&self) -> (r: usize) ensures r == self@.len() { unimplemented!() }
    #[verifier::external_body]
    pub fn get_index(&self, i: usize) -> (r: (&Name, &Node<InputValueDefinition>)) requires i < self@.len() ensures *r.0 == self@[i as int].0, *r.1 == self@[i as int].1 { unimplemented!() }
}
pub struct InputObjectType { pub fields: FieldMap }
/// some key of the object is not a field of the type
pub uninterp spec fn has_unknown_key(e: Entries, fields: Seq<(Name, Node<InputValueDefinition>)>) -> bool;
#[verifier::external_body]
pub fn first_unknown_key<'m>(object: &'m JsonMap, fields: &FieldMap) -> (r: Option<&'m String>) ensures r is Some <==> has_unknown_key(object@, fields@) { unimplemented!() }
impl JsonValue {
    pub fn as_object(&self) -> (r: Option<&JsonMap>) ensures match r { Some(m) => *self matches JsonValue::Object(o) && *m == o, None => !(*self is Object) }
    { match self { JsonValue::Object(m) => Some(m), _ => None } }
}
#[verifier::external_body]
pub fn fmt_args_opaque() -> FmtArgs { unimplemented!() }
/// the function itself, as a function of its arguments (it is pure): the recursive calls
pub uninterp spec fn variable_coerced(schema: &Schema, ty: Type, value: JsonValue) -> Coerced;
#[verifier::external_body]
pub fn coerce_nested(schema: &Valid<Schema>, description: &FmtArgs, ty: &Type, value: &JsonValue) -> (r: Coerced) ensures r == variable_coerced(&schema.0, *ty, *value) { unimplemented!() }
pub uninterp spec fn default_as_json(value: Value) -> Coerced;
#[verifier::external_body]
pub fn graphql_value_to_json(description: &FmtArgs, value: &Node<Value>) -> (r: Coerced) ensures r == default_as_json(*value.0) { unimplemented!() }
/// Input Objects, Input Coercion: the fields of the type in order, over the entries so far
pub open spec fn fields_outcome(schema: &Schema, fields: Seq<(Name, Node<InputValueDefinition>)>, i: int, cur: Entries) -> Option<Entries> decreases fields.len() - i {
    if i < 0 || i >= fields.len() { Some(cur) }
    else {
        let k = fields[i].0.text@; let d = *fields[i].1.0;
        if entries_has(cur, k) {
            match variable_coerced(schema, *d.ty.0, entries_at(cur, k)) { Ok(v) => fields_outcome(schema, fields, i + 1, map_insert(cur, k, v)), Err(_) => None }
        } else { match d.default_value {
            Some(dv) => match default_as_json(*dv.0) { Ok(v) => fields_outcome(schema, fields, i + 1, map_insert(cur, k, v)), Err(_) => None },
            None => if non_null(*d.ty.0) { None } else { fields_outcome(schema, fields, i + 1, cur) },
        } }
    }
}
pub open spec fn object_outcome(schema: &Schema, ty: Type, v: JsonValue, r: Coerced) -> bool {
    match (named(ty), v) {
        (Some(n), JsonValue::Object(m)) => schema.types@.dom().contains(n) ==> match schema.types@[n] {
            ExtendedType::InputObject(d) => if has_unknown_key(m@, d.0.fields@) { r is Err } else { match fields_outcome(schema, d.0.fields@, 0, m@) {
                Some(e) => r matches Ok(JsonValue::Object(m2)) && m2@ == e, None => r is Err } },
            _ => true },
        (Some(n), _) => !(v is Null) && schema.types@.dom().contains(n) && schema.types@[n] is InputObject ==> r is Err,
        _ => true,
    }
}''')
PRELUDE = _p
assert "ExtendedType::InputObject(_) => true," in PRELUDE

_vv = [p for p in VV.UNIT["parts"] if isinstance(p, dict) and p.get("name") == "coerce_variable_value"][0]
_rw = [r for r in _vv["rewrites"] if "coerce_input_object" not in str(r[1])]
assert len(_rw) == len(_vv["rewrites"]) - 1
FMTA = (r'format_args!\((?:[^()]|\([^()]*\))*\)', "fmt_args_opaque()", None, "re")
ARM = [
    (r"(?s)(ExtendedType::InputObject\(ty_def\) => \{.*?)coerce_variable_value\(", r"\1coerce_nested(", None, "re"),
    (r"object\s*\.keys\(\)\s*\.find\(\|key\| !ty_def\.fields\.contains_key\(key\.as_str\(\)\)\)", "first_unknown_key(object, &ty_def.fields)", 1, "re"),
    ("for (field_name, field_def) in &ty_def.fields {", "let mut __f: usize = 0; while __f < ty_def.fields.len() { let (field_name, field_def) = ty_def.fields.get_index(__f); __f += 1;", 1),
    (r"if let Some\(field_value\) = object\.get_mut\(([^()]*\(\))\) \{\s*\*field_value =\s*(coerce_nested\((?:[^()]|\([^()]*\))*\))\?;?",
     r"if let Some(field_value) = object.get(\1) { let __nv = \2?; object.insert(\1, __nv);", 1, "re"),
    ("object.into()", "JsonValue::Object(object)", 1),
    (r"key\.as_str\(\)\n", "key\n", "*", "re"),
]
G = "match (named(*ty), *value) { (Some(n), JsonValue::Object(m)) if schema.0.types@.dom().contains(n) => match schema.0.types@[n] { ExtendedType::InputObject(d) => Some((d, m)), _ => None }, _ => None }"

UNIT = {
    "name": "variable_object",
    "properties": ["C28"],
    "parts": [
        PRELUDE,
        dict(file=VV.AST, kind="enum", name="Type", props=["C28"]),
        dict(file="crates/apollo-compiler/src/ast/impls.rs", kind="fn", name="is_non_null", container="Type", container_name="Type", wrap="impl Type", props=["C28"],
             clauses=[("ensures", "NonNull", "r == non_null(*self)")]),
        dict(file=IC, kind="enum", name="InputCoercionError", props=["C28"]),
        dict(file=IC, kind="fn", name="coerce_variable_value", props=["C28"], no_decreases=True, loops_see_context=True,
             rewrites=[r for r in _rw if "Arguments" in str(r[0])] + ARM[:1] + [r for r in _rw if "Arguments" not in str(r[0]) and r is not VV.FMT] + ARM[1:] + [VV.FMT, FMTA],
             clauses=[("ensures", "InputObjectCoercion", "object_outcome(&schema.0, *ty, *value, r)")],
             loops=[dict(when="__f < ty_def.fields.len()",
                         invariant=[("bounds", "__f <= ty_def.0.fields@.len()"),
                                    ("fields_so_far", "fields_outcome(&schema.0, ty_def.0.fields@, __f as int, object@) == fields_outcome(&schema.0, ty_def.0.fields@, 0, value->Object_0@)")],
                         decreases="ty_def.0.fields@.len() - __f")],
             hints=[("body_start", None, 'proof { axiom_str_ext(); reveal_strlit("Int"); reveal_strlit("Float"); reveal_strlit("String"); reveal_strlit("Boolean"); reveal_strlit("ID"); }')]),
    ],
}
