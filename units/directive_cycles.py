"""Unit `directive_cycles` -- C21, KERNEL: the search for self-referential directive definitions (validation/directive.rs,
`FindRecursiveDirective::{type_definition, input_value, enum_value, directives, directive, directive_definition, check}`): for every schema it never pushes a
directive name or a type name that is already on the respective path (RecursionGuard::push's debug_assert; see unit input_cycles), and both paths are
the same after each call.

Extracted verbatim: the seven functions; enum ast::Type and Type::inner_named_type (contract of unit `types`).  RecursionGuard / RecursionStack: the MODEL of
unit input_cycles (shared text).
NOT proved: termination of the seven-fold mutual recursion (exec_allows_no_decreases_clause).  It is not a plain "path grows" argument: for a built-in type the
type path is NOT extended (`if !type_def.is_built_in() { push } else { recurse with the same guards }`), so it leans on what built-in types look like.
Also not decided: that a cycle is reported exactly when there is one.
Listed rewrites: the five `for x in ..` loops -> the index loops they desugar to; `directive_guard.first() == Some(&directive.name)` -> `first_is(..)`;
`.map_err(|error| error.trace(directive))` gets its types spelled out; `schema::Component<ast::Directive>` is modelled as `Node<Directive>` (a Component derefs to its Node).
"""
import importlib.util as _ilu
import os as _os
import input_cycles as IC
_spec = _ilu.spec_from_file_location("verif_unit_types", _os.path.join(_os.path.dirname(_os.path.abspath(__file__)), "types.py"))
TY = _ilu.module_from_spec(_spec)
_spec.loader.exec_module(TY)
_a = TY.PRELUDE.index("// ---------------- specification (from the spec text) ----------------")
_b = TY.PRELUDE.index("// https://spec.graphql.org/October2021/#AreTypesCompatible()")
TYPE_SPEC = TY.PRELUDE[_a:_b]

DR = "crates/apollo-compiler/src/validation/directive.rs"
_a = IC.PRELUDE.index("pub struct RecursionLimitError {}")
_b = IC.PRELUDE.index("// ---------------- specification: Circular References")
GUARD_MODEL = IC.PRELUDE[_a:_b]

PRELUDE = TYPE_SPEC + r'''
// ---------------- shims (trusted) ----------------
#[derive(PartialEq, Eq, Structural)]
pub struct Name { pub id: u64 }
impl Clone for Name { fn clone(&self) -> (r: Self) ensures r == *self { Name { id: self.id } } }
pub type NamedType = Name;
pub struct Node<T>(pub Box<T>);
impl<T> core::ops::Deref for Node<T> {
    type Target = T;
    fn deref(&self) -> (r: &T) ensures *r == *self.0 { &*self.0 }
}
impl<T> Clone for Node<T> {
    #[verifier::external_body]
    fn clone(&self) -> (r: Self) ensures r == *self { unimplemented!() }
}
pub struct Directive { pub name: Name }
pub struct EnumValueDefinition { pub directives: Vec<Node<Directive>> }
pub struct InputValueDefinition { pub directives: Vec<Node<Directive>>, pub ty: Node<Type> }
pub struct DirectiveDefinition { pub name: Name, pub arguments: Vec<Node<InputValueDefinition>> }
pub mod ast { pub use super::{Type, Directive, EnumValueDefinition, InputValueDefinition, DirectiveDefinition}; }
#[verifier::external_body]
#[verifier::reject_recursive_types(T)]
pub struct ValuesMap<T> { t: core::marker::PhantomData<T> }
impl<T> ValuesMap<T> {
    pub uninterp spec fn values_seq(&self) -> Seq<Node<T>>;
    #[verifier::external_body]
    pub fn len(&self) -> (r: usize) ensures r == self.values_seq().len() { unimplemented!() }
    #[verifier::external_body]
    pub fn value_at(&self, i: usize) -> (r: &Node<T>) requires i < self.values_seq().len() ensures *r == self.values_seq()[i as int] { unimplemented!() }
}
pub struct PlainType { pub name: Name, pub directives: Vec<Node<Directive>> }
pub struct EnumType { pub name: Name, pub directives: Vec<Node<Directive>>, pub values: ValuesMap<EnumValueDefinition> }
pub struct InputObjectType { pub name: Name, pub directives: Vec<Node<Directive>>, pub fields: ValuesMap<InputValueDefinition> }
pub enum ExtendedType { Scalar(Node<PlainType>), Object(Node<PlainType>), Interface(Node<PlainType>), Union(Node<PlainType>), Enum(Node<EnumType>), InputObject(Node<InputObjectType>) }
impl ExtendedType {
    pub uninterp spec fn spec_name(&self) -> Name;
    #[verifier::external_body]
    pub fn name(&self) -> (r: &Name) ensures *r == self.spec_name() { unimplemented!() }
    #[verifier::external_body]
    pub fn is_built_in(&self) -> bool { unimplemented!() }
}
#[verifier::external_body]
pub struct TypeMap { x: u8 }
impl TypeMap {
    #[verifier::external_body]
    pub fn get(&self, k: &Name) -> (r: Option<&ExtendedType>) { unimplemented!() }
}
#[verifier::external_body]
pub struct DirMap { x: u8 }
impl DirMap {
    #[verifier::external_body]
    pub fn get(&self, k: &Name) -> (r: Option<&Node<DirectiveDefinition>>) { unimplemented!() }
}
pub struct SchemaShim { pub types: TypeMap, pub directive_definitions: DirMap }
pub mod schema {
    pub use super::ExtendedType;
    pub type Schema = super::SchemaShim;
    pub type Component<T> = super::Node<T>;
}
''' + GUARD_MODEL + r'''
impl RecursionStack {
    // RecursionStack::new: nothing on the path, limit = DEFAULT_RECURSION_LIMIT = 32
    #[verifier::external_body]
    pub fn new() -> (r: Self) ensures r.path@ == Seq::<Name>::empty(), r.limit@ == 32 { unimplemented!() }
}
pub struct FindRecursiveDirective<'s> { pub schema: &'s schema::Schema }
pub open spec fn ok(g: &RecursionGuard<'_>) -> bool { g.path@.len() <= g.limit@ + 1 }
'''

W = "impl FindRecursiveDirective<'_>"
REQ = ("requires", "guards", "true")
ENS = ("ensures", "paths_restored", "final(directive_guard).path@ == old(directive_guard).path@ && final(directive_guard).limit@ == old(directive_guard).limit@ && "
       "final(type_guard).path@ == old(type_guard).path@ && final(type_guard).limit@ == old(type_guard).limit@")
INV = ("paths_kept", "directive_guard.path@ == old(directive_guard).path@ && directive_guard.limit@ == old(directive_guard).limit@ && type_guard.path@ == old(type_guard).path@ && type_guard.limit@ == old(type_guard).limit@")
MAPERR = (".map_err(|error| error.trace(directive))", ".map_err(|error: CycleError<ast::Directive>| -> (r: CycleError<ast::Directive>) { error.trace(directive) })", "*")


def F(name, n_loops=0, rewrites=None, loops=None):
    return dict(file=DR, kind="fn", name=name, container="FindRecursiveDirective<'_>", container_name="FindRecursiveDirective", wrap=W, props=["C21"],
                n_loops=n_loops, no_decreases=True, rewrites=rewrites or [], clauses=[ENS], loops=loops or [])


def L(bound):
    return dict(invariant=[("bounds", "__i <= %s" % bound), INV], decreases="%s - __i" % bound)


UNIT = {
    "name": "directive_cycles",
    "properties": ["C21"],
    "parts": [
        PRELUDE,
        dict(file="crates/apollo-compiler/src/ast/mod.rs", kind="enum", name="Type", props=["C21"]),
    ] + [dict(p, props=["C21"]) for p in TY.UNIT["parts"] if isinstance(p, dict) and p.get("container_name") == "Type" and p.get("name") == "inner_named_type"] + [
        F("type_definition", 2,
          rewrites=[("for enum_value in enum_type_definition.values.values() {", "let mut __i: usize = 0; while __i < enum_type_definition.values.len() { let enum_value = enum_type_definition.values.value_at(__i); __i += 1;", 1),
                    ("for input_value in input_type_definition.fields.values() {", "let mut __i: usize = 0; while __i < input_type_definition.fields.len() { let input_value = input_type_definition.fields.value_at(__i); __i += 1;", 1)],
          loops=[L("enum_type_definition.0.values.values_seq().len()"), L("input_type_definition.0.fields.values_seq().len()")]),
        F("input_value", 1,
          rewrites=[("for directive in &input_value.directives {", "let mut __i: usize = 0; while __i < input_value.directives.len() { let directive = &input_value.directives[__i]; __i += 1;", 1)],
          loops=[L("input_value.0.directives@.len()")]),
        F("enum_value", 1,
          rewrites=[("for directive in &enum_value.directives {", "let mut __i: usize = 0; while __i < enum_value.directives.len() { let directive = &enum_value.directives[__i]; __i += 1;", 1)],
          loops=[L("enum_value.0.directives@.len()")]),
        F("directives", 1,
          rewrites=[("for directive in directives {", "let mut __i: usize = 0; while __i < directives.len() { let directive = &directives[__i]; __i += 1;", 1)],
          loops=[L("directives@.len()")]),
        F("directive", 0,
          rewrites=[("directive_guard.first() == Some(&directive.name)", "first_is(directive_guard, &directive.name)", 1), MAPERR]),
        F("directive_definition", 1,
          rewrites=[("for input_value in &def.arguments {", "let mut __i: usize = 0; while __i < def.arguments.len() { let input_value = &def.arguments[__i]; __i += 1;", 1)],
          loops=[L("def.0.arguments@.len()")]),
        dict(file=DR, kind="fn", name="check", container="FindRecursiveDirective<'_>", container_name="FindRecursiveDirective", wrap=W, props=["C21"], clauses=[]),
    ],
}
