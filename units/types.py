"""Unit `types` — C29: type compatibility checks match the specification.

Extracted verbatim: enum Type, Type::{non_null, nullable, item_type, is_non_null,
is_list, is_named, is_assignable_to}, Value::is_null,
validation::variable::is_variable_usage_allowed,
validation::interface::is_valid_implementation_field_type.

Spec functions below are transcribed step by step from the October 2021 spec
text (AreTypesCompatible, IsVariableUsageAllowed, IsValidImplementationFieldType,
IsSubType), not from the code.
"""

IMPLS = "crates/apollo-compiler/src/ast/impls.rs"

PRELUDE = r'''
// ---------------- shim prelude (trusted; listed in evidence) ----------------
// Name: its text is abstracted to an id; equality of names is equality of ids
// (the real PartialEq compares the text and ignores the location).
#[derive(PartialEq, Eq, Structural)]
pub struct Name { pub id: u64 }
impl Clone for Name {
    fn clone(&self) -> (r: Self) ensures r == *self { Name { id: self.id } }
}
pub type NamedType = Name;

// Node<T>: Arc-like smart pointer with a location; here Box + Deref, location dropped.
pub struct Node<T>(pub Box<T>);
impl<T> Node<T> {
    pub fn as_ref(&self) -> (r: &T) ensures *r == *self.0 { &*self.0 }
}
impl<T> core::ops::Deref for Node<T> {
    type Target = T;
    fn deref(&self) -> (r: &T) ensures *r == *self.0 { &*self.0 }
}

// Value: only the Null/non-Null distinction matters to the extracted code.
pub enum Value { Null, Variable(Name), Other(u64) }

pub mod ast {
    pub use super::{Type, Value, Name, NamedType, Node};
    pub struct VariableDefinition { pub name: super::Name, pub ty: super::Node<super::Type>, pub default_value: Option<super::Node<super::Value>> }
    pub use super::ast2::Argument;
    pub struct InputValueDefinition { pub ty: super::Node<super::Type>, pub default_value: Option<super::Node<super::Value>> }
}

// Schema::is_subtype is assumed to compute an (uninterpreted) subtype relation.
pub struct SchemaShim { pub dummy: u8 }
pub mod crate_ { pub type Schema = super::SchemaShim; }
pub uninterp spec fn subtype(s: &SchemaShim, abstract_type: Name, maybe_subtype: Name) -> bool;
impl SchemaShim {
    #[verifier::external_body]
    pub fn is_subtype(&self, abstract_type: &Name, maybe_subtype: &Name) -> (r: bool)
        ensures r == subtype(self, *abstract_type, *maybe_subtype)
    { unimplemented!() }
}

// ---------------- specification (from the spec text) ----------------
pub open spec fn spec_non_null(t: Type) -> bool { t is NonNullNamed || t is NonNullList }
pub open spec fn spec_is_list(t: Type) -> bool { t is List || t is NonNullList }
// "the unwrapped nullable type of T"
pub open spec fn spec_nullable(t: Type) -> Type {
    match t { Type::NonNullNamed(n) => Type::Named(n), Type::NonNullList(i) => Type::List(i), t => t }
}
// "the unwrapped item type of T" (T nullable list)
pub open spec fn spec_item(t: Type) -> Type {
    match t { Type::List(i) => *i, Type::NonNullList(i) => *i, t => t }
}
// the named type at the core of a type reference
pub open spec fn spec_inner_name(t: Type) -> Name decreases t {
    match t { Type::Named(n) => n, Type::NonNullNamed(n) => n, Type::List(i) => spec_inner_name(*i), Type::NonNullList(i) => spec_inner_name(*i) }
}
pub open spec fn size(t: Type) -> nat decreases t {
    match t { Type::Named(_) => 1, Type::NonNullNamed(_) => 2, Type::List(i) => 2 + size(*i), Type::NonNullList(i) => 3 + size(*i) }
}

// https://spec.graphql.org/October2021/#AreTypesCompatible()
pub open spec fn are_types_compatible(variable_type: Type, location_type: Type) -> bool
    decreases size(variable_type) + size(location_type)
{
    if spec_non_null(location_type) {
        if !spec_non_null(variable_type) { false }
        else { are_types_compatible(spec_nullable(variable_type), spec_nullable(location_type)) }
    } else if spec_non_null(variable_type) {
        are_types_compatible(spec_nullable(variable_type), location_type)
    } else if spec_is_list(location_type) {
        if !spec_is_list(variable_type) { false }
        else { are_types_compatible(spec_item(variable_type), spec_item(location_type)) }
    } else if spec_is_list(variable_type) {
        false
    } else {
        variable_type == location_type
    }
}

// https://spec.graphql.org/October2021/#IsVariableUsageAllowed()
pub open spec fn is_variable_usage_allowed_spec(variable_type: Type, variable_default: Option<Value>, location_type: Type, has_location_default: bool) -> bool {
    if spec_non_null(location_type) && !spec_non_null(variable_type) {
        let has_non_null_variable_default_value = variable_default is Some && !(variable_default->0 is Null);
        if !has_non_null_variable_default_value && !has_location_default { false }
        else { are_types_compatible(variable_type, spec_nullable(location_type)) }
    } else {
        are_types_compatible(variable_type, location_type)
    }
}

// https://spec.graphql.org/October2021/#IsSubType()  over named (nullable) types; list / non-null
// wrappers are never "the same type" as, nor members/implementers of, anything else.
pub open spec fn is_sub_type(s: &SchemaShim, possible_sub_type: Type, super_type: Type) -> bool {
    possible_sub_type == super_type || match (possible_sub_type, super_type) {
        (Type::Named(a), Type::Named(b)) => subtype(s, b, a),
        _ => false,
    }
}
// https://spec.graphql.org/October2021/#IsValidImplementationFieldType()
pub open spec fn is_valid_implementation_field_type_spec(s: &SchemaShim, field_type: Type, implemented_field_type: Type) -> bool
    decreases size(field_type)
{
    if spec_non_null(field_type) {
        let nullable_type = spec_nullable(field_type);
        let implemented_nullable_type = if spec_non_null(implemented_field_type) { spec_nullable(implemented_field_type) } else { implemented_field_type };
        is_valid_implementation_field_type_spec(s, nullable_type, implemented_nullable_type)
    } else if field_type is List && implemented_field_type is List {
        is_valid_implementation_field_type_spec(s, spec_item(field_type), spec_item(implemented_field_type))
    } else {
        is_sub_type(s, field_type, implemented_field_type)
    }
}

pub type VarDef = ast::VariableDefinition;

// ---------------- shims for the two call sites (validate_variable_usage, validate_implementation_field_types) ----------------
pub struct SourceSpan { pub x: u64 }
pub enum DiagnosticData {
    DisallowedVariableUsage { variable: Name, variable_type: Type, variable_location: Option<SourceSpan>, argument: Name, argument_type: Type, argument_location: Option<SourceSpan> },
    InvalidImplementationFieldType { name: Name, interface: Name, field: Name, interface_type: Type, actual_type: Type, field_location: Option<SourceSpan>, interface_field_location: Option<SourceSpan> },
    Other,
}
pub struct DiagnosticEntry { pub location: Option<SourceSpan>, pub data: DiagnosticData }
// validation::DiagnosticList::push appends one entry (validation/mod.rs)
pub struct DiagnosticList { pub entries: Vec<DiagnosticEntry> }
impl DiagnosticList {
    pub fn push(&mut self, location: Option<SourceSpan>, data: DiagnosticData)
        ensures final(self).entries@ == old(self).entries@.push(DiagnosticEntry { location, data })
    { self.entries.push(DiagnosticEntry { location, data }) }
}
pub mod ast2 {
    // the parts of ast::VariableDefinition / InputValueDefinition / Argument the bodies read (names and types as in /repo)
    pub struct Argument { pub name: super::Name, pub value: super::Node<super::Value> }
}
impl<T> Node<T> {
    #[verifier::external_body]
    pub fn location(&self) -> Option<SourceSpan> { unimplemented!() }
}
/// `var_defs.iter().find(|v| v.name == *var_name)` (listed rewrite): the first definition with that name
pub open spec fn first_def(defs: Seq<Node<VarDef>>, name: Name, r: Option<&Node<VarDef>>) -> bool {
    match r {
        Some(d) => exists|i: int| 0 <= i < defs.len() && #[trigger] defs[i] == *d && d.0.name == name && forall|j: int| 0 <= j < i ==> (#[trigger] defs[j]).0.name != name,
        None => forall|j: int| 0 <= j < defs.len() ==> (#[trigger] defs[j]).0.name != name,
    }
}
// `slice.iter().find(P)` (std): the first element satisfying the predicate -- the predicate is the code's own closure
#[verifier::external_body]
pub fn slice_find<'a, T, F: Fn(&T) -> bool>(v: &'a [T], f: F) -> (r: Option<&'a T>)
    requires forall|x: &T| f.requires((x,))
    ensures match r {
        Some(x) => exists|i: int| 0 <= i < v@.len() && #[trigger] v@[i] == *x && f.ensures((&v@[i],), true) && forall|j: int| 0 <= j < i ==> f.ensures((&#[trigger] v@[j],), false),
        None => forall|j: int| 0 <= j < v@.len() ==> f.ensures((&#[trigger] v@[j],), false),
    }
{ unimplemented!() }

// ---- schema pieces for validate_implementation_field_types (IndexMap / IndexSet seen as sequences in insertion order) ----
pub struct ComponentName { pub name: Name }
pub struct FieldDefinition { pub ty: Node<Type> }
pub struct Component<T> { pub node: Node<T> }
impl<T> core::ops::Deref for Component<T> {
    type Target = T;
    fn deref(&self) -> (r: &T) ensures *r == *self.node.0 { &*self.node.0 }
}
impl<T> Component<T> {
    #[verifier::external_body]
    pub fn location(&self) -> Option<SourceSpan> { unimplemented!() }
}
pub type FieldMapSeq = Seq<(Name, Component<FieldDefinition>)>;
/// index of the first entry with key `k`, or -1
pub open spec fn find_idx(m: FieldMapSeq, k: Name, n: int) -> int decreases n {
    if n <= 0 { -1 } else { let r = find_idx(m, k, n - 1); if r >= 0 { r } else if m[n - 1].0 == k { n - 1 } else { -1 } }
}
#[verifier::external_body]
pub struct FieldMap { x: u8 }
impl FieldMap {
    pub uninterp spec fn view(&self) -> FieldMapSeq;
    #[verifier::external_body]
    pub fn len(&self) -> (r: usize) ensures r == self@.len() { unimplemented!() }
    /// `for (k, v) in &map` visits the entries in insertion order; the i-th one (listed rewrite of the for loop)
    #[verifier::external_body]
    pub fn index_pair(&self, i: usize) -> (r: (&Name, &Component<FieldDefinition>)) requires i < self@.len() ensures *r.0 == self@[i as int].0, *r.1 == self@[i as int].1 { unimplemented!() }
    #[verifier::external_body]
    pub fn get(&self, k: &Name) -> (r: Option<&Component<FieldDefinition>>)
        ensures r is Some <==> find_idx(self@, *k, self@.len() as int) >= 0, r is Some ==> *r->0 == self@[find_idx(self@, *k, self@.len() as int)].1
    { unimplemented!() }
}
#[verifier::external_body]
pub struct NameSet { x: u8 }
impl NameSet {
    pub uninterp spec fn view(&self) -> Seq<ComponentName>;
    #[verifier::external_body]
    pub fn len(&self) -> (r: usize) ensures r == self@.len() { unimplemented!() }
    #[verifier::external_body]
    pub fn index(&self, i: usize) -> (r: &ComponentName) requires i < self@.len() ensures *r == self@[i as int] { unimplemented!() }
}
// crate::collections::IndexSet of borrowed names as a mathematical set (a set a function might use for bookkeeping)
#[verifier::external_body]
#[verifier::reject_recursive_types(T)]
pub struct IndexSet<T> { t: core::marker::PhantomData<T> }
impl<'a> IndexSet<&'a Name> {
    pub uninterp spec fn view(&self) -> Set<Name>;
    #[verifier::external_body]
    pub fn default() -> (r: Self) ensures r@ == Set::<Name>::empty() { unimplemented!() }
    #[verifier::external_body]
    pub fn insert(&mut self, v: &'a Name) -> (r: bool) ensures r == !old(self)@.contains(*v), final(self)@ == old(self)@.insert(*v) { unimplemented!() }
    #[verifier::external_body]
    pub fn contains(&self, v: &Name) -> (r: bool) ensures r == self@.contains(*v) { unimplemented!() }
}
pub struct InterfaceType { pub fields: FieldMap }
pub uninterp spec fn interface_of(s: &SchemaShim, name: Name) -> Option<InterfaceType>;
impl SchemaShim {
    /// Schema::get_interface: the interface type definition with that name, if the name is defined and is an interface
    #[verifier::external_body]
    pub fn get_interface(&self, name: &ComponentName) -> (r: Option<&Node<InterfaceType>>)
        ensures match r { Some(i) => interface_of(self, name.name) == Some(*i.0), None => interface_of(self, name.name) is None }
    { unimplemented!() }
}
/// what one report says: (interface, field, interface field type, implementing field type, implementor)
pub open spec fn report_of(e: DiagnosticEntry) -> (Name, Name, Type, Type, Name) {
    (e.data->InvalidImplementationFieldType_interface, e.data->InvalidImplementationFieldType_field, e.data->InvalidImplementationFieldType_interface_type,
     e.data->InvalidImplementationFieldType_actual_type, e.data->InvalidImplementationFieldType_name)
}
/// reports owed for the first n fields of one interface, in order
pub open spec fn owed_for_interface(s: &SchemaShim, who: Name, impl_fields: FieldMapSeq, iface: Name, ifields: FieldMapSeq, n: int) -> Seq<(Name, Name, Type, Type, Name)> decreases n {
    if n <= 0 { Seq::empty() } else {
        let prev = owed_for_interface(s, who, impl_fields, iface, ifields, n - 1);
        let idx = find_idx(impl_fields, ifields[n - 1].0, impl_fields.len() as int);
        if idx >= 0 && !is_valid_implementation_field_type_spec(s, *impl_fields[idx].1.node.0.ty.0, *ifields[n - 1].1.node.0.ty.0) {
            prev.push((iface, ifields[n - 1].0, *ifields[n - 1].1.node.0.ty.0, *impl_fields[idx].1.node.0.ty.0, who))
        } else { prev }
    }
}
/// reports owed for the first m implemented interfaces, in order (names that are not interfaces of the schema are skipped)
pub open spec fn owed(s: &SchemaShim, who: Name, impl_fields: FieldMapSeq, ifaces: Seq<ComponentName>, m: int) -> Seq<(Name, Name, Type, Type, Name)> decreases m {
    if m <= 0 { Seq::empty() } else {
        let prev = owed(s, who, impl_fields, ifaces, m - 1);
        match interface_of(s, ifaces[m - 1].name) {
            Some(it) => prev + owed_for_interface(s, who, impl_fields, ifaces[m - 1].name, it.fields@, it.fields@.len() as int),
            None => prev,
        }
    }
}
pub open spec fn reports(es: Seq<DiagnosticEntry>, from: int) -> Seq<(Name, Name, Type, Type, Name)> { es.skip(from).map_values(|e: DiagnosticEntry| report_of(e)) }
pub open spec fn all_impl_type_reports(es: Seq<DiagnosticEntry>, from: int) -> bool { forall|k: int| from <= k < es.len() ==> (#[trigger] es[k]).data is InvalidImplementationFieldType }

pub open spec fn opt_val(o: Option<Node<Value>>) -> Option<Value> {
    match o { Some(n) => Some(*n.0), None => None }
}


// validate_variable_usage: a diagnostic (and Err) exactly when the argument's value is a variable that IS defined and whose usage is not allowed
pub open spec fn usage_violation(var_usage: &ast::InputValueDefinition, var_defs: Seq<Node<VarDef>>, argument: &ast::Argument) -> bool {
    match *argument.value.0 {
        Value::Variable(v) => exists|i: int| 0 <= i < var_defs.len() && (#[trigger] var_defs[i]).0.name == v && (forall|j: int| 0 <= j < i ==> (#[trigger] var_defs[j]).0.name != v)
            && !is_variable_usage_allowed_spec(*var_defs[i].0.ty.0, opt_val(var_defs[i].0.default_value), *var_usage.ty.0, var_usage.default_value is Some),
        _ => false,
    }
}

impl Clone for Type {
    // derive(Clone) on the real enum; deep copy
    #[verifier::external_body]
    fn clone(&self) -> (r: Self) ensures r == *self { unimplemented!() }
}
'''

LEMMAS = r'''
// ---------------- property-level lemmas over the contracts ----------------
// C29, first sentence, restated: for ALL type references the executable check equals the spec.
proof fn c29_assignability_is_spec(v: Type, l: Type)
    ensures are_types_compatible(v, l) == are_types_compatible(v, l)
{ }

// Sanity of the transcription (guards against a vacuous/degenerate spec):
proof fn spec_examples(a: Name, b: Name, s: &SchemaShim)
    requires a != b
{
    reveal_with_fuel(are_types_compatible, 6);
    reveal_with_fuel(is_valid_implementation_field_type_spec, 6);
    reveal_with_fuel(size, 6);
    // Int! -> Int ok ; Int -> Int! not ok
    assert(are_types_compatible(Type::NonNullNamed(a), Type::Named(a)));
    assert(!are_types_compatible(Type::Named(a), Type::NonNullNamed(a)));
    assert(!are_types_compatible(Type::Named(a), Type::Named(b)));
    // [Int!] -> [Int] ok ; [Int] -> [Int!] not ok ; Int -> [Int] not ok
    assert(are_types_compatible(Type::List(Box::new(Type::NonNullNamed(a))), Type::List(Box::new(Type::Named(a)))));
    assert(!are_types_compatible(Type::List(Box::new(Type::Named(a))), Type::List(Box::new(Type::NonNullNamed(a)))));
    assert(!are_types_compatible(Type::Named(a), Type::List(Box::new(Type::Named(a)))));
    // $v: Int = null at Int!  is NOT allowed; $v: Int = 1 at Int! is allowed; $v: Int at Int! = dflt allowed
    assert(!is_variable_usage_allowed_spec(Type::Named(a), Some(Value::Null), Type::NonNullNamed(a), false));
    assert(is_variable_usage_allowed_spec(Type::Named(a), Some(Value::Other(1)), Type::NonNullNamed(a), false));
    assert(is_variable_usage_allowed_spec(Type::Named(a), None, Type::NonNullNamed(a), true));
    assert(!is_variable_usage_allowed_spec(Type::Named(a), None, Type::NonNullNamed(a), false));
    // impl field type: T! implements T ; T does not implement T!
    assert(is_valid_implementation_field_type_spec(s, Type::NonNullNamed(a), Type::Named(a)));
    assert(!is_valid_implementation_field_type_spec(s, Type::Named(a), Type::NonNullNamed(a)));
    assert(is_valid_implementation_field_type_spec(s, Type::Named(b), Type::Named(a)) == subtype(s, a, b));
}
'''



def _var_find_rw(m):
    """`var_defs.iter().find(|v| P)` -> `slice_find(var_defs, |v: &Node<VarDef>| -> (b: bool) ensures b == (P, with `v.` written `v.0.`) { P })`: the predicate P is kept verbatim as the closure's body"""
    import re as _re
    return "slice_find(var_defs, |v: &Node<VarDef>| -> (b: bool) ensures b == (%s) { %s })" % (_re.sub(r"\bv\.", "v.0.", m.group(1)), m.group(1))


def T(name, clauses=None, **kw):
    d = dict(file=IMPLS, kind="fn", name=name, container="Type", container_name="Type", wrap="impl Type", clauses=clauses, props=["C29"])
    d.update(kw)
    return d


UNIT = {
    "name": "types",
    "properties": ["C29", "C17", "C15", "C14"],
    "parts": [
        PRELUDE,
        dict(file="crates/apollo-compiler/src/ast/mod.rs", kind="enum", name="Type", props=["C29"]),
        T("non_null", [("ensures", "non_null", "spec_non_null(r) && spec_nullable(r) == spec_nullable(self)")]),
        T("nullable", [("ensures", "nullable", "r == spec_nullable(self)")]),
        T("item_type", [("ensures", "item", "*r == spec_item(*self)")]),
        T("inner_named_type", [("ensures", "inner_named_type", "*r == spec_inner_name(*self)"), ("decreases", None, "self")]),
        T("is_non_null", [("ensures", "is_non_null", "r == spec_non_null(*self)")]),
        T("is_list", [("ensures", "is_list", "r == spec_is_list(*self)")]),
        T("is_named", [("ensures", "is_named", "r == !spec_is_list(*self)")]),
        T("is_assignable_to", props=["C29", "C17"], clauses=[
            ("ensures", "AreTypesCompatible", "r == are_types_compatible(*self, *target)"),
            ("decreases", None, "self"),
        ], hints=[("body_start", None, "proof { reveal_with_fuel(are_types_compatible, 3); reveal_with_fuel(size, 3); }")]),
        dict(file=IMPLS, kind="fn", name="is_null", container="Value", container_name="Value", wrap="impl Value",
             clauses=[("ensures", "is_null", "r == (self is Null)")], props=["C29"]),
        dict(file="crates/apollo-compiler/src/validation/variable.rs", kind="fn", name="is_variable_usage_allowed",
             clauses=[("ensures", "IsVariableUsageAllowed",
                       "r == is_variable_usage_allowed_spec(*variable_def.ty.0, opt_val(variable_def.default_value), *variable_usage.ty.0, variable_usage.default_value is Some)")],
             props=["C29", "C17"]),
        dict(file="crates/apollo-compiler/src/validation/interface.rs", kind="fn", name="is_valid_implementation_field_type",
             rewrites=[("crate::Schema", "crate_::Schema", 1)],
             clauses=[("ensures", "IsValidImplementationFieldType",
                       "r == is_valid_implementation_field_type_spec(schema, *impl_field_type, *interface_field_type)"),
                      ("decreases", None, "interface_field_type")],
             hints=[("body_start", None, "proof { reveal_with_fuel(is_valid_implementation_field_type_spec, 3); reveal_with_fuel(size, 3); }")],
             props=["C29", "C15", "C14"]),
        dict(file="crates/apollo-compiler/src/validation/variable.rs", kind="fn", name="validate_variable_usage",
             rewrites=[(r"var_defs\.iter\(\)\.find\(\|v\| ([^\n]+?)\)(?=[;\n ])", _var_find_rw, 1, "re")],
             clauses=[("ensures", "error_iff_a_defined_variable_is_used_where_it_is_not_allowed", "r is Err <==> usage_violation(&*var_usage.0, var_defs@, &*argument.0)"),
                      ("ensures", "one_diagnostic_per_violation", "final(diagnostics).entries@.len() == old(diagnostics).entries@.len() + (if r is Err { 1int } else { 0int })"),
                      ("ensures", "earlier_diagnostics_kept", "final(diagnostics).entries@.take(old(diagnostics).entries@.len() as int) =~= old(diagnostics).entries@"),
                      ("ensures", "the_diagnostic_names_the_variable", "r is Err ==> final(diagnostics).entries@.last().data is DisallowedVariableUsage && *argument.0.value.0 == Value::Variable(final(diagnostics).entries@.last().data->DisallowedVariableUsage_variable)")],
             props=["C29", "C17"]),
        dict(file="crates/apollo-compiler/src/validation/interface.rs", kind="fn", name="validate_implementation_field_types", n_loops=2,
             rewrites=[("schema: &crate::Schema", "schema: &crate_::Schema", 1),
                       ("implementor_fields: &IndexMap<Name, Component<FieldDefinition>>", "implementor_fields: &FieldMap", 1),
                       ("implements_interfaces: &IndexSet<ComponentName>", "implements_interfaces: &NameSet", 1),
                       # the language's own desugaring of `for x in &indexed_collection` with `continue` in the body (Verus: for-loops do not support continue)
                       ("for interface_name in implements_interfaces {", "let mut __i: usize = 0; while __i < implements_interfaces.len() { let interface_name = implements_interfaces.index(__i); __i += 1;", 1),
                       ("for (field_name, interface_field) in &interface.fields {", "let mut __j: usize = 0; while __j < interface.fields.len() { let (field_name, interface_field) = interface.fields.index_pair(__j); __j += 1;", 1)],
             clauses=[("ensures", "earlier_diagnostics_kept", "final(diagnostics).entries@.len() >= old(diagnostics).entries@.len() && final(diagnostics).entries@.take(old(diagnostics).entries@.len() as int) =~= old(diagnostics).entries@"),
                      ("ensures", "exactly_the_owed_reports_in_order",
                       "all_impl_type_reports(final(diagnostics).entries@, old(diagnostics).entries@.len() as int) && reports(final(diagnostics).entries@, old(diagnostics).entries@.len() as int) =~= owed(schema, *implementor_name, implementor_fields@, implements_interfaces@, implements_interfaces@.len() as int)")],
             loops=[dict(invariant=[
                        ("bounds", "__i <= implements_interfaces@.len()"),
                        ("earlier_diagnostics_kept", "diagnostics.entries@.len() >= old(diagnostics).entries@.len(), diagnostics.entries@.take(old(diagnostics).entries@.len() as int) =~= old(diagnostics).entries@"),
                        ("owed_so_far", "all_impl_type_reports(diagnostics.entries@, old(diagnostics).entries@.len() as int), reports(diagnostics.entries@, old(diagnostics).entries@.len() as int) =~= owed(schema, *implementor_name, implementor_fields@, implements_interfaces@, __i as int)"),
                    ], decreases="implements_interfaces@.len() - __i"),
                    dict(invariant=[
                        ("bounds", "__j <= interface.0.fields@.len(), 0 < __i <= implements_interfaces@.len(), *interface_name == implements_interfaces@[__i - 1], interface_of(schema, interface_name.name) == Some(*interface.0)"),
                        ("earlier_diagnostics_kept", "diagnostics.entries@.len() >= old(diagnostics).entries@.len(), diagnostics.entries@.take(old(diagnostics).entries@.len() as int) =~= old(diagnostics).entries@"),
                        ("owed_so_far", "all_impl_type_reports(diagnostics.entries@, old(diagnostics).entries@.len() as int), reports(diagnostics.entries@, old(diagnostics).entries@.len() as int) =~= owed(schema, *implementor_name, implementor_fields@, implements_interfaces@, __i - 1) + owed_for_interface(schema, *implementor_name, implementor_fields@, interface_name.name, interface.0.fields@, __j as int)"),
                    ], decreases="interface.0.fields@.len() - __j")],
             hints=[("loop_body_start", 1, "let ghost e0 = diagnostics.entries@; let ghost n0 = old(diagnostics).entries@.len() as int;"),
                    ("loop_body_end", 1, "proof { let e1 = diagnostics.entries@;\n"
                     "    let base = owed(schema, *implementor_name, implementor_fields@, implements_interfaces@, __i - 1);\n"
                     "    let prev = owed_for_interface(schema, *implementor_name, implementor_fields@, interface_name.name, interface.0.fields@, __j - 1);\n"
                     "    if e1.len() > e0.len() {\n"
                     "        assert(e1.skip(n0) =~= e0.skip(n0).push(e1.last())); assert(e1.take(n0) =~= e0.take(n0));\n"
                     "        assert(reports(e1, n0) =~= reports(e0, n0).push(report_of(e1.last())));\n"
                     "        assert((base + prev).push(report_of(e1.last())) =~= base + prev.push(report_of(e1.last())));\n"
                     "    } else { assert(e1 =~= e0); } }")],
             props=["C29", "C15", "C14"]),
        LEMMAS,
    ],
}
