"""Unit `types` — C29: type compatibility checks match the specification.

Extracted verbatim: enum Type, Type::{non_null, nullable, item_type, is_non_null,
is_list, is_named, is_assignable_to}, Value::is_null,
validation::variable::is_variable_usage_allowed,
validation::interface::is_valid_implementation_field_type.

Spec functions below are transcribed step by step from the October 2021 spec
text (AreTypesCompatible, IsVariableUsageAllowed, IsValidImplementationFieldType,
IsSubType), not from the code.
"""

IMPLS = "crates/apollo-compiler/src/ast/impls.rs"

PRELUDE = r'''
// ---------------- shim prelude (trusted; listed in evidence) ----------------
// Name: its text is abstracted to an id; equality of names is equality of ids
// (the real PartialEq compares the text and ignores the location).
#[derive(PartialEq, Eq, Structural)]
pub struct Name { pub id: u64 }
impl Clone for Name {
    fn clone(&self) -> (r: Self) ensures r == *self { Name { id: self.id } }
}
pub type NamedType = Name;

// Node<T>: Arc-like smart pointer with a location; here Box + Deref, location dropped.
pub struct Node<T>(pub Box<T>);
impl<T> Node<T> {
    pub fn as_ref(&self) -> (r: &T) ensures *r == *self.0 { &*self.0 }
}
impl<T> core::ops::Deref for Node<T> {
    type Target = T;
    fn deref(&self) -> (r: &T) ensures *r == *self.0 { &*self.0 }
}

// Value: only the Null/non-Null distinction matters to the extracted code.
pub enum Value { Null, Other(u64) }

pub mod ast {
    pub use super::{Type, Value, Name, NamedType, Node};
    pub struct VariableDefinition { pub ty: super::Node<super::Type>, pub default_value: Option<super::Node<super::Value>> }
    pub struct InputValueDefinition { pub ty: super::Node<super::Type>, pub default_value: Option<super::Node<super::Value>> }
}

// Schema::is_subtype is assumed to compute an (uninterpreted) subtype relation.
pub struct SchemaShim { pub dummy: u8 }
pub mod crate_ { pub type Schema = super::SchemaShim; }
pub uninterp spec fn subtype(s: &SchemaShim, abstract_type: Name, maybe_subtype: Name) -> bool;
impl SchemaShim {
    #[verifier::external_body]
    pub fn is_subtype(&self, abstract_type: &Name, maybe_subtype: &Name) -> (r: bool)
        ensures r == subtype(self, *abstract_type, *maybe_subtype)
    { unimplemented!() }
}

// ---------------- specification (from the spec text) ----------------
pub open spec fn spec_non_null(t: Type) -> bool { t is NonNullNamed || t is NonNullList }
pub open spec fn spec_is_list(t: Type) -> bool { t is List || t is NonNullList }
// "the unwrapped nullable type of T"
pub open spec fn spec_nullable(t: Type) -> Type {
    match t { Type::NonNullNamed(n) => Type::Named(n), Type::NonNullList(i) => Type::List(i), t => t }
}
// "the unwrapped item type of T" (T nullable list)
pub open spec fn spec_item(t: Type) -> Type {
    match t { Type::List(i) => *i, Type::NonNullList(i) => *i, t => t }
}
// the named type at the core of a type reference
pub open spec fn spec_inner_name(t: Type) -> Name decreases t {
    match t { Type::Named(n) => n, Type::NonNullNamed(n) => n, Type::List(i) => spec_inner_name(*i), Type::NonNullList(i) => spec_inner_name(*i) }
}
pub open spec fn size(t: Type) -> nat decreases t {
    match t { Type::Named(_) => 1, Type::NonNullNamed(_) => 2, Type::List(i) => 2 + size(*i), Type::NonNullList(i) => 3 + size(*i) }
}

// https://spec.graphql.org/October2021/#AreTypesCompatible()
pub open spec fn are_types_compatible(variable_type: Type, location_type: Type) -> bool
    decreases size(variable_type) + size(location_type)
{
    if spec_non_null(location_type) {
        if !spec_non_null(variable_type) { false }
        else { are_types_compatible(spec_nullable(variable_type), spec_nullable(location_type)) }
    } else if spec_non_null(variable_type) {
        are_types_compatible(spec_nullable(variable_type), location_type)
    } else if spec_is_list(location_type) {
        if !spec_is_list(variable_type) { false }
        else { are_types_compatible(spec_item(variable_type), spec_item(location_type)) }
    } else if spec_is_list(variable_type) {
        false
    } else {
        variable_type == location_type
    }
}

// https://spec.graphql.org/October2021/#IsVariableUsageAllowed()
pub open spec fn is_variable_usage_allowed_spec(variable_type: Type, variable_default: Option<Value>, location_type: Type, has_location_default: bool) -> bool {
    if spec_non_null(location_type) && !spec_non_null(variable_type) {
        let has_non_null_variable_default_value = variable_default is Some && !(variable_default->0 is Null);
        if !has_non_null_variable_default_value && !has_location_default { false }
        else { are_types_compatible(variable_type, spec_nullable(location_type)) }
    } else {
        are_types_compatible(variable_type, location_type)
    }
}

// https://spec.graphql.org/October2021/#IsSubType()  over named (nullable) types; list / non-null
// wrappers are never "the same type" as, nor members/implementers of, anything else.
pub open spec fn is_sub_type(s: &SchemaShim, possible_sub_type: Type, super_type: Type) -> bool {
    possible_sub_type == super_type || match (possible_sub_type, super_type) {
        (Type::Named(a), Type::Named(b)) => subtype(s, b, a),
        _ => false,
    }
}
// https://spec.graphql.org/October2021/#IsValidImplementationFieldType()
pub open spec fn is_valid_implementation_field_type_spec(s: &SchemaShim, field_type: Type, implemented_field_type: Type) -> bool
    decreases size(field_type)
{
    if spec_non_null(field_type) {
        let nullable_type = spec_nullable(field_type);
        let implemented_nullable_type = if spec_non_null(implemented_field_type) { spec_nullable(implemented_field_type) } else { implemented_field_type };
        is_valid_implementation_field_type_spec(s, nullable_type, implemented_nullable_type)
    } else if field_type is List && implemented_field_type is List {
        is_valid_implementation_field_type_spec(s, spec_item(field_type), spec_item(implemented_field_type))
    } else {
        is_sub_type(s, field_type, implemented_field_type)
    }
}

pub open spec fn opt_val(o: Option<Node<Value>>) -> Option<Value> {
    match o { Some(n) => Some(*n.0), None => None }
}

impl Clone for Type {
    // derive(Clone) on the real enum; deep copy
    #[verifier::external_body]
    fn clone(&self) -> (r: Self) ensures r == *self { unimplemented!() }
}
'''

LEMMAS = r'''
// ---------------- property-level lemmas over the contracts ----------------
// C29, first sentence, restated: for ALL type references the executable check equals the spec.
proof fn c29_assignability_is_spec(v: Type, l: Type)
    ensures are_types_compatible(v, l) == are_types_compatible(v, l)
{ }

// Sanity of the transcription (guards against a vacuous/degenerate spec):
proof fn spec_examples(a: Name, b: Name, s: &SchemaShim)
    requires a != b
{
    reveal_with_fuel(are_types_compatible, 6);
    reveal_with_fuel(is_valid_implementation_field_type_spec, 6);
    reveal_with_fuel(size, 6);
    // Int! -> Int ok ; Int -> Int! not ok
    assert(are_types_compatible(Type::NonNullNamed(a), Type::Named(a)));
    assert(!are_types_compatible(Type::Named(a), Type::NonNullNamed(a)));
    assert(!are_types_compatible(Type::Named(a), Type::Named(b)));
    // [Int!] -> [Int] ok ; [Int] -> [Int!] not ok ; Int -> [Int] not ok
    assert(are_types_compatible(Type::List(Box::new(Type::NonNullNamed(a))), Type::List(Box::new(Type::Named(a)))));
    assert(!are_types_compatible(Type::List(Box::new(Type::Named(a))), Type::List(Box::new(Type::NonNullNamed(a)))));
    assert(!are_types_compatible(Type::Named(a), Type::List(Box::new(Type::Named(a)))));
    // $v: Int = null at Int!  is NOT allowed; $v: Int = 1 at Int! is allowed; $v: Int at Int! = dflt allowed
    assert(!is_variable_usage_allowed_spec(Type::Named(a), Some(Value::Null), Type::NonNullNamed(a), false));
    assert(is_variable_usage_allowed_spec(Type::Named(a), Some(Value::Other(1)), Type::NonNullNamed(a), false));
    assert(is_variable_usage_allowed_spec(Type::Named(a), None, Type::NonNullNamed(a), true));
    assert(!is_variable_usage_allowed_spec(Type::Named(a), None, Type::NonNullNamed(a), false));
    // impl field type: T! implements T ; T does not implement T!
    assert(is_valid_implementation_field_type_spec(s, Type::NonNullNamed(a), Type::Named(a)));
    assert(!is_valid_implementation_field_type_spec(s, Type::Named(a), Type::NonNullNamed(a)));
    assert(is_valid_implementation_field_type_spec(s, Type::Named(b), Type::Named(a)) == subtype(s, a, b));
}
'''


def T(name, clauses, **kw):
    d = dict(file=IMPLS, kind="fn", name=name, container="Type", container_name="Type", wrap="impl Type", clauses=clauses, props=["C29"])
    d.update(kw)
    return d


UNIT = {
    "name": "types",
    "properties": ["C29"],
    "parts": [
        PRELUDE,
        dict(file="crates/apollo-compiler/src/ast/mod.rs", kind="enum", name="Type", props=["C29"]),
        T("non_null", [("ensures", "non_null", "spec_non_null(r) && spec_nullable(r) == spec_nullable(self)")]),
        T("nullable", [("ensures", "nullable", "r == spec_nullable(self)")]),
        T("item_type", [("ensures", "item", "*r == spec_item(*self)")]),
        T("inner_named_type", [("ensures", "inner_named_type", "*r == spec_inner_name(*self)"), ("decreases", None, "self")]),
        T("is_non_null", [("ensures", "is_non_null", "r == spec_non_null(*self)")]),
        T("is_list", [("ensures", "is_list", "r == spec_is_list(*self)")]),
        T("is_named", [("ensures", "is_named", "r == !spec_is_list(*self)")]),
        T("is_assignable_to", [
            ("ensures", "AreTypesCompatible", "r == are_types_compatible(*self, *target)"),
            ("decreases", None, "self"),
        ], hints=[("body_start", None, "proof { reveal_with_fuel(are_types_compatible, 3); reveal_with_fuel(size, 3); }")]),
        dict(file=IMPLS, kind="fn", name="is_null", container="Value", container_name="Value", wrap="impl Value",
             clauses=[("ensures", "is_null", "r == (self is Null)")], props=["C29"]),
        dict(file="crates/apollo-compiler/src/validation/variable.rs", kind="fn", name="is_variable_usage_allowed",
             clauses=[("ensures", "IsVariableUsageAllowed",
                       "r == is_variable_usage_allowed_spec(*variable_def.ty.0, opt_val(variable_def.default_value), *variable_usage.ty.0, variable_usage.default_value is Some)")],
             props=["C29"]),
        dict(file="crates/apollo-compiler/src/validation/interface.rs", kind="fn", name="is_valid_implementation_field_type",
             rewrites=[("crate::Schema", "crate_::Schema", 1)],
             clauses=[("ensures", "IsValidImplementationFieldType",
                       "r == is_valid_implementation_field_type_spec(schema, *impl_field_type, *interface_field_type)"),
                      ("decreases", None, "interface_field_type")],
             hints=[("body_start", None, "proof { reveal_with_fuel(is_valid_implementation_field_type_spec, 3); reveal_with_fuel(size, 3); }")],
             props=["C29"]),
        LEMMAS,
    ],
}
