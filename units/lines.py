"""Unit `lines` -- C06, KERNEL ONLY (block strings, step 1 of BlockStringValue): `GraphQLLines::next`, the line splitter behind
`split_lines`: "Let lines be the result of splitting rawValue by LineTerminator" with LineTerminator = `\\n` | `\\r\\n` | `\\r` (a `\\r`
followed by `\\n` is ONE terminator).

Extracted verbatim from crates/apollo-parser/src/cst/node_ext.rs: struct GraphQLLines, GraphQLLines::new, <GraphQLLines as Iterator>::next.

Contract: a finished iterator yields nothing and stays as it is; otherwise the item is the text before the first `\\r` / `\\n` (the whole
text if there is none, and then the iterator is finished: an empty text still yields one line), and what remains is the text after that
terminator, `\\r\\n` skipped as one.  All byte-offset slices are on char boundaries (no panic).

Listed rewrites (method / index syntax -> shim function with the same arguments): `memchr::memchr2(a, b, s.as_bytes())` -> `memchr2_in_str(a, b, s)`,
`&s[..i]` -> `str_slice_to(s, i)`, `&s[i..]` -> `str_slice_from(s, i)`, `s.get(a..=b)` -> `str_get_incl(s, a, b)`, `Self::Item` -> `&'a str`
(the trait impl header is not part of the body).

Shims (trusted): memchr2 finds the first of two ASCII bytes, and in UTF-8 an ASCII byte is always a whole character; byte-range slicing
panics unless on char boundaries and then yields the characters in between; `str::get(a..=b)` is Some exactly on char boundaries; a
string is at most usize::MAX bytes long; &str values with equal characters are equal (axiom).

NOT decided: the rest of unescape_block_string (common indent, leading / trailing blank lines, the escaped triple quote) -- iterator adapter chains.
"""
import cursor as C

NE = "crates/apollo-parser/src/cst/node_ext.rs"

PRELUDE = C.SPEC_BYTES + C.MONO + r'''
pub open spec fn boundary(s: Seq<char>, a: int, i: int) -> bool { 0 <= i <= s.len() && byte_off(s, i) == a }
pub proof fn lemma_byte_off_strict(cs: Seq<char>, a: int, b: int)
    requires 0 <= a < b
    ensures byte_off(cs, a) < byte_off(cs, b)
    decreases b - a
{
    if a < b - 1 { lemma_byte_off_strict(cs, a, b - 1); }
    assert(byte_off(cs, b) == byte_off(cs, b - 1) + utf8_len(cs[b - 1]));
}
pub open spec fn is_break(c: char) -> bool { c == '\r' || c == '\n' }
/// index of the first `\r` or `\n`, or the length
pub open spec fn first_break(s: Seq<char>) -> int decreases s.len() { if s.len() == 0 || is_break(s[0]) { 0 } else { 1 + first_break(s.skip(1)) } }

pub proof fn lemma_first_break(s: Seq<char>)
    ensures 0 <= first_break(s) <= s.len(),
            forall|j: int| 0 <= j < first_break(s) ==> !is_break(#[trigger] s[j]),
            first_break(s) < s.len() ==> is_break(s[first_break(s)]),
    decreases s.len()
{
    if s.len() == 0 || is_break(s[0]) { } else {
        lemma_first_break(s.skip(1));
        assert forall|j: int| 0 <= j < first_break(s) implies !is_break(#[trigger] s[j]) by { if j > 0 { assert(s[j] == s.skip(1)[j - 1]); } }
        if first_break(s) < s.len() { assert(s[first_break(s)] == s.skip(1)[first_break(s.skip(1))]); }
    }
}
/// the first break is where a break stands and none before
pub proof fn lemma_first_break_at(s: Seq<char>, k: int)
    requires 0 <= k <= s.len(), forall|j: int| 0 <= j < k ==> !is_break(#[trigger] s[j]), k < s.len() ==> is_break(s[k])
    ensures first_break(s) == k
{
    lemma_first_break(s);
    let f = first_break(s);
    if f < k { assert(!is_break(s[f])); } else if k < f { assert(!is_break(s[k])); }
}
pub proof fn lemma_boundary_unique(s: Seq<char>, a: int)
    ensures forall|i: int, j: int| #![trigger boundary(s, a, i), boundary(s, a, j)] boundary(s, a, i) && boundary(s, a, j) ==> i == j
{
    assert forall|i: int, j: int| #![trigger boundary(s, a, i), boundary(s, a, j)] boundary(s, a, i) && boundary(s, a, j) implies i == j by {
        if i < j { lemma_byte_off_strict(s, i, j); } else if j < i { lemma_byte_off_strict(s, j, i); }
    }
}
/// the line that starts the text, and what is left after it and its terminator (`\r\n` counts as one)
pub open spec fn first_line(s: Seq<char>) -> Seq<char> { s.take(first_break(s)) }
pub open spec fn after_first_line(s: Seq<char>) -> Seq<char> {
    let k = first_break(s);
    if k + 1 < s.len() && s[k] == '\r' && s[k + 1] == '\n' { s.skip(k + 2) } else { s.skip(k + 1) }
}
// memchr::memchr2(b'\r', b'\n', s.as_bytes()): byte offset of the first of the two ASCII bytes; in UTF-8 an ASCII byte is always a whole char
#[verifier::external_body]
pub fn memchr2_in_str(n1: u8, n2: u8, s: &str) -> (r: Option<usize>)
    requires n1 < 0x80, n2 < 0x80
    ensures match r {
        None => forall|k: int| 0 <= k < s@.len() ==> s@[k] as u32 != n1 as u32 && s@[k] as u32 != n2 as u32,
        Some(i) => exists|k: int| 0 <= k < s@.len() && #[trigger] byte_off(s@, k) == i && (s@[k] as u32 == n1 as u32 || s@[k] as u32 == n2 as u32)
                    && forall|j: int| 0 <= j < k ==> s@[j] as u32 != n1 as u32 && s@[j] as u32 != n2 as u32 }
{ unimplemented!() }
// `&s[..b]`, `&s[a..]`: panic unless the offset is a char boundary
#[verifier::external_body]
pub fn str_slice_to<'a>(s: &'a str, b: usize) -> (r: &'a str)
    requires exists|j: int| boundary(s@, b as int, j)
    ensures forall|j: int| boundary(s@, b as int, j) ==> r@ =~= s@.take(j)
{ unimplemented!() }
#[verifier::external_body]
pub fn str_slice_from<'a>(s: &'a str, a: usize) -> (r: &'a str)
    requires exists|j: int| boundary(s@, a as int, j)
    ensures forall|j: int| boundary(s@, a as int, j) ==> r@ =~= s@.skip(j)
{ unimplemented!() }
pub open spec fn succ(b: usize) -> int { b as int + 1 }
// `s.get(a..=b)`: Some exactly when a and b + 1 are char boundaries (a <= b + 1)
#[verifier::external_body]
pub fn str_get_incl<'a>(s: &'a str, a: usize, b: usize) -> (r: Option<&'a str>)
    ensures r is Some <==> exists|i: int, j: int| boundary(s@, a as int, i) && boundary(s@, succ(b), j) && i <= j,
            forall|i: int, j: int| #![trigger boundary(s@, a as int, i), boundary(s@, succ(b), j)] (r is Some && boundary(s@, a as int, i) && boundary(s@, succ(b), j) && i <= j) ==> r->0@ =~= s@.subrange(i, j)
{ unimplemented!() }
#[verifier::external_body]
pub proof fn axiom_str_ext() ensures forall|a: &str, b: &str| #![trigger a@, b@] a@ =~= b@ ==> a == b { }

'''

UNIT = {
    "name": "lines",
    "properties": ["C06"],
    "parts": [
        PRELUDE,
        dict(file=NE, kind="struct", name="GraphQLLines", props=["C06"], pub_fields=True),
        dict(file=NE, kind="fn", name="new", container=r"GraphQLLines<'a>", container_name="GraphQLLines", wrap="impl<'a> GraphQLLines<'a>", props=["C06"],
             clauses=[("ensures", "starts_unfinished_on_the_input", "r.input == input && !r.finished")]),
        dict(file=NE, kind="fn", name="next", container=r"Iterator for GraphQLLines<'a>", container_name="GraphQLLines", id="GraphQLLines::next", wrap="impl<'a> GraphQLLines<'a>", props=["C06"],
             rewrites=[("Option<Self::Item>", "Option<&'a str>", 1),
                       (r"memchr::memchr2\(([^,()]+), ([^,()]+), self\.input\.as_bytes\(\)\)", r"memchr2_in_str(\1, \2, self.input)", 1, "re"),
                       ("&self.input[..index]", "str_slice_to(self.input, index)", 1),
                       ("self.input.get(index..=index + 1)", "str_get_incl(self.input, index, index + 1)", 1),
                       ("&self.input[index + 2..]", "str_slice_from(self.input, index + 2)", "*"),
                       ("&self.input[index + 1..]", "str_slice_from(self.input, index + 1)", "*")],
             clauses=[("requires", "a_string_fits_the_address_space", "byte_off(old(self).input@, old(self).input@.len() as int) <= usize::MAX"),
                      ("ensures", "finished_yields_nothing", "old(self).finished ==> r is None && *final(self) == *old(self)"),
                      ("ensures", "yields_the_first_line", "!old(self).finished ==> r is Some && r->0@ =~= first_line(old(self).input@)"),
                      ("ensures", "last_line_finishes", "!old(self).finished && first_break(old(self).input@) == old(self).input@.len() ==> final(self).finished"),
                      ("ensures", "continues_after_the_terminator", "!old(self).finished && first_break(old(self).input@) < old(self).input@.len() ==> !final(self).finished && final(self).input@ =~= after_first_line(old(self).input@)")],
             hints=[("body_start", None, 'proof { lemma_first_break(self.input@); }'),
                    ("before", "let line = ", 'proof {\n            let s = self.input@;\n            let k = choose|k: int| 0 <= k < s.len() && #[trigger] byte_off(s, k) == index && (s[k] as u32 == b\'\\r\' as u32 || s[k] as u32 == b\'\\n\' as u32)\n                    && forall|j: int| 0 <= j < k ==> s[j] as u32 != b\'\\r\' as u32 && s[j] as u32 != b\'\\n\' as u32;\n            lemma_first_break_at(s, k);\n            assert(boundary(s, index as int, k));\n            assert(byte_off(s, k + 1) == index + 1);\n            assert(boundary(s, index + 1, k + 1));\n            lemma_byte_off_monotone(s, k + 1, s.len() as int);\n            lemma_boundary_unique(s, index as int); lemma_boundary_unique(s, index + 1); lemma_boundary_unique(s, index + 2);\n            if k + 1 < s.len() { assert(byte_off(s, k + 2) == index + 1 + utf8_len(s[k + 1])); lemma_byte_off_monotone(s, k + 2, s.len() as int); if utf8_len(s[k + 1]) == 1 { assert(boundary(s, succ((index + 1) as usize), k + 2)); } }\n            reveal_strlit("\\r\\n"); axiom_str_ext();\n            assert("\\r\\n"@.len() == 2 && "\\r\\n"@[0] == \'\\r\' && "\\r\\n"@[1] == \'\\n\');\n            if k + 1 < s.len() && s[k] == \'\\r\' && s[k + 1] == \'\\n\' { assert(s.subrange(k, k + 2) =~= "\\r\\n"@); }\n            assert forall|i: int, j: int| boundary(s, index as int, i) && boundary(s, succ((index + 1) as usize), j) && i <= j && s.subrange(i, j) =~= "\\r\\n"@ implies i == k && j == k + 2 && s[k] == \'\\r\' && s[k + 1] == \'\\n\' by {\n                assert(s.subrange(i, j).len() == 2); assert(s.subrange(i, j)[0] == s[i] && s.subrange(i, j)[1] == s[i + 1]);\n            }\n        }')]),
    ],
}
