"""Unit `cursor` -- the bottom of the lexer chain (C03, and through it C01 / C02): the real bodies of the character cursor
(crates/apollo-parser/src/lexer/cursor.rs: Cursor::{new, is_pending, bump, eatc, current_str, prev_str, drain, add_err}) are verified
against exactly the primitive contracts that unit `lexer` assumes when it proves the state machine `Cursor::advance`
(`lexer.CURSOR_PRIMS`: one definition, used as the generated shim there and as the clause lists here).

The ghost model `CM` (characters of the source, where the token starts, how many chars the iterator has yielded, whether one is pushed
back, whether `index` still is a char position) is carried as a ghost field `m` added to the extracted struct (listed rewrite; ghost only),
updated once at the start of each body (the next model is a function of the old one), and tied to the real fields by the representation
invariant `inv()`: index / offset are the byte offsets of the model's char positions, `pending` holds the pushed-back char, the
`CharIndices` iterator has yielded `read` chars.  `new` establishes `inv()`, every primitive preserves it.

What is assumed instead of the six primitives: the documented behaviour of std -- `CharIndices::next` yields (byte offset, char) in order,
`str::len` is the byte length, `&s[a..b]` / `s.get(range)` succeed exactly on char boundaries and return the chars in between,
`s.get(o..).and_then(|t| t.chars().next())` is the char starting at byte offset o (listed method -> function rewrites).
"""
import lexer as LX

CUR = "crates/apollo-parser/src/lexer/cursor.rs"


def cut(text, a, b):
    i = text.index(a)
    return text[i:text.index(b, i)]


P = LX.PRELUDE
SPEC_BYTES = cut(P, "// ---- UTF-8 byte offsets of a &str", "// ---------------- shims (trusted) ----------------")
ERROR_SHIM = cut(P, "// crate::Error: message irrelevant", "// lookup::punctuation_kind / is_namestart")
MODEL = cut(P, "// ---- Cursor: ghost model of lexer/cursor.rs ----", "pub struct Cursor<'a> {")
MONO = cut(P, "pub proof fn lemma_byte_off_monotone", "// ---- StringValue ::")

PRELUDE = SPEC_BYTES + ERROR_SHIM + MODEL + MONO + r'''
// ---------------- std (assumed: documented behaviour) ----------------
// core::str::CharIndices: yields (byte offset, char) for the chars of the string, in order
pub struct CharIndices<'a> { pub src: Ghost<Seq<char>>, pub pos: Ghost<nat>, pub p: core::marker::PhantomData<&'a ()> }
impl<'a> CharIndices<'a> {
    #[verifier::external_body]
    pub fn next(&mut self) -> (r: Option<(usize, char)>)
        requires byte_off(old(self).src@, old(self).src@.len() as int) <= usize::MAX
        ensures final(self).src == old(self).src,
            old(self).pos@ < old(self).src@.len() ==> r == Some((byte_off(old(self).src@, old(self).pos@ as int) as usize, old(self).src@[old(self).pos@ as int])) && final(self).pos@ == old(self).pos@ + 1,
            old(self).pos@ >= old(self).src@.len() ==> r is None && final(self).pos@ == old(self).pos@,
    { unimplemented!() }
}
// `input.char_indices()`
#[verifier::external_body]
pub fn str_char_indices<'a>(s: &'a str) -> (r: CharIndices<'a>) ensures r.src@ == s@, r.pos@ == 0 { unimplemented!() }
// `s.len()`: length in bytes; a Rust string is at most isize::MAX bytes long
#[verifier::external_body]
pub fn str_byte_len(s: &str) -> (r: usize) ensures r == byte_off(s@, s@.len() as int), byte_off(s@, s@.len() as int) <= usize::MAX { unimplemented!() }
pub open spec fn boundary(s: Seq<char>, a: int, i: int) -> bool { 0 <= i <= s.len() && byte_off(s, i) == a }
// `s.get(a..b)`: Some exactly when both ends are char boundaries and a <= b
#[verifier::external_body]
pub fn str_get<'a>(s: &'a str, a: usize, b: usize) -> (r: Option<&'a str>)
    ensures forall|i: int, j: int| #![trigger boundary(s@, a as int, i), boundary(s@, b as int, j)] (boundary(s@, a as int, i) && boundary(s@, b as int, j) && i <= j) ==> r is Some && r->0@ =~= s@.subrange(i, j)
{ unimplemented!() }
// `s.get(a..)`
#[verifier::external_body]
pub fn str_get_from<'a>(s: &'a str, a: usize) -> (r: Option<&'a str>)
    ensures forall|i: int| #![trigger boundary(s@, a as int, i)] boundary(s@, a as int, i) ==> r is Some && r->0@ =~= s@.subrange(i, s@.len() as int)
{ unimplemented!() }
pub open spec fn succ(b: usize) -> int { b as int + 1 }
// `s.get(a..=b)`: the bytes a ..= b, i.e. up to the boundary b + 1
#[verifier::external_body]
pub fn str_get_incl<'a>(s: &'a str, a: usize, b: usize) -> (r: Option<&'a str>)
    ensures forall|i: int, j: int| #![trigger boundary(s@, a as int, i), boundary(s@, succ(b), j)] (boundary(s@, a as int, i) && boundary(s@, succ(b), j) && i <= j) ==> r is Some && r->0@ =~= s@.subrange(i, j)
{ unimplemented!() }
// `s.get(o..).and_then(|t| t.chars().next())`: the char that starts at byte offset o
#[verifier::external_body]
pub fn str_char_at(s: &str, o: usize) -> (r: Option<char>)
    ensures forall|i: int| (boundary(s@, o as int, i) && i < s@.len()) ==> r == Some(s@[i])
{ unimplemented!() }

// byte offsets are strictly increasing: every char takes at least one byte
pub proof fn lemma_byte_off_strict(cs: Seq<char>, a: int, b: int)
    requires 0 <= a < b
    ensures byte_off(cs, a) < byte_off(cs, b)
    decreases b - a
{
    if a < b - 1 { lemma_byte_off_strict(cs, a, b - 1); }
    assert(byte_off(cs, b) == byte_off(cs, b - 1) + utf8_len(cs[b - 1]));
}
pub proof fn lemma_byte_off_nonneg(cs: Seq<char>, k: int)
    ensures byte_off(cs, k) >= 0
    decreases k
{
    if k > 0 { lemma_byte_off_nonneg(cs, k - 1); }
}
'''

REPR = r'''
impl<'a> Cursor<'a> {
    /// representation invariant: how the real fields encode the ghost model
    pub open spec fn inv(&self) -> bool {
        let m = self.m@;
        &&& m.chars == self.source@ && self.chars.src@ == self.source@ && self.chars.pos@ == m.read
        &&& m.wf()
        &&& byte_off(m.chars, m.chars.len() as int) <= usize::MAX
        &&& ((self.pending is Some) == m.pending)
        &&& (m.pending ==> self.pending->0 == m.chars[m.read - 1])
        &&& (m.index_ok ==> self.index == byte_off(m.chars, m.start as int))
        &&& (m.read >= 1 ==> self.offset == byte_off(m.chars, m.read - 1))
        &&& (m.read == 0 ==> self.offset == 0)
    }
}
// the model after each primitive, as a function of the model before it
pub open spec fn after_bump(m: CM) -> CM {
    if m.pending { CM { pending: false, ..m } } else if m.read < m.chars.len() { CM { read: m.read + 1, ..m } } else { m }
}
pub open spec fn after_eatc(m: CM, c: char) -> CM {
    if m.read < m.chars.len() { CM { read: m.read + 1, pending: m.chars[m.read as int] != c, ..m } } else { m }
}
pub open spec fn after_current_str(m: CM) -> CM {
    if m.read < m.chars.len() { CM { start: m.read, read: m.read + 1, pending: true, index_ok: true, ..m } }
    else { CM { start: m.read, pending: false, index_ok: false, ..m } }
}
pub open spec fn after_prev_str(m: CM) -> CM { CM { start: (m.read - 1) as nat, pending: true, ..m } }
pub open spec fn after_drain(m: CM) -> CM { CM { start: m.chars.len(), pending: false, index_ok: false, ..m } }
'''


def prim(name, extra_req=None, hints=None, rewrites=None, **kw):
    c = LX.CURSOR_PRIMS[name]
    clauses = [("requires", "representation_invariant", "old(self).inv()" if "&mut self" in c["sig"] else "self.inv()")]
    clauses += [("requires", "as_assumed_by_unit_lexer_%d" % i, r.split("/*")[0].strip()) for i, r in enumerate(c["requires"])]
    if "&mut self" in c["sig"]:
        clauses += [("ensures", "representation_invariant", "final(self).inv()")]
    clauses += [("ensures", "as_assumed_by_unit_lexer_%d" % i, e) for i, e in enumerate(c["ensures"])]
    d = dict(file=CUR, kind="fn", name=name, container=r"Cursor<'a>", container_name="Cursor", wrap="impl<'a> Cursor<'a>", clauses=clauses,
             props=["C03", "C01", "C02"], hints=hints or [], rewrites=rewrites or [])
    d.update(kw)
    return d


LEM = "lemma_byte_off_nonneg(self.m@.chars, self.m@.read as int); if self.m@.read >= 1 { lemma_byte_off_nonneg(self.m@.chars, self.m@.read - 1); } lemma_byte_off_monotone(self.m@.chars, self.m@.start as int, self.m@.read as int); lemma_byte_off_monotone(self.m@.chars, self.m@.read as int, self.m@.chars.len() as int);"

UNIT = {
    "name": "cursor",
    "properties": ["C03", "C01", "C02"],
    "parts": [
        dict(file="crates/apollo-parser/src/lexer/token_kind.rs", kind="enum", name="TokenKind", attrs="#[derive(Clone, Copy, PartialEq, Eq, Structural)]"),
        PRELUDE,
        dict(file=CUR, kind="struct", name="Cursor", pub_fields=True, props=["C03"],
             rewrites=[("    pub err: Option<Error>,\n}", "    pub err: Option<Error>,\n    pub m: Ghost<CM>,   // ghost model (added; no runtime content)\n}", 1)]),
        REPR,
        dict(file=CUR, kind="fn", name="new", container=r"Cursor<'a>", container_name="Cursor", wrap="impl<'a> Cursor<'a>", props=["C03", "C01", "C02"],
             rewrites=[("chars: input.char_indices(),", "chars: str_char_indices(input),", 1),
                       ("            err: None,\n        }", "            err: None,\n            m: Ghost(CM { chars: input@, start: 0, read: 0, pending: false, index_ok: true }),\n        }", 1)],
             clauses=[("requires", "a_rust_string_fits_the_address_space", "byte_off(input@, input@.len() as int) <= usize::MAX"),
                      ("ensures", "representation_invariant", "r.inv()"),
                      ("ensures", "fresh_cursor_over_the_input", "r.source == input, r.err is None, r.m@ == (CM { chars: input@, start: 0, read: 0, pending: false, index_ok: true })")],
             hints=[("body_start", None, "proof { reveal_with_fuel(byte_off, 2); }")]),
        prim("is_pending"),
        prim("bump", hints=[("body_start", None, "proof { " + LEM + " if self.m@.read < self.m@.chars.len() { lemma_byte_off_strict(self.m@.chars, self.m@.read as int, self.m@.chars.len() as int); lemma_byte_off_nonneg(self.m@.chars, self.m@.read as int); } self.m@ = after_bump(self.m@); }")],
             rewrites=[("self.source.len()", "str_byte_len(self.source)", 1)]),
        prim("eatc", hints=[("body_start", None, "proof { " + LEM + " self.m@ = after_eatc(self.m@, c); }")]),
        prim("current_str", hints=[("body_start", None, "proof { " + LEM + " lemma_byte_off_nonneg(self.m@.chars, self.m@.start as int); assert(boundary(self.m@.chars, self.index as int, self.m@.start as int)); assert(boundary(self.m@.chars, byte_off(self.m@.chars, self.m@.read as int), self.m@.read as int)); self.m@ = after_current_str(self.m@); }")],
             rewrites=[("self.source.get(current..pos)", "str_get(self.source, current, pos)", 1), ("self.source.get(current..)", "str_get_from(self.source, current)", 1),
                       ("self.source.len()", "str_byte_len(self.source)", 1)]),
        prim("prev_str", hints=[("body_start", None, "proof { " + LEM + " lemma_byte_off_monotone(self.m@.chars, self.m@.start as int, self.m@.read - 1); lemma_byte_off_nonneg(self.m@.chars, self.m@.start as int); assert(boundary(self.m@.chars, self.offset as int, self.m@.read - 1)); assert(boundary(self.m@.chars, self.index as int, self.m@.start as int)); self.m@ = after_prev_str(self.m@); }")],
             rewrites=[("&self.source[self.index..self.offset]", "str_slice(self.source, self.index, self.offset)", 1),
                       (r"self\s*\.source\s*\.get\(self\.offset\.\.\)\s*\.and_then\(\|subslice\| subslice\.chars\(\)\.next\(\)\)", "str_char_at(self.source, self.offset)", 1, "re")]),
        prim("drain", hints=[("body_start", None, "proof { " + LEM + " lemma_byte_off_nonneg(self.m@.chars, self.m@.start as int); lemma_byte_off_strict(self.m@.chars, 0, self.m@.chars.len() as int); reveal_with_fuel(byte_off, 1); assert(boundary(self.m@.chars, self.index as int, self.m@.start as int)); assert(boundary(self.m@.chars, succ((byte_off(self.m@.chars, self.m@.chars.len() as int) - 1) as usize), self.m@.chars.len() as int)); self.m@ = after_drain(self.m@); }")],
             rewrites=[("self.source.get(start..=self.index)", "str_get_incl(self.source, start, self.index)", 1), ("self.source.len()", "str_byte_len(self.source)", 1)]),
        prim("add_err"),
    ],
}
