"""Unit `selection_set` -- C26: ExecuteSelectionSet (resolvers/execution.rs: execute_selection_set), the loop that ties CollectFields to ExecuteField.

Extracted verbatim: execute_selection_set; enum Type, enum ResponseDataPathSegment, struct LinkedPathElement (as in unit complete_list, whose prelude
-- shims, response paths, `field_outcome` -- is reused as a whole).

Specification (https://spec.graphql.org/October2021/#ExecuteSelectionSet()): for each group of CollectFields, in order: if the object type defines the
group's first field, ExecuteField at `path + [response key]`; a value is inserted under the response key; a propagated null makes the whole selection
set propagate (the caller nullifies the nearest nullable parent; at the root `data` is null); (apollo-compiler) a field the type does not define and a
field skipped for partial execution are left out.  Every error recorded lies at or below the selection set's own path.

Assume / guarantee: `execute_field` enters by the clause text unit complete_list proves for it; `collect_fields` is opaque here (its result is named
`collected`; unit collect_fields proves what it is) except for "no group is empty" -- the precondition of `fields[0]` and of execute_field -- which unit
collect_fields proves under the name `no_group_is_empty` (restated here over this unit's model of the map).

Listed rewrites: `async fn` -> `fn`, `.await` dropped; `selections: impl IntoIterator<..>` -> the opaque `Selections`; `IndexMap::default()` /
`HashSet::default()` -> the shims' constructors; `for (&response_key, fields) in &grouped_field_set {` -> an index loop over the map's entries in order.
Shims (trusted): the grouped map as a sequence of (key, fields); serde_json's Map::insert as an uninterpreted `map_insert`; Schema::type_field.
"""
import importlib.util
import os

_here = os.path.dirname(os.path.abspath(__file__))
_spec = importlib.util.spec_from_file_location("complete_list_unit", os.path.join(_here, "complete_list.py"))
CL = importlib.util.module_from_spec(_spec)
_spec.loader.exec_module(CL)

EXE = "crates/apollo-compiler/src/resolvers/execution.rs"
RESP = "crates/apollo-compiler/src/response.rs"
AST = "crates/apollo-compiler/src/ast/mod.rs"

_ef = [p for p in CL.UNIT["parts"] if isinstance(p, dict) and p.get("name") == "execute_field"][0]
EF_REQUIRES = ",\n        ".join(c[2] for c in _ef["clauses"] if c[0] == "requires")
EF_ENSURES = ",\n        ".join(c[2] for c in _ef["clauses"] if c[0] == "ensures")

_base = CL.PRELUDE
assert _base.count("pub struct JsonMap { pub x: u64 }") == 1
_base = _base.replace("pub struct JsonMap { pub x: u64 }", r'''#[verifier::external_body]
pub struct JsonMap { x: u8 }
/// serde_json::Map::insert on the entries in order (replace the value of an existing key, else append): uninterpreted
pub uninterp spec fn map_insert(m: Seq<(Seq<char>, JsonValue)>, k: Seq<char>, v: JsonValue) -> Seq<(Seq<char>, JsonValue)>;
impl JsonMap {
    pub uninterp spec fn view(&self) -> Seq<(Seq<char>, JsonValue)>;
    #[verifier::external_body]
    pub fn with_capacity(n: usize) -> (r: JsonMap) ensures r@.len() == 0 { unimplemented!() }
    #[verifier::external_body]
    pub fn insert(&mut self, k: &str, v: JsonValue) -> (r: Option<JsonValue>) ensures final(self)@ == map_insert(old(self)@, k@, v) { unimplemented!() }
}''')

PRELUDE = _base + r'''
impl Name {
    pub uninterp spec fn text(&self) -> Seq<char>;
    #[verifier::external_body]
    pub fn as_str(&self) -> (r: &str) ensures r@ == self.text() { unimplemented!() }
}
impl Clone for Name {
    #[verifier::external_body]
    fn clone(&self) -> (r: Self) ensures r == *self { unimplemented!() }
}
#[verifier::external_body]
pub struct Selections<'a> { x: core::marker::PhantomData<&'a u8> }
#[verifier::external_body]
pub struct VisitedSet { x: u8 }
impl VisitedSet {
    #[verifier::external_body]
    pub fn default() -> VisitedSet { unimplemented!() }
}
/// `IndexMap<&'a Name, Vec<&'a Field>>`: the entries in insertion order
#[verifier::external_body]
pub struct GroupMap<'a> { x: core::marker::PhantomData<&'a u8> }
pub type Groups<'a> = Seq<(Name, Seq<&'a Field>)>;
impl<'a> GroupMap<'a> {
    pub uninterp spec fn view(&self) -> Groups<'a>;
    #[verifier::external_body]
    pub fn default() -> (r: GroupMap<'a>) ensures r@.len() == 0 { unimplemented!() }
    #[verifier::external_body]
    pub fn len(&self) -> (r: usize) ensures r == self@.len() { unimplemented!() }
    #[verifier::external_body]
    pub fn get_index(&self, i: usize) -> (r: (&'a Name, &Vec<&'a Field>)) requires i < self@.len() ensures *r.0 == self@[i as int].0, r.1@ == self@[i as int].1 { unimplemented!() }
}
pub open spec fn no_empty_group(g: Groups<'_>) -> bool { forall|i: int| 0 <= i < g.len() ==> (#[trigger] g[i]).1.len() > 0 }
/// CollectFields(objectType, selectionSet, variableValues) with no fragment visited yet (unit collect_fields proves what it is)
pub uninterp spec fn collected<'a>(object_type: &ObjectType, selections: Selections<'a>) -> Groups<'a>;
#[verifier::external_body]
pub fn collect_fields<'a>(ctx: &mut ExecutionContext<'a>, object_type: &ObjectType, selections: Selections<'a>, visited_fragments: &mut VisitedSet, grouped_fields: &mut GroupMap<'a>)
    ensures
        final(ctx).errors@ == old(ctx).errors@, final(ctx).document == old(ctx).document, final(ctx).schema == old(ctx).schema,   // unit collect_fields: context_untouched
        old(grouped_fields)@.len() == 0 ==> final(grouped_fields)@ == collected(object_type, selections),
        no_empty_group(old(grouped_fields)@) ==> no_empty_group(final(grouped_fields)@),                                           // unit collect_fields: no_group_is_empty
{ unimplemented!() }
/// proved for the real function in unit `complete_list`; the clause text is imported from there
#[verifier::external_body]
pub fn execute_field<'a>(ctx: &mut ExecutionContext<'a>, path: LinkedPath<'_>, mode: ExecutionMode, object_type: &ObjectType, object_value: MaybeAsyncObject<'_>,
                         field_def: &'a FieldDefinition, fields: &[&'a Field]) -> (r: Completed)
    requires
        ''' + EF_REQUIRES + r''',
    ensures
        ''' + EF_ENSURES + r''',
{ unimplemented!() }

// ---------------- specification: ExecuteSelectionSet ----------------
pub open spec fn set_outcome(schema: &Schema, at: Seq<ResponseDataPathSegment>, mode: ExecutionMode, object_type: &ObjectType, object_value: MaybeAsyncObject<'_>,
                             groups: Groups<'_>, i: int, out: Seq<(Seq<char>, JsonValue)>) -> Result<Seq<(Seq<char>, JsonValue)>, PropagateNull>
    decreases groups.len() - i
{
    if i < 0 || i >= groups.len() { Ok(out) }
    else {
        let key = groups[i].0; let fields = groups[i].1;
        match schema.spec_type_field(object_type.name, fields[0].name) {
            None => set_outcome(schema, at, mode, object_type, object_value, groups, i + 1, out),           // not a field of this type: left out
            Some(def) => match field_outcome(at.push(ResponseDataPathSegment::Field(key)), mode, object_type, object_value, &def, fields) {
                Err(_) => Err(PropagateNull),                                                                   // the whole selection set propagates
                Ok(None) => set_outcome(schema, at, mode, object_type, object_value, groups, i + 1, out),  // skipped for partial execution
                Ok(Some(v)) => set_outcome(schema, at, mode, object_type, object_value, groups, i + 1, map_insert(out, key.text(), v)),
            },
        }
    }
}
'''

UNIT = {
    "name": "selection_set",
    "properties": ["C26"],
    "parts": [
        PRELUDE,
        dict(file=AST, kind="enum", name="Type", props=["C26"]),
        dict(file=RESP, kind="enum", name="ResponseDataPathSegment", props=["C26"], rewrites=[("crate::Name", "Name", 1)]),
        dict(file=EXE, kind="struct", name="LinkedPathElement", props=["C26"]),
        dict(file=EXE, kind="fn", name="execute_selection_set", props=["C26"], n_loops=1, loops_see_context=True,
             rewrites=[("async fn", "fn", 1), (".await", "", None),
                       ("selections: impl IntoIterator<Item = &'a Selection>,", "selections: Selections<'a>,", 1),
                       ("IndexMap::default()", "GroupMap::default()", 1), ("&mut HashSet::default()", "&mut VisitedSet::default()", 1),
                       ("for (&response_key, fields) in &grouped_field_set {",
                        "let mut __g: usize = 0; while __g < grouped_field_set.len() { let (response_key, fields) = grouped_field_set.get_index(__g); __g += 1;", 1)],
             clauses=[("ensures", "context_unchanged", "final(ctx).document == old(ctx).document, final(ctx).schema == old(ctx).schema"),
                      ("ensures", "errors_lie_at_or_below_the_selection_set", "errors_added_below(old(ctx).errors@, final(ctx).errors@, path_seq(path))"),
                      ("ensures", "ExecuteSelectionSet",
                       "match set_outcome(&old(ctx).schema.0, path_seq(path), mode, object_type, object_value, collected(object_type, selections), 0, Seq::<(Seq<char>, JsonValue)>::empty()) "
                       "{ Ok(m) => r matches Ok(map) && map@ == m, Err(_) => r is Err }")],
             loops=[dict(invariant=[("bounds", "__g <= grouped_field_set@.len()"),
                                    ("context_unchanged", "ctx.document == old(ctx).document, ctx.schema == old(ctx).schema"),
                                    ("errors_so_far", "errors_added_below(old(ctx).errors@, ctx.errors@, path_seq(path))"),
                                    ("response_so_far", "set_outcome(&ctx.schema.0, path_seq(path), mode, object_type, object_value, grouped_field_set@, __g as int, response_map@) "
                                                        "== set_outcome(&ctx.schema.0, path_seq(path), mode, object_type, object_value, grouped_field_set@, 0, Seq::<(Seq<char>, JsonValue)>::empty())")],
                         decreases="grouped_field_set@.len() - __g")],
             hints=[("body_start", None, "broadcast use paths;"),
                    ("after", "let mut response_map = JsonMap::with_capacity(grouped_field_set.len());", "proof { assert(response_map@ =~= Seq::<(Seq<char>, JsonValue)>::empty()); }"),
                    ("loop_body_start", 0, "broadcast use paths;")]),
    ],
}
