"""Unit `serialize_string` -- C09, KERNEL ONLY (the quoted form): whenever `serialize_string_value` does not take the block-string branch,
what it writes is `"` body `"` where body is a lexically valid quoted-string body (the right-linear grammar that unit `unescape` proves
to follow from the C03 string grammar) whose value under the static semantics of C06 (`decoded`, shared text of unit unescape) is exactly
the string that was serialized -- for EVERY Unicode string.  With `lemma_lexer_accepts_only_decodable_strings` and `unescape_string`'s
contract (unit unescape) this is the round trip serialize -> lex -> decode = identity for the quoted form, each link over the extracted
code of the function that implements it.  The postcondition is the property itself, not a particular escaping: a change that escapes more
characters, or differently but correctly (say TAB as a backslash-t or as u0009), still verifies.

Extracted verbatim from crates/apollo-compiler/src/ast/serialize.rs: fn serialize_string_value.

Listed rewrites (method / index / macro syntax -> shim function with the same arguments; each pinned):
  `fmt::Result` -> `FmtResult` (shim of core::fmt::Error), `str.contains(c)` -> `str_contains_char(str, c)`,
  `str.find(|c| P)` -> `str_find(str, |c: char| -> (b: bool) ensures b == (P) { P })` (the predicate P is kept verbatim, twice: Verus needs the
  closure's postcondition spelled out), `str.split_at(i)` -> `str_split_at(str, i)`, `rest.as_bytes()[0]` -> `str_first_byte(rest)`,
  `&rest[1..]` -> `str_slice_from(rest, 1)`, `display!(state, "..u{:04X}", byte)` -> `write_u_04x(state, byte)`.

Shims (trusted): State::write appends to the output; `{:04X}` prints a byte as four upper-case hex digits, zero-padded; str::find returns the
byte offset of the first char satisfying the predicate; split_at / byte-range slicing on char boundaries; the first byte of the UTF-8
encoding of an ASCII char is that char.  `can_be_block_string` / `serialize_block_string` / `newlines_enabled` are opaque: the contract speaks
about the runs that do not enter the block-string branch.

NOT decided: the block-string form (can_be_block_string, serialize_block_string: str::split / trim_start_matches / iterator adapters), that the
serializer's callers pass the right string, positions / configuration (the quoted form does not depend on them).
"""
import cursor as C
import lexer as LX
import unescape as UE

SER = "crates/apollo-compiler/src/ast/serialize.rs"

_i = UE.LINK.index("pub proof fn lemma_valid_concat")
_j = UE.LINK.index("pub proof fn lemma_link")
CONCAT = UE.LINK[_i:_j]      # lemma_valid_concat (text of unit unescape)

PRELUDE = C.SPEC_BYTES + C.MONO + LX.section("hex") + LX.section("char_classes") + LX.section("string_grammar") + UE.DECODE_SPEC + CONCAT + r'''
pub open spec fn boundary(s: Seq<char>, a: int, i: int) -> bool { 0 <= i <= s.len() && byte_off(s, i) == a }
pub proof fn lemma_byte_off_strict(cs: Seq<char>, a: int, b: int)
    requires 0 <= a < b
    ensures byte_off(cs, a) < byte_off(cs, b)
    decreases b - a
{
    if a < b - 1 { lemma_byte_off_strict(cs, a, b - 1); }
    assert(byte_off(cs, b) == byte_off(cs, b - 1) + utf8_len(cs[b - 1]));
}
pub proof fn lemma_boundary_unique(s: Seq<char>, a: int)
    ensures forall|i: int, j: int| #![trigger boundary(s, a, i), boundary(s, a, j)] boundary(s, a, i) && boundary(s, a, j) ==> i == j
{
    assert forall|i: int, j: int| #![trigger boundary(s, a, i), boundary(s, a, j)] boundary(s, a, i) && boundary(s, a, j) implies i == j by {
        if i < j { lemma_byte_off_strict(s, i, j); } else if j < i { lemma_byte_off_strict(s, j, i); }
    }
}
// ---------------- shims (trusted) ----------------
pub struct FmtError;
pub type FmtResult = Result<(), FmtError>;
/// ast::serialize::State: the text written so far (ghost), the configuration (opaque)
pub struct State { pub out: Ghost<Seq<char>>, pub cfg: u64 }
impl State {
    // State::write = Formatter::write_str: appends the text (or fails)
    #[verifier::external_body]
    pub fn write(&mut self, s: &str) -> (r: FmtResult)
        ensures r is Ok ==> final(self).out@ =~= old(self).out@ + s@, final(self).cfg == old(self).cfg
    { unimplemented!() }
    pub uninterp spec fn spec_newlines_enabled(&self) -> bool;
    #[verifier::external_body]
    pub fn newlines_enabled(&self) -> (r: bool) ensures r == self.spec_newlines_enabled() { unimplemented!() }
}
pub open spec fn hex_upper(v: int) -> char { if v < 10 { (48 + v) as u8 as char } else { (55 + v) as u8 as char } }
// display!(state, "\\u{:04X}", byte): writes `\u` and the byte as four upper-case hex digits, zero-padded (std::fmt, `{:04X}`)
#[verifier::external_body]
pub fn write_u_04x(state: &mut State, byte: u8) -> (r: FmtResult)
    ensures r is Ok ==> final(state).out@ =~= old(state).out@ + seq!['\\', 'u', '0', '0', hex_upper(byte as int / 16), hex_upper(byte as int % 16)], final(state).cfg == old(state).cfg
{ unimplemented!() }
// str::find with a char predicate: byte offset of the first char that satisfies it
#[verifier::external_body]
pub fn str_find<F: Fn(char) -> bool>(s: &str, f: F) -> (r: Option<usize>)
    requires forall|c: char| f.requires((c,))
    ensures match r { None => forall|k: int| 0 <= k < s@.len() ==> f.ensures((#[trigger] s@[k],), false),
                      Some(i) => exists|k: int| #[trigger] boundary(s@, i as int, k) && k < s@.len() && f.ensures((s@[k],), true) && forall|j: int| 0 <= j < k ==> f.ensures((#[trigger] s@[j],), false) }
{ unimplemented!() }
// str::split_at: panics unless on a char boundary
#[verifier::external_body]
pub fn str_split_at<'a>(s: &'a str, mid: usize) -> (r: (&'a str, &'a str))
    requires exists|k: int| boundary(s@, mid as int, k)
    ensures forall|k: int| boundary(s@, mid as int, k) ==> r.0@ =~= s@.take(k) && r.1@ =~= s@.skip(k)
{ unimplemented!() }
// `s.as_bytes()[0]`: first byte of the UTF-8 encoding; for an ASCII char that is the char
#[verifier::external_body]
pub fn str_first_byte(s: &str) -> (r: u8)
    requires s@.len() > 0
    ensures (s@[0] as u32) < 0x80 ==> r as u32 == s@[0] as u32
{ unimplemented!() }
#[verifier::external_body]
pub fn str_slice_from<'a>(s: &'a str, a: usize) -> (r: &'a str)
    requires exists|j: int| boundary(s@, a as int, j)
    ensures forall|j: int| boundary(s@, a as int, j) ==> r@ =~= s@.skip(j)
{ unimplemented!() }
#[verifier::external_body]
pub fn str_contains_char(s: &str, c: char) -> (r: bool) ensures r == s@.contains(c) { unimplemented!() }
pub uninterp spec fn spec_can_be_block_string(s: Seq<char>) -> bool;
#[verifier::external_body]
pub fn can_be_block_string(value: &str) -> (r: bool) ensures r == spec_can_be_block_string(value@) { unimplemented!() }
#[verifier::external_body]
pub fn serialize_block_string(state: &mut State, contains_newline: bool, s: &str) -> (r: FmtResult) { unimplemented!() }

// ---------------- specification ----------------
/// x is a valid piece of string body that decodes to the single character c
pub open spec fn unit_ok(x: Seq<char>, c: char) -> bool { valid_body(x) && decoded(x) =~= seq![c] }
pub proof fn lemma_decoded_concat(a: Seq<char>, b: Seq<char>)
    requires valid_body(a)
    ensures decoded(a + b) =~= decoded(a) + decoded(b)
    decreases a.len()
{
    let t = a + b;
    if a.len() == 0 { assert(t =~= b); }
    else if a[0] != '\\' { lemma_decoded_concat(a.skip(1), b); assert(t.skip(1) =~= a.skip(1) + b); }
    else if a.len() >= 2 && simple_escape(a[1]) is Some { lemma_decoded_concat(a.skip(2), b); assert(t.skip(2) =~= a.skip(2) + b); assert(t[1] == a[1]); }
    else { lemma_decoded_concat(a.skip(6), b); assert(t.skip(6) =~= a.skip(6) + b); assert(t[1] == a[1]);
           assert(t.skip(2)[0] == a.skip(2)[0] && t.skip(2)[1] == a.skip(2)[1] && t.skip(2)[2] == a.skip(2)[2] && t.skip(2)[3] == a.skip(2)[3]);
           reveal_with_fuel(hexprefix, 5); }
}
/// characters that need no escaping stand for themselves
pub proof fn lemma_plain(x: Seq<char>)
    requires forall|j: int| 0 <= j < x.len() ==> plain_string_char(#[trigger] x[j])
    ensures valid_body(x), decoded(x) =~= x
    decreases x.len()
{
    if x.len() > 0 {
        let t = x.skip(1);
        assert forall|j: int| 0 <= j < t.len() implies plain_string_char(#[trigger] t[j]) by { assert(t[j] == x[j + 1]); }
        lemma_plain(t);
        assert(x =~= seq![x[0]] + t);
    }
}
/// `\` EscapedCharacter decodes to the character of the spec's table
pub proof fn lemma_simple_escapes()
    ensures forall|c2: char| #![trigger simple_escape(c2)] simple_escape(c2) is Some ==> unit_ok(seq!['\\', c2], simple_escape(c2)->0)
{
    assert forall|c2: char| #![trigger simple_escape(c2)] simple_escape(c2) is Some implies unit_ok(seq!['\\', c2], simple_escape(c2)->0) by {
        let e = seq!['\\', c2];
        reveal_with_fuel(valid_body, 2); reveal_with_fuel(decoded, 2);
        assert(e.skip(2).len() == 0); assert(e[1] == c2);
    }
}
/// `\u00XY` (upper-case hex digits of a byte) decodes to the character with that code
pub proof fn lemma_u00(c: char)
    requires (c as u32) < 0x100
    ensures unit_ok(seq!['\\', 'u', '0', '0', hex_upper(c as int / 16), hex_upper(c as int % 16)], c)
{
    let e = seq!['\\', 'u', '0', '0', hex_upper(c as int / 16), hex_upper(c as int % 16)];
    reveal_with_fuel(valid_body, 2); reveal_with_fuel(decoded, 2); reveal_with_fuel(hexprefix, 5);
    assert(e.skip(6).len() == 0); assert(e[0] == '\\' && e[1] == 'u'); assert(simple_escape('u') is None);
    let h = e.skip(2);
    assert(h[0] == '0' && h[1] == '0' && h[2] == e[4] && h[3] == e[5]);
    assert(hexprefix(h, 4) == c as int);
    assert(char_of(c as int) == c);
}
pub open spec fn takes_the_quoted_form(state: &State, is_description: bool, s: Seq<char>) -> bool {
    !(state.spec_newlines_enabled() && (is_description || s.contains('\n')) && spec_can_be_block_string(s))
}
/// text = `"` body `"` where body is a lexically valid string body (C03) whose value (C06) is v
pub open spec fn quoted_literal_of(text: Seq<char>, v: Seq<char>) -> bool {
    text.len() >= 2 && text[0] == '"' && text.last() == '"' && valid_body(text.subrange(1, text.len() - 1)) && decoded(text.subrange(1, text.len() - 1)) =~= v
}

'''

UNIT = {
    "name": "serialize_string",
    "properties": ["C09"],
    "parts": [
        PRELUDE,
        dict(file=SER, kind="fn", name="serialize_string_value", props=["C09"],
             n_loops=1,
             rewrites=[("fmt::Result", "FmtResult", 1),
                       ("str.contains('\\n')", "str_contains_char(str, '\\n')", 1),
                       (r"str\.find\(\|c\| (.+)\) \{\n", r"str_find(str, |c: char| -> (b: bool) ensures b == (\1) { \1 }) {\n", 1, "re"),
                       ("str.split_at(i)", "str_split_at(str, i)", 1),
                       ("rest.as_bytes()[0]", "str_first_byte(rest)", 1),
                       ('display!(state, "\\\\u{:04X}", byte)', "write_u_04x(state, byte)", "*"),
                       ("&rest[1..]", "str_slice_from(rest, 1)", 1)],
             clauses=[("ensures", "quoted_form_reads_back_as_the_value",
                       "(r is Ok && takes_the_quoted_form(old(state), is_description, str@)) ==> "
                       "final(state).out@.len() >= old(state).out@.len() && final(state).out@.take(old(state).out@.len() as int) =~= old(state).out@ "
                       "&& quoted_literal_of(final(state).out@.skip(old(state).out@.len() as int), str@)")],
             loops=[dict(invariant_except_break=[("decoded_so_far_plus_rest", "decoded(w) + str@ =~= str0")],
                         invariant=[("written_is_quote_then_w", "state.out@ =~= old(state).out@ + seq!['\"'] + w"), ("w_is_valid", "valid_body(w)")],
                         ensures=[("all_written", "decoded(w) =~= str0")],
                         decreases="str@.len()")],
             hints=[("body_start", None, 'let ghost str0 = str@; let ghost mut w = Seq::<char>::empty(); proof { reveal_strlit("\\""); }'),
                    ("loop_body_start", 0, 'proof { reveal_strlit("\\""); reveal_strlit("\\\\b"); reveal_strlit("\\\\n"); reveal_strlit("\\\\f"); reveal_strlit("\\\\r"); reveal_strlit("\\\\\\""); reveal_strlit("\\\\\\\\"); }'),
                    ("before", "let (without_escaping, rest)", 'proof {\n                let s = str@;\n                lemma_boundary_unique(s, i as int);\n                let k = choose|k: int| boundary(s, i as int, k) && k < s.len();\n                assert(boundary(s, i as int, k));\n            }' + "\nlet ghost out0 = state.out@;"),
                    ("after", "state.write(without_escaping)?;", "let ghost out1 = state.out@;"),
                    ("before", "str = str_slice_from", "proof {\n                let s = str@;\n                let k = choose|k: int| boundary(s, i as int, k) && k < s.len();\n                let x = s.take(k); let c = s[k];\n                let esc = state.out@.skip(out1.len() as int);\n                assert(out1 =~= out0 + x); assert(state.out@ =~= out1 + esc);\n                assert(rest@ =~= s.skip(k)); assert(rest@[0] == c); assert(rest@.skip(1) =~= s.skip(k + 1));\n                assert forall|j: int| 0 <= j < x.len() implies plain_string_char(#[trigger] x[j]) by { assert(x[j] == s[j]); }\n                lemma_plain(x);\n                assert((c as u32) < 0x80);\n                lemma_simple_escapes(); lemma_u00(c);\n                let byte = c as u8;\n                assert(esc.len() == 2 || esc =~= seq!['\\\\', 'u', '0', '0', hex_upper(byte as int / 16), hex_upper(byte as int % 16)]);\n                if esc.len() == 2 { assert(esc =~= seq![esc[0], esc[1]]); assert(esc[0] == '\\\\'); assert(simple_escape(esc[1]) == Some(c)); }\n                assert(unit_ok(esc, c));\n                lemma_valid_concat(w, x); lemma_decoded_concat(w, x);\n                lemma_valid_concat(w + x, esc); lemma_decoded_concat(w + x, esc);\n                assert(s =~= x + seq![c] + s.skip(k + 1));\n                w = w + x + esc;\n                assert(boundary(rest@, 1, 1)) by { reveal_with_fuel(byte_off, 2); } lemma_boundary_unique(rest@, 1);\n            }"),
                    ("before", "state.write(str)?;", 'proof {\n                let x = str@;\n                assert forall|j: int| 0 <= j < x.len() implies plain_string_char(#[trigger] x[j]) by { }\n                lemma_plain(x); lemma_valid_concat(w, x); lemma_decoded_concat(w, x);\n            }'),
                    ("after", "state.write(str)?;", "proof { w = w + str@; }"),
                    ("before", 'state.write("\\"")\n', 'proof { reveal_strlit("\\"");\n        let o = old(state).out@; let t = seq![\'"\'] + w + seq![\'"\'];\n        assert(t.subrange(1, t.len() - 1) =~= w); assert((o + t).skip(o.len() as int) =~= t); assert((o + t).take(o.len() as int) =~= o);\n        assert(state.out@ + seq![\'"\'] =~= o + t); assert("\\""@ =~= seq![\'"\']); assert(t[0] == \'"\' && t.last() == \'"\'); assert(quoted_literal_of(t, str0)); }')]),
    ],
}
