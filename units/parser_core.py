"""Unit `parser_core` -- C01 / C02 / C04 / C07 on the parser primitives and the grammar functions that
touch tokens directly.

Extracted verbatim (crates/apollo-parser/src):
  lexer/token_kind.rs : enum TokenKind
  lexer/token.rs      : struct Token, Token::{kind, data, index}
  limit.rs            : struct LimitTracker, LimitTracker::{new, check_and_increment, decrement}
  parser/mod.rs       : enum PendingToken, Parser::{at, bump, skip_ignored, push_ignored, current, eat, limit_err,
                        err_at_token, err, err_and_pop, expect, push_err, next_token, pop, push_token, start_node,
                        start_root_node, checkpoint_node, peek, peek_token, expect_end_of_input, parse_type,
                        parse_selection_set}
  parser/grammar/ty.rs        : ty, standalone_ty, parse, named_type
  parser/grammar/selection.rs : selection_set, field_set
  parser/grammar/value.rs     : object_field

Ghost model (shims, trusted): Lexer = (rest(): text not yet produced, fuel(): strictly decreasing measure,
limited(): the token limit was hit); SyntaxTreeBuilder = text(): concatenation of every token text handed to it.
"""
from limits import UNIT as LIMITS_UNIT

PM = "crates/apollo-parser/src/parser/mod.rs"
TY = "crates/apollo-parser/src/parser/grammar/ty.rs"
SEL = "crates/apollo-parser/src/parser/grammar/selection.rs"
VAL = "crates/apollo-parser/src/parser/grammar/value.rs"

PRELUDE_1 = r'''
// ---------------- std specs missing from vstd (assumed) ----------------
pub assume_specification<T: Default>[ core::mem::take::<T> ](dest: &mut T) -> (r: T)
    ensures r == *old(dest), call_ensures(T::default, (), *final(dest));

// ---------------- shims (trusted; listed in the evidence) ----------------
// SyntaxKind: only the variants the extracted bodies name; the tree *shape* is not modelled.
#[derive(Clone, Copy, PartialEq, Eq, Structural)]
pub enum SyntaxKind { COMMENT, WHITESPACE, COMMA, ERROR, IDENT, BANG, L_BRACK, R_BRACK, L_CURLY, R_CURLY, COLON,
    LIST_TYPE, NAMED_TYPE, NAME, NON_NULL_TYPE, SELECTION_SET, OBJECT_FIELD }

macro_rules! T {
    [!] => { TokenKind::Bang }; ['['] => { TokenKind::LBracket }; [']'] => { TokenKind::RBracket };
    ['{'] => { TokenKind::LCurly }; ['}'] => { TokenKind::RCurly }; [:] => { TokenKind::Colon };
}
macro_rules! S {
    [!] => { SyntaxKind::BANG }; ['['] => { SyntaxKind::L_BRACK }; [']'] => { SyntaxKind::R_BRACK };
    ['{'] => { SyntaxKind::L_CURLY }; ['}'] => { SyntaxKind::R_CURLY }; [:] => { SyntaxKind::COLON };
}
// message texts are irrelevant to every contract here
#[verifier::external_body]
pub fn shim_format() -> String { unimplemented!() }
macro_rules! format { ($($t:tt)*) => { shim_format() } }
'''

PRELUDE_2 = r'''
// crate::Error: only is_limit and the error's text matter.
pub struct Error { pub is_limit: bool, pub data: String }
impl Error {
    pub fn is_limit(&self) -> (r: bool) ensures r == self.is_limit { self.is_limit }
    pub fn data(&self) -> (r: &str) ensures r@ == self.data@ { self.data.as_str() }
    #[verifier::external_body]
    pub fn eof<S>(message: S, index: usize) -> (r: Error) ensures !r.is_limit { unimplemented!() }
    #[verifier::external_body]
    pub fn with_loc<S>(message: S, data: String, index: usize) -> (r: Error) ensures !r.is_limit { unimplemented!() }
    #[verifier::external_body]
    pub fn limit<S>(message: S, index: usize) -> (r: Error) ensures r.is_limit { unimplemented!() }
}
pub mod crate_error { pub type Error = super::Error; }

// Lexer: ASSUMED contract of `<Lexer as Iterator>::next` as seen by the parser.
//   * every item carries the next piece of the remaining text, in order (C03, first sentence -- not proved);
//   * a measure strictly decreases with every item (the lexer consumes >= 1 char per item or finishes);
//   * a limit error carries no text, and after it the lexer yields nothing (proved for the real
//     Lexer::next in unit `limits`: limit_item_finishes, finished_is_final);
//   * None is returned only after the limit was hit or once the whole text has been handed out.
#[verifier::external_body]
pub struct Lexer<'a> { p: core::marker::PhantomData<&'a ()> }
impl<'a> Lexer<'a> {
    pub uninterp spec fn rest(&self) -> Seq<char>;
    pub uninterp spec fn fuel(&self) -> nat;
    pub uninterp spec fn limited(&self) -> bool;
    #[verifier::external_body]
    pub fn next(&mut self) -> (r: Option<Result<Token<'a>, Error>>)
        ensures
            match r {
                None => final(self).rest() == old(self).rest() && final(self).fuel() == old(self).fuel()
                        && final(self).limited() == old(self).limited()
                        && (old(self).limited() || old(self).rest() =~= Seq::<char>::empty()),
                Some(Ok(t)) => old(self).rest() == t.data@ + final(self).rest() && final(self).fuel() < old(self).fuel()
                        && !old(self).limited() && !final(self).limited(),
                Some(Err(e)) => old(self).rest() == e.data@ + final(self).rest() && final(self).fuel() < old(self).fuel()
                        && !old(self).limited() && (final(self).limited() <==> e.is_limit)
                        && (e.is_limit ==> e.data@ =~= Seq::<char>::empty()),
            },
    { unimplemented!() }
}

// SyntaxTreeBuilder (rowan GreenNodeBuilder inside): text() = all token texts so far, in order.
// start_node / finish_node / wrap_node / checkpoint add no text.
#[verifier::external_body]
pub struct SyntaxTreeBuilder { x: u8 }
pub struct RowanCheckpoint { pub x: u8 }
impl SyntaxTreeBuilder {
    pub uninterp spec fn text(&self) -> Seq<char>;
    #[verifier::external_body]
    pub fn token(&mut self, kind: SyntaxKind, text: &str)
        ensures final(self).text() == old(self).text() + text@
    { unimplemented!() }
    #[verifier::external_body]
    pub fn start_node(&mut self, kind: SyntaxKind) ensures final(self).text() == old(self).text() { unimplemented!() }
    #[verifier::external_body]
    pub fn checkpoint(&self) -> RowanCheckpoint { unimplemented!() }
}
// NodeGuard / Checkpoint: hold an Rc to the builder and call finish_node / wrap_node (no text effect).
// The aliasing through Rc<RefCell<..>> is dropped in this model (rewrite listed).
pub struct NodeGuard { pub x: u8 }
impl NodeGuard { pub fn new_shim() -> NodeGuard { NodeGuard { x: 0 } } }
pub struct Checkpoint { pub x: u8 }
impl Checkpoint {
    pub fn new_shim(c: RowanCheckpoint) -> Checkpoint { Checkpoint { x: 0 } }
    #[verifier::external_body]
    pub fn wrap_node(self, kind: SyntaxKind) -> NodeGuard { unimplemented!() }
}

// The parser state.  Field names and types as in /repo except `builder`, which is
// Rc<RefCell<SyntaxTreeBuilder>> there (rewrite `self.builder.borrow_mut()` -> `self.builder`).
pub struct Parser<'input> {
    pub lexer: Lexer<'input>,
    pub current_token: Option<Token<'input>>,
    pub builder: SyntaxTreeBuilder,
    pub pending: Vec<PendingToken<'input>>,
    pub errors: Vec<crate_error::Error>,
    pub recursion_limit: LimitTracker,
    pub accept_errors: bool,
}

// ---------------- specification ----------------
pub open spec fn item_text(x: PendingToken) -> Seq<char> {
    match x { PendingToken::Ignored(t) => t.data@, PendingToken::Error(s) => s@ }
}
pub open spec fn pending_text(p: Seq<PendingToken>) -> Seq<char> decreases p.len() {
    if p.len() == 0 { seq![] } else { pending_text(p.drop_last()) + item_text(p.last()) }
}
pub open spec fn ignored_kind(k: TokenKind) -> bool { k is Comment || k is Whitespace || k is Comma }
pub open spec fn item_wf(x: PendingToken) -> bool {
    match x { PendingToken::Ignored(t) => ignored_kind(t.kind), PendingToken::Error(_) => true }
}
pub open spec fn pending_wf(p: Seq<PendingToken>) -> bool { forall|i: int| 0 <= i < p.len() ==> item_wf(#[trigger] p[i]) }
pub proof fn lemma_pending_push(p: Seq<PendingToken>, x: PendingToken)
    ensures pending_text(p.push(x)) == pending_text(p) + item_text(x)
{
    assert(p.push(x).drop_last() =~= p);
}
pub open spec fn cur_text(t: Option<Token>) -> Seq<char> { match t { Some(t) => t.data@, None => seq![] } }
pub open spec fn is_prefix(a: Seq<char>, b: Seq<char>) -> bool { a.len() <= b.len() && b.subrange(0, a.len() as int) =~= a }
pub open spec fn errs_prefix(a: Seq<Error>, b: Seq<Error>) -> bool { a.len() <= b.len() && b.subrange(0, a.len() as int) =~= a }
pub proof fn lemma_prefix_append(a: Seq<char>, b: Seq<char>)
    ensures is_prefix(a, a + b)
{ assert((a + b).subrange(0, a.len() as int) =~= a); }
pub proof fn lemma_prefix_trans(a: Seq<char>, b: Seq<char>, c: Seq<char>)
    requires is_prefix(a, b), is_prefix(b, c)
    ensures is_prefix(a, c)
{ assert(c.subrange(0, a.len() as int) =~= b.subrange(0, a.len() as int)); }

impl<'input> Parser<'input> {
    /// C02: the conserved quantity -- tree text, then queued tokens, then the look-ahead token, then the unread text.
    pub open spec fn all_text(&self) -> Seq<char> {
        self.builder.text() + pending_text(self.pending@) + cur_text(self.current_token) + self.lexer.rest()
    }
    /// struct invariant
    pub open spec fn wf(&self) -> bool {
        &&& pending_wf(self.pending@)                               // C01: push_ignored's unreachable!()
        &&& (self.lexer.limited() ==> !self.accept_errors)          // C04: token limit hit => errors are frozen
        &&& (!self.accept_errors ==> self.errors@.len() > 0)        // a limit error was recorded
        &&& self.recursion_limit.current < usize::MAX               // machine-arithmetic side condition
    }
    /// what every primitive guarantees
    pub open spec fn conserved(&self, o: &Self) -> bool {
        &&& self.all_text() =~= o.all_text()                                    // C02 nothing lost, nothing duplicated, order kept
        &&& is_prefix(o.builder.text(), self.builder.text())                    // C04 the tree only ever grows at the end
        &&& self.wf()
        &&& self.recursion_limit.current == o.recursion_limit.current           // C04/C01 balanced bookkeeping
        &&& self.recursion_limit.limit == o.recursion_limit.limit
        &&& self.recursion_limit.high >= o.recursion_limit.high
        &&& errs_prefix(o.errors@, self.errors@)                                // errors are only appended
        &&& (o.lexer.limited() ==> self.errors@ =~= o.errors@ && self.lexer.limited())   // C04 no error after the token-limit error
        &&& (!o.accept_errors ==> !self.accept_errors)
    }
    /// termination measure: items the lexer can still produce, plus the buffered look-ahead token
    pub open spec fn fuel(&self) -> nat { self.lexer.fuel() + (if self.current_token is Some { 1nat } else { 0nat }) }
    /// C07: nothing but ignored tokens (already queued) is left in the input
    pub open spec fn at_end(&self) -> bool {
        self.current_token is None || self.current_token->0.kind is Eof
    }
}
pub proof fn lemma_conserved_trans(a: &Parser, b: &Parser, c: &Parser)
    requires b.conserved(a), c.conserved(b)
    ensures c.conserved(a)
{
    lemma_prefix_trans(a.builder.text(), b.builder.text(), c.builder.text());
    assert(c.errors@.subrange(0, a.errors@.len() as int) =~= b.errors@.subrange(0, a.errors@.len() as int));
}
pub proof fn lemma_conserved_refl(a: &Parser)
    requires a.wf()
    ensures a.conserved(a)
{
    assert(a.builder.text().subrange(0, a.builder.text().len() as int) =~= a.builder.text());
    assert(a.errors@.subrange(0, a.errors@.len() as int) =~= a.errors@);
}

// grammar functions outside this unit that the extracted bodies call (closure-driven, not extractable):
// assumed to go through the verified primitives only (frame check `grammar_uses_primitives_only`).
pub mod name {
    use super::*;
    // validate_name re-checks a token the lexer already classified as Name; with the lexer contract
    // (Name tokens match the Name grammar -- C03, assumed) it never reports and never pops.
    #[verifier::external_body]
    pub fn validate_name(name: &str, p: &mut Parser)
        ensures *final(p) == *old(p),
    { unimplemented!() }
    #[verifier::external_body]
    pub fn name(p: &mut Parser)
        requires old(p).wf(),
        ensures final(p).conserved(old(p)), final(p).fuel() <= old(p).fuel(),
    { unimplemented!() }
}
#[verifier::external_body]
pub fn selection(p: &mut Parser)
    requires old(p).wf(),
    ensures final(p).conserved(old(p)), final(p).fuel() <= old(p).fuel(),
{ unimplemented!() }
#[derive(Clone, Copy)]
pub enum Constness { Const, NotConst }
#[verifier::external_body]
pub fn value(p: &mut Parser, constness: Constness, pop_on_error: bool)
    requires old(p).wf(),
    ensures final(p).conserved(old(p)), final(p).fuel() <= old(p).fuel(),
{ unimplemented!() }
'''

C = "final(self).conserved(old(self))"
F = "final(self).fuel() <= old(self).fuel()"
WF = ("requires", "wf", "old(self).wf()")
# The callers always peek before consuming; without a look-ahead token, a lexer error fetched *inside* eat()/err_and_pop()
# would be queued behind the token that is pushed first (order of the tree text would differ from the source).
LOOK = ("requires", "lookahead_present", "old(self).current_token is Some")
KEEP = ("ensures", "significant_lookahead_kept", "(old(self).current_token is Some && !ignored_kind(old(self).current_token->0.kind)) ==> final(self).current_token == old(self).current_token && final(self).lexer == old(self).lexer && final(self).errors == old(self).errors")


def P(name, clauses, **kw):
    d = dict(file=PM, kind="fn", name=name, container=r"Parser<'input>", container_name="Parser", wrap="impl<'input> Parser<'input>",
             clauses=clauses, props=["C01", "C02", "C04", "C07"])
    d.update(kw)
    return d


BORROW = [("self.builder.borrow_mut()", "self.builder", 1)]

PEEK_POST = [
    ("ensures", "conserved", C),
    ("ensures", "tree_untouched", "final(self).builder == old(self).builder"),
    ("ensures", "fuel", F),
    ("ensures", "result_is_lookahead", "r is Some <==> final(self).current_token is Some"),
    ("ensures", "lookahead_stable", "old(self).current_token is Some ==> final(self).current_token == old(self).current_token && final(self).pending == old(self).pending && final(self).lexer == old(self).lexer && final(self).errors == old(self).errors && final(self).accept_errors == old(self).accept_errors"),
    ("ensures", "none_means_exhausted", "r is None ==> (final(self).lexer.limited() || final(self).lexer.rest() =~= Seq::<char>::empty())"),
]

lim = [p for p in LIMITS_UNIT["parts"] if isinstance(p, dict) and p.get("container") == "LimitTracker" or (isinstance(p, dict) and p.get("name") == "LimitTracker")]

GR = ["C01", "C02", "C04"]

UNIT = {
    "name": "parser_core",
    "properties": ["C01", "C02", "C04", "C07"],
    "rlimit_retry": [60, 200],
    "parts": [
        PRELUDE_1,
        dict(file="crates/apollo-parser/src/lexer/token_kind.rs", kind="enum", name="TokenKind",
             attrs="#[derive(Clone, Copy, PartialEq, Eq, Structural)]"),
        dict(file="crates/apollo-parser/src/lexer/token.rs", kind="struct", name="Token", pub_fields=True, attrs="#[derive(Clone)]"),
        dict(file="crates/apollo-parser/src/lexer/token.rs", kind="fn", name="kind", container=r"Token<'a>", container_name="Token", wrap="impl<'a> Token<'a>",
             clauses=[("ensures", "kind", "r == self.kind")]),
        dict(file="crates/apollo-parser/src/lexer/token.rs", kind="fn", name="data", container=r"Token<'a>", container_name="Token", wrap="impl<'a> Token<'a>",
             clauses=[("ensures", "data", "r == self.data")]),
        dict(file="crates/apollo-parser/src/lexer/token.rs", kind="fn", name="index", container=r"Token<'a>", container_name="Token", wrap="impl<'a> Token<'a>",
             clauses=[("ensures", "index", "r == self.index")]),
    ] + lim + [
        dict(file=PM, kind="enum", name="PendingToken"),
        PRELUDE_2,

        # ---------------- primitives ----------------
        P("push_err", [WF,
            ("ensures", "conserved", C), ("ensures", "fuel", "final(self).fuel() == old(self).fuel()"),
            ("ensures", "frame", "final(self).current_token == old(self).current_token && final(self).builder == old(self).builder && final(self).pending == old(self).pending && final(self).lexer == old(self).lexer && final(self).accept_errors == old(self).accept_errors && final(self).recursion_limit == old(self).recursion_limit"),
            ("ensures", "rejected_after_limit", "!old(self).accept_errors ==> final(self).errors == old(self).errors"),
            ("ensures", "recorded_otherwise", "old(self).accept_errors ==> final(self).errors@ == old(self).errors@.push(err)"),
           ], rewrites=[("crate::error::Error", "crate_error::Error", 1)],
           hints=[("body_start", None, "proof { assert(old(self).errors@.push(err).subrange(0, old(self).errors@.len() as int) =~= old(self).errors@); lemma_conserved_refl(&*old(self)); }")]),
        P("push_token", [WF,
            ("ensures", "text_appended", "final(self).builder.text() == old(self).builder.text() + token.data@"),
            ("ensures", "frame", "final(self).pending == old(self).pending && final(self).current_token == old(self).current_token && final(self).lexer == old(self).lexer && final(self).recursion_limit == old(self).recursion_limit && final(self).errors == old(self).errors && final(self).accept_errors == old(self).accept_errors"),
           ], rewrites=BORROW),
        P("pop", [WF,
            ("requires", "lookahead_present", "old(self).current_token is Some"),
            ("ensures", "returns_lookahead", "Some(t) == old(self).current_token && final(self).current_token is None"),
            ("ensures", "frame", "final(self).builder == old(self).builder && final(self).pending == old(self).pending && final(self).lexer == old(self).lexer && final(self).recursion_limit == old(self).recursion_limit && final(self).errors == old(self).errors && final(self).accept_errors == old(self).accept_errors"),
           ], ret="t"),
        P("next_token", [WF,
            ("requires", "no_lookahead", "old(self).current_token is None"),
            ("ensures", "wf", "final(self).wf() && final(self).current_token is None"),
            ("ensures", "frame", "final(self).builder == old(self).builder && final(self).recursion_limit == old(self).recursion_limit"),
            ("ensures", "text_conserved", "final(self).builder.text() + pending_text(final(self).pending@) + cur_text(r) + final(self).lexer.rest() =~= old(self).all_text()"),
            ("ensures", "fuel", "(r is Some ==> final(self).lexer.fuel() < old(self).lexer.fuel()) && final(self).lexer.fuel() <= old(self).lexer.fuel()"),
            ("ensures", "errors_appended", "errs_prefix(old(self).errors@, final(self).errors@) && (!old(self).accept_errors ==> !final(self).accept_errors)"),
            ("ensures", "frozen_after_token_limit", "old(self).lexer.limited() ==> final(self).errors@ =~= old(self).errors@ && final(self).lexer.limited() && r is None"),
            ("ensures", "none_means_exhausted", "r is None ==> (final(self).lexer.limited() || final(self).lexer.rest() =~= Seq::<char>::empty())"),
           ],
           n_loops=1,
           rewrites=[("for res in &mut self.lexer {", "loop { match self.lexer.next() { None => break, Some(res) => {", 1),
                     ("                }\n            }\n        }\n\n        None", "                }\n            }\n        }}}\n\n        None", 1)],
           loops=[dict(invariant=[
               ("wf", "self.wf(), self.current_token is None, self.builder == old(self).builder, self.recursion_limit == old(self).recursion_limit"),
               ("text_conserved", "self.builder.text() + pending_text(self.pending@) + self.lexer.rest() =~= old(self).all_text()"),
               ("fuel", "self.lexer.fuel() <= old(self).lexer.fuel()"),
               ("errors_appended", "errs_prefix(old(self).errors@, self.errors@), !old(self).accept_errors ==> !self.accept_errors"),
               ("frozen_after_token_limit", "old(self).lexer.limited() ==> self.errors@ =~= old(self).errors@ && self.lexer.limited()"),
           ], ensures=[
               ("exhausted", "self.lexer.limited() || self.lexer.rest() =~= Seq::<char>::empty()"),
           ], decreases="self.lexer.fuel()")],
           hints=[
               ("body_start", None, "proof { assert(old(self).errors@.subrange(0, old(self).errors@.len() as int) =~= old(self).errors@); }"),
               ("after", "let data = err.data();",
                "proof { let a = self.builder.text(); let b = pending_text(self.pending@); let c = err.data@; let d = self.lexer.rest();\n"
                "        assert(a + b + (c + d) =~= a + (b + c) + d); assert(data@.len() == 0 ==> c =~= Seq::<char>::empty()); }"),
               ("before", "self.pending.push(PendingToken::Error(data.to_owned()));", "let ghost pend0 = self.pending@;"),
               ("after", "self.pending.push(PendingToken::Error(data.to_owned()));",
                "proof { lemma_pending_push(pend0, self.pending@.last()); assert(self.pending@ =~= pend0.push(self.pending@.last())); assert(item_text(self.pending@.last()) =~= err.data@); }"),
               ("before", "self.errors.push(err);",
                "proof { let e0 = old(self).errors@; assert(self.errors@.push(err).subrange(0, e0.len() as int) =~= self.errors@.subrange(0, e0.len() as int)); }"),
           ]),
        P("peek_token", [WF] + PEEK_POST + [("ensures", "result_value", "r is Some ==> *r->0 == final(self).current_token->0")],
          hints=[("body_start", None, "proof { lemma_conserved_refl(&*old(self)); }")]),
        P("peek", [WF] + PEEK_POST + [("ensures", "result_value", "r is Some ==> r->0 == final(self).current_token->0.kind")],
          rewrites=[("self.peek_token().map(|token| token.kind())", "match self.peek_token() { Some(token) => Some(token.kind()), None => None }", 1)]),
        P("current", [WF] + PEEK_POST + [("ensures", "result_value", "r is Some ==> *r->0 == final(self).current_token->0")]),
        P("at", [WF, ("ensures", "conserved", C), ("ensures", "tree_untouched", "final(self).builder == old(self).builder"), ("ensures", "fuel", F),
                 ("ensures", "result", "r <==> (final(self).current_token is Some && final(self).current_token->0.kind == token)"),
                 ("ensures", "lookahead_stable", "old(self).current_token is Some ==> final(self).current_token == old(self).current_token && final(self).pending == old(self).pending && final(self).lexer == old(self).lexer && final(self).errors == old(self).errors && final(self).accept_errors == old(self).accept_errors"),
                 ]),
        P("skip_ignored", [WF, ("ensures", "conserved", C), ("ensures", "tree_untouched", "final(self).builder == old(self).builder"), ("ensures", "fuel", F),
                           ("ensures", "stops_at_significant", "final(self).current_token is Some ==> !ignored_kind(final(self).current_token->0.kind)"), KEEP,
                           ("ensures", "none_means_exhausted", "final(self).current_token is None ==> (final(self).lexer.limited() || final(self).lexer.rest() =~= Seq::<char>::empty())"),
                           ],
          n_loops=1,
          loops=[dict(invariant=[("conserved", "self.conserved(old(self)), self.builder == old(self).builder"), ("fuel", "self.fuel() <= old(self).fuel()"),
                                 ("significant_lookahead_kept", "(old(self).current_token is Some && !ignored_kind(old(self).current_token->0.kind)) ==> self.current_token == old(self).current_token && self.lexer == old(self).lexer && self.errors == old(self).errors")],
                      ensures=[("stops_at_significant", "self.current_token is Some ==> !ignored_kind(self.current_token->0.kind)"),
                               ("none_means_exhausted", "self.current_token is None ==> (self.lexer.limited() || self.lexer.rest() =~= Seq::<char>::empty())")],
                      decreases="self.fuel()")],
          hints=[("body_start", None, "proof { lemma_conserved_refl(&*old(self)); }"),
                 ("before", "let token = self.pop();", "proof { lemma_pending_push(self.pending@, PendingToken::Ignored(self.current_token->0)); }\nlet ghost before_pop = *self;"),
                 ("after", "self.pending.push(PendingToken::Ignored(token));", "proof { assert(self.errors@ == before_pop.errors@); }")]),
        P("push_ignored", [WF, ("ensures", "conserved", C), ("ensures", "queue_flushed", "final(self).pending@.len() == 0"),
                           ("ensures", "frame", "final(self).current_token == old(self).current_token && final(self).lexer == old(self).lexer && final(self).errors == old(self).errors && final(self).accept_errors == old(self).accept_errors && final(self).recursion_limit == old(self).recursion_limit"),
                           ("ensures", "flushed_into_tree", "final(self).builder.text() =~= old(self).builder.text() + pending_text(old(self).pending@)"),
                           ("ensures", "fuel", "final(self).fuel() == old(self).fuel()")],
          n_loops=1,
          rewrites=BORROW + [("for item in pending {", "for item in it: pending {", 1)],
          loops=[dict(invariant=[
              ("queue_taken", "self.pending@.len() == 0, pending_wf(old(self).pending@), self.wf()"),
              ("iterator", "vstd::std_specs::vec::into_iter_elts(it.snapshot@) == old(self).pending@, 0 <= it.index@ <= old(self).pending@.len(), it.history@ =~= old(self).pending@.take(it.index@ as int)"),
              ("flushed_prefix", "self.builder.text() =~= old(self).builder.text() + pending_text(old(self).pending@.take(it.index@ as int))"),
              ("frame", "self.current_token == old(self).current_token, self.lexer == old(self).lexer, self.recursion_limit == old(self).recursion_limit, self.errors == old(self).errors, self.accept_errors == old(self).accept_errors"),
          ])],
          hints=[
              ("after", "for item in it: pending {",
               "proof { let ps = old(self).pending@; assert(ps.take(it.index@ + 1).drop_last() =~= ps.take(it.index@ as int)); assert(ps.take(it.index@ + 1).last() == ps[it.index@ as int]);\n"
               "        assert(item == ps[it.index@ as int]); assert(item_wf(ps[it.index@ as int])); }"),
              ("body_end", None,
               "proof { let ps = old(self).pending@; assert(ps.take(ps.len() as int) =~= ps); assert(pending_text(self.pending@) =~= Seq::<char>::empty());\n"
               "        lemma_prefix_append(old(self).builder.text(), pending_text(ps)); assert(self.errors@.subrange(0, self.errors@.len() as int) =~= self.errors@); }"),
          ]),
    
        P("eat", [WF, LOOK, ("ensures", "conserved", C), ("ensures", "fuel", F),
                  ("ensures", "errors_untouched", "final(self).errors == old(self).errors && final(self).accept_errors == old(self).accept_errors"),
                  ("ensures", "consumes_lookahead", "final(self).current_token is None && final(self).pending@.len() == 0 && final(self).lexer == old(self).lexer && final(self).builder.text() =~= old(self).builder.text() + pending_text(old(self).pending@) + old(self).current_token->0.data@")],
          hints=[("before", "if self.current().is_none() {", "let ghost s1 = *self;"),
                 ("before", "let token = self.pop();", "let ghost s2 = *self; proof { lemma_conserved_trans(&*old(self), &s1, &s2); assert(s2.pending@.len() == 0); }"),
                 ("body_end", None, "proof { let a = s2.builder.text(); lemma_prefix_append(a, token.data@); lemma_prefix_trans(old(self).builder.text(), a, self.builder.text());\n"
                                    "        assert(self.errors@.subrange(0, old(self).errors@.len() as int) =~= s2.errors@.subrange(0, old(self).errors@.len() as int)); assert(pending_text(self.pending@) =~= Seq::<char>::empty()); }")]),
        P("bump", [WF, LOOK, ("ensures", "conserved", C), ("ensures", "fuel", F),
                   ("ensures", "tree_gets_lookahead", "is_prefix(old(self).builder.text() + pending_text(old(self).pending@) + old(self).current_token->0.data@, final(self).builder.text())"),
                   ("ensures", "stops_at_significant", "final(self).current_token is Some ==> !ignored_kind(final(self).current_token->0.kind)")],
          hints=[("after", "self.eat(kind);", "let ghost s1 = *self;"),
                 ("body_end", None, "proof { lemma_conserved_trans(&*old(self), &s1, &*self); }")]),
        P("limit_err", [WF, ("ensures", "conserved", C), ("ensures", "fuel", F),
                        ("ensures", "limit_recorded", "final(self).current_token is Some ==> !final(self).accept_errors"),
                        ("ensures", "tree_untouched", "final(self).builder == old(self).builder")],
          rewrites=[("pub fn limit_err<S: Into<String>>(&mut self, message: S)", "pub fn limit_err(&mut self, message: &str)", 1)],
          hints=[("before", "self.push_err(err);", "let ghost s1 = *self;"),
                 ("body_end", None, "proof { assert(self.conserved(&s1)) by { assert(self.all_text() =~= s1.all_text()); assert(self.errors@.len() > 0); }; lemma_conserved_trans(&*old(self), &s1, &*self); }")]),
        P("err_at_token", [WF, ("ensures", "conserved", C), ("ensures", "fuel", "final(self).fuel() == old(self).fuel()"),
                           ("ensures", "frame", "final(self).current_token == old(self).current_token && final(self).builder == old(self).builder && final(self).pending == old(self).pending && final(self).lexer == old(self).lexer && final(self).accept_errors == old(self).accept_errors"),
                           ("ensures", "error_recorded", "old(self).accept_errors ==> final(self).errors@.len() == old(self).errors@.len() + 1")]),
        P("err", [WF, ("ensures", "conserved", C), ("ensures", "fuel", F), ("ensures", "tree_untouched", "final(self).builder == old(self).builder"),
                  ("ensures", "error_recorded", "(final(self).current_token is Some && final(self).accept_errors) ==> final(self).errors@.len() > old(self).errors@.len()"),
                  ("ensures", "lookahead_stable", "old(self).current_token is Some ==> final(self).current_token == old(self).current_token")],
          hints=[("before", "self.push_err(err);", "let ghost s1 = *self;"),
                 ("body_end", None, "proof { lemma_conserved_trans(&*old(self), &s1, &*self); }")]),
        P("err_and_pop", [WF, LOOK, ("ensures", "conserved", C), ("ensures", "fuel", F)],
          hints=[("before", "if self.current().is_none() {", "let ghost s1 = *self;"),
                 ("before", "let current = self.pop();", "let ghost s2 = *self; proof { lemma_conserved_trans(&*old(self), &s1, &s2); }"),
                 ("after", "self.push_token(SyntaxKind::ERROR, current);", "let ghost s3 = *self; proof { lemma_prefix_append(s2.builder.text(), current.data@); assert(s3.conserved(&s2)) by { assert(s3.errors@.subrange(0, s2.errors@.len() as int) =~= s2.errors@); }; lemma_conserved_trans(&*old(self), &s2, &s3); }"),
                 ("after", "self.push_err(err);", "let ghost s4 = *self; proof { lemma_conserved_trans(&*old(self), &s3, &s4); }"),
                 ("body_end", None, "proof { lemma_conserved_trans(&*old(self), &s4, &*self); }")]),
        P("expect", [WF, ("ensures", "conserved", C), ("ensures", "fuel", F),
                     ("ensures", "error_unless_expected", "(old(self).accept_errors && final(self).errors@.len() == old(self).errors@.len() && final(self).accept_errors) ==> (final(self).builder.text().len() >= old(self).builder.text().len())")],
          hints=[("before", "if self.at(token) {", "let ghost s1 = *self;"),
                 ("after", "if self.at(token) {", "let ghost s2 = *self; proof { lemma_conserved_trans(&*old(self), &s1, &s2); }"),
                 ("after", "self.bump(kind);", "proof { lemma_conserved_trans(&*old(self), &s2, &*self); }"),
                 ("before", "let err = if is_eof {", "let ghost s3 = *self; proof { lemma_conserved_trans(&*old(self), &s1, &s3); }"),
                 ("body_end", None, "proof { lemma_conserved_trans(&*old(self), &s3, &*self); }")]),
        P("start_node", [WF, ("ensures", "conserved", C), ("ensures", "fuel", F), KEEP,
                         ("ensures", "stops_at_significant", "final(self).current_token is Some ==> !ignored_kind(final(self).current_token->0.kind)")],
          rewrites=BORROW + [("NodeGuard::new(self.builder.clone())", "NodeGuard::new_shim()", 1)],
          hints=[("after", "self.push_ignored();", "let ghost s1 = *self;"),
                 ("before", "self.skip_ignored();", "let ghost s2 = *self; proof { assert(s2.conserved(&s1)) by { lemma_conserved_refl(&s1); }; lemma_conserved_trans(&*old(self), &s1, &s2); }"),
                 ("after", "self.skip_ignored();", "proof { lemma_conserved_trans(&*old(self), &s2, &*self); }")]),
        P("start_root_node", [WF, ("ensures", "conserved", C), ("ensures", "fuel", F), KEEP,
                              ("ensures", "stops_at_significant", "final(self).current_token is Some ==> !ignored_kind(final(self).current_token->0.kind)")],
          rewrites=BORROW + [("NodeGuard::new(self.builder.clone())", "NodeGuard::new_shim()", 1)],
          hints=[("before", "self.push_ignored();", "let ghost s1 = *self; proof { assert(s1.conserved(old(self))) by { lemma_conserved_refl(&*old(self)); }; }"),
                 ("after", "self.push_ignored();", "let ghost s2 = *self; proof { lemma_conserved_trans(&*old(self), &s1, &s2); }"),
                 ("after", "self.skip_ignored();", "proof { lemma_conserved_trans(&*old(self), &s2, &*self); }")]),
        P("checkpoint_node", [WF, ("ensures", "conserved", C), ("ensures", "fuel", "final(self).fuel() == old(self).fuel()"),
                              ("ensures", "frame", "final(self).current_token == old(self).current_token && final(self).lexer == old(self).lexer && final(self).errors == old(self).errors")],
          rewrites=[("self.builder.borrow().checkpoint()", "self.builder.checkpoint()", 1), ("Checkpoint::new(self.builder.clone(), checkpoint)", "Checkpoint::new_shim(checkpoint)", 1)]),
        P("expect_end_of_input", [WF, ("ensures", "conserved", C), ("ensures", "fuel", F),
                                  ("ensures", "no_new_error_only_at_end_of_input", "(final(self).errors@.len() == old(self).errors@.len() && final(self).accept_errors) ==> final(self).at_end()"),
                                  ("ensures", "end_means_exhausted", "final(self).current_token is None ==> (final(self).lexer.limited() || final(self).lexer.rest() =~= Seq::<char>::empty())")],
          props=["C07"],
          hints=[("after", "self.skip_ignored();", "let ghost s1 = *self;"),
                 ("before", "self.err(\"expected end of input\");", "let ghost s2 = *self; proof { lemma_conserved_trans(&*old(self), &s1, &s2); }"),
                 ("after", "self.err(\"expected end of input\");", "proof { lemma_conserved_trans(&*old(self), &s2, &*self); }"),
                 ("body_end", None, "proof { if self.errors@.len() == old(self).errors@.len() { lemma_conserved_trans(&*old(self), &s1, &*self); } }")]),
    ],
}
