"""Unit `parser_core` -- C01 / C02 / C04 / C07 on the WHOLE apollo-parser parser: every parser primitive, every grammar
function, `document()` and the three entry points `Parser::parse / parse_type / parse_selection_set`.

Extracted verbatim (crates/apollo-parser/src):
  lexer/token_kind.rs              : enum TokenKind
  lexer/token.rs                   : struct Token, Token::{kind, data, index}
  limit.rs                         : struct LimitTracker, LimitTracker::{new, check_and_increment, decrement}
  parser/generated/syntax_kind.rs  : enum SyntaxKind
  parser/mod.rs                    : enum PendingToken, Parser::{new, at, bump, skip_ignored, push_ignored, current, eat, limit_err,
                                     err_at_token, err, err_and_pop, expect, push_err, next_token, pop, push_token, start_node,
                                     start_root_node, checkpoint_node, peek, peek_token, peek_data, expect_end_of_input, parse,
                                     parse_type, parse_selection_set}
  parser/grammar/*.rs              : all 66 grammar functions (name, alias, variable*, argument*, directive*, field*, selection*,
                                     fragment*, operation*, ty*, value*, description, input*, enum*, union*, interface*, object*,
                                     schema*, scalar*, extensions, select_definition, document)

Contracts: every grammar function conserves the text (C02), keeps the recursion bookkeeping balanced and never above the limit (C04),
never gains fuel (C01 termination) and, where a repetition loop depends on it, strictly consumes (`progress` clauses: what
peek_while's "iteration must advance parsing" debug assertion demands, here for every input).  The combinators peek_while /
peek_while_kind / parse_separated_list take `FnMut(&mut Parser)` closures (outside Verus): their calls are beta-reduced mechanically
into the combinator's own loop (tools/verus_unit.py inline_combinators; frame check `peek_while_is_the_plain_loop` pins the loop).
`document()` ends with the queue flushed and the input used up, so `Parser::parse` returns a tree whose text is the input.

Ghost model (shims, trusted): Lexer = (rest(): text not yet produced, fuel(): strictly decreasing measure,
limited(): the token limit was hit); SyntaxTreeBuilder = text(): concatenation of every token text handed to it.
Still assumed: the Lexer contract (proved for Cursor::advance in unit `lexer`), validate_name never fires on Name tokens,
peek_n / peek_token_n / peek_data_n (look-ahead on a clone of the lexer; results unconstrained), rowan.
"""
import re
from limits import UNIT as LIMITS_UNIT
from lexer_next import TOK_OK, NEXT_POST, NEW_POST   # the Lexer contract: PROVED for the real Lexer::next / new in unit lexer_next; assumed here (same text)

PM = "crates/apollo-parser/src/parser/mod.rs"
TY = "crates/apollo-parser/src/parser/grammar/ty.rs"
SEL = "crates/apollo-parser/src/parser/grammar/selection.rs"
VAL = "crates/apollo-parser/src/parser/grammar/value.rs"

PRELUDE_1 = r'''
pub use core::ops::ControlFlow;
// ---------------- std specs missing from vstd (assumed) ----------------
pub assume_specification<T: Default>[ core::mem::take::<T> ](dest: &mut T) -> (r: T)
    ensures r == *old(dest), call_ensures(T::default, (), *final(dest));

// ---------------- shims (trusted; listed in the evidence) ----------------
// SyntaxKind is EXTRACTED (parser/generated/syntax_kind.rs); the tree *shape* is not modelled.

macro_rules! T {
    [!] => { TokenKind::Bang }; [$] => { TokenKind::Dollar }; [&] => { TokenKind::Amp }; [...] => { TokenKind::Spread }; [,] => { TokenKind::Comma };
    [:] => { TokenKind::Colon }; [=] => { TokenKind::Eq }; [@] => { TokenKind::At }; ['('] => { TokenKind::LParen }; [')'] => { TokenKind::RParen };
    ['['] => { TokenKind::LBracket }; [']'] => { TokenKind::RBracket }; ['{'] => { TokenKind::LCurly }; ['}'] => { TokenKind::RCurly }; [|] => { TokenKind::Pipe };
    [name] => { TokenKind::Name }; [string] => { TokenKind::StringValue }; [int] => { TokenKind::Int }; [float] => { TokenKind::Float };
}
macro_rules! S {
    [!] => { SyntaxKind::BANG }; ['('] => { SyntaxKind::L_PAREN }; [')'] => { SyntaxKind::R_PAREN }; ['{'] => { SyntaxKind::L_CURLY }; ['}'] => { SyntaxKind::R_CURLY };
    ['['] => { SyntaxKind::L_BRACK }; [']'] => { SyntaxKind::R_BRACK }; [,] => { SyntaxKind::COMMA }; [@] => { SyntaxKind::AT }; [$] => { SyntaxKind::DOLLAR };
    [&] => { SyntaxKind::AMP }; [|] => { SyntaxKind::PIPE }; [...] => { SyntaxKind::SPREAD }; [=] => { SyntaxKind::EQ }; [:] => { SyntaxKind::COLON };
}
// message texts are irrelevant to every contract here
#[verifier::external_body]
pub fn shim_format() -> String { unimplemented!() }
macro_rules! format { ($($t:tt)*) => { shim_format() } }
'''

PRELUDE_2 = r'''
// crate::Error: only is_limit and the error's text matter.
pub struct Error { pub is_limit: bool, pub data: String }
impl Error {
    pub fn is_limit(&self) -> (r: bool) ensures r == self.is_limit { self.is_limit }
    pub fn data(&self) -> (r: &str) ensures r@ == self.data@ { self.data.as_str() }
    #[verifier::external_body]
    pub fn eof<S>(message: S, index: usize) -> (r: Error) ensures !r.is_limit { unimplemented!() }
    #[verifier::external_body]
    pub fn with_loc<S>(message: S, data: String, index: usize) -> (r: Error) ensures !r.is_limit { unimplemented!() }
    #[verifier::external_body]
    pub fn limit<S>(message: S, index: usize) -> (r: Error) ensures r.is_limit { unimplemented!() }
}
pub mod crate_error { pub type Error = super::Error; }

// Lexer: ASSUMED contract of `<Lexer as Iterator>::next` as seen by the parser.
//   (the three marked pieces are imported from unit `lexer_next`, where they are PROVED for the real Lexer::next / Lexer::new)
//   * every item carries the next piece of the remaining text, in order;
//   * a measure strictly decreases with every item (the lexer consumes >= 1 char per item or finishes);
//   * a limit error carries no text, and after it the lexer yields nothing (proved for the real
//     Lexer::next in unit `limits`: limit_item_finishes, finished_is_final);
//   * None is returned only after the limit was hit or after the EOF token (which comes last, when the text is used up).
@@TOK_OK@@
pub struct LexState { pub rest: Seq<char>, pub fuel: nat, pub limited: bool, pub done: bool }
pub struct Lexer<'a> { pub limit_tracker: LimitTracker, pub st: Ghost<LexState>, pub p: core::marker::PhantomData<&'a ()> }
impl<'a> Lexer<'a> {
    pub open spec fn rest(&self) -> Seq<char> { self.st@.rest }
    pub open spec fn fuel(&self) -> nat { self.st@.fuel }
    pub open spec fn limited(&self) -> bool { self.st@.limited }
    /// the EOF token has been handed out (after which the lexer yields nothing)
    pub open spec fn done(&self) -> bool { self.st@.done }
    #[verifier::external_body]
    pub fn new(input: &'a str) -> (r: Self) ensures @@NEW_POST@@ { unimplemented!() }
    #[verifier::external_body]
    pub fn with_limit(self, limit: usize) -> (r: Self) ensures r.rest() == self.rest(), r.fuel() == self.fuel(), r.limited() == self.limited(), r.done() == self.done() { unimplemented!() }
    #[verifier::external_body]
    pub fn next(&mut self) -> (r: Option<Result<Token<'a>, Error>>)
        ensures
@@NEXT_POST@@,
    { unimplemented!() }
}

// SyntaxTreeBuilder (rowan GreenNodeBuilder inside): text() = all token texts so far, in order.
// start_node / finish_node / wrap_node / checkpoint add no text.
#[verifier::external_body]
pub struct SyntaxTreeBuilder { x: u8 }
pub struct RowanCheckpoint { pub x: u8 }
pub open spec fn ignored_syntax(k: SyntaxKind) -> bool { k is COMMENT || k is WHITESPACE || k is COMMA || k is ERROR }
impl SyntaxTreeBuilder {
    pub uninterp spec fn text(&self) -> Seq<char>;
    /// kinds of the significant tokens (anything but COMMENT / WHITESPACE / COMMA / ERROR) added so far, in order
    pub uninterp spec fn sig(&self) -> Seq<SyntaxKind>;
    pub open spec fn nsig(&self) -> nat { self.sig().len() }
    #[verifier::external_body]
    pub fn token(&mut self, kind: SyntaxKind, text: &str)
        ensures final(self).text() == old(self).text() + text@,
            final(self).sig() == (if ignored_syntax(kind) { old(self).sig() } else { old(self).sig().push(kind) }),
    { unimplemented!() }
    #[verifier::external_body]
    pub fn start_node(&mut self, kind: SyntaxKind) ensures final(self).text() == old(self).text(), final(self).sig() == old(self).sig() { unimplemented!() }
    #[verifier::external_body]
    pub fn checkpoint(&self) -> RowanCheckpoint { unimplemented!() }
    // no node is open (syntax_tree.rs keeps a depth counter); the tree SHAPE is not modelled, so the answer is unconstrained:
    // both orders of "flush the queue" / "open the node" must satisfy the contracts
    #[verifier::external_body]
    pub fn is_at_root(&self) -> (r: bool) { unimplemented!() }
    #[verifier::external_body]
    pub fn new() -> (r: Self) ensures r.text() =~= Seq::<char>::empty(), r.sig() =~= Seq::<SyntaxKind>::empty() { unimplemented!() }
    // finish_*: hand the accumulated errors and limit trackers to the tree, unchanged (syntax_tree.rs; not extracted: rowan)
    #[verifier::external_body]
    pub fn finish_type(self, errors: Vec<Error>, recursion_limit: LimitTracker, token_limit: LimitTracker) -> (r: syntax_tree::SyntaxTreeWrapper)
        ensures r is Type, r->Type_0.errors == errors, r->Type_0.recursion_limit == recursion_limit, r->Type_0.token_limit == token_limit, r->Type_0.text@ == self.text() { unimplemented!() }
    #[verifier::external_body]
    pub fn finish_document(self, errors: Vec<Error>, recursion_limit: LimitTracker, token_limit: LimitTracker) -> (r: syntax_tree::SyntaxTreeWrapper)
        ensures r is Document, r->Document_0.errors == errors, r->Document_0.recursion_limit == recursion_limit, r->Document_0.token_limit == token_limit, r->Document_0.text@ == self.text() { unimplemented!() }
    #[verifier::external_body]
    pub fn finish_selection_set(self, errors: Vec<Error>, recursion_limit: LimitTracker, token_limit: LimitTracker) -> (r: syntax_tree::SyntaxTreeWrapper)
        ensures r is FieldSet, r->FieldSet_0.errors == errors, r->FieldSet_0.recursion_limit == recursion_limit, r->FieldSet_0.token_limit == token_limit, r->FieldSet_0.text@ == self.text() { unimplemented!() }
}
pub struct Type { pub x: u8 }
pub struct SelectionSet { pub x: u8 }
pub struct Document { pub x: u8 }
pub struct SyntaxTree<T> { pub errors: Vec<Error>, pub recursion_limit: LimitTracker, pub token_limit: LimitTracker, pub text: Ghost<Seq<char>>, pub t: core::marker::PhantomData<T> }
pub mod syntax_tree {
    pub enum SyntaxTreeWrapper { Document(super::SyntaxTree<super::Document>), Type(super::SyntaxTree<super::Type>), FieldSet(super::SyntaxTree<super::SelectionSet>) }
}
// NodeGuard / Checkpoint: hold an Rc to the builder and call finish_node / wrap_node (no text effect).
// The aliasing through Rc<RefCell<..>> is dropped in this model (rewrite listed).
pub struct NodeGuard { pub x: u8 }
impl NodeGuard { pub fn new_shim() -> NodeGuard { NodeGuard { x: 0 } }  pub fn finish_node(self) { } }
pub struct Checkpoint { pub x: u8 }
impl Checkpoint {
    pub fn new_shim(c: RowanCheckpoint) -> Checkpoint { Checkpoint { x: 0 } }
    #[verifier::external_body]
    pub fn wrap_node(self, kind: SyntaxKind) -> NodeGuard { unimplemented!() }
}

// The parser state.  Field names and types as in /repo except `builder`, which is
// Rc<RefCell<SyntaxTreeBuilder>> there (rewrite `self.builder.borrow_mut()` -> `self.builder`).
pub struct Parser<'input> {
    pub lexer: Lexer<'input>,
    pub current_token: Option<Token<'input>>,
    pub builder: SyntaxTreeBuilder,
    pub pending: Vec<PendingToken<'input>>,
    pub errors: Vec<crate_error::Error>,
    pub recursion_limit: LimitTracker,
    pub accept_errors: bool,
}

// ---------------- specification ----------------
pub open spec fn item_text(x: PendingToken) -> Seq<char> {
    match x { PendingToken::Ignored(t) => t.data@, PendingToken::Error(s) => s@ }
}
pub open spec fn pending_text(p: Seq<PendingToken>) -> Seq<char> decreases p.len() {
    if p.len() == 0 { seq![] } else { pending_text(p.drop_last()) + item_text(p.last()) }
}
pub open spec fn ignored_kind(k: TokenKind) -> bool { k is Comment || k is Whitespace || k is Comma }
pub open spec fn item_wf(x: PendingToken) -> bool {
    match x { PendingToken::Ignored(t) => ignored_kind(t.kind), PendingToken::Error(_) => true }
}
pub open spec fn pending_wf(p: Seq<PendingToken>) -> bool { forall|i: int| 0 <= i < p.len() ==> item_wf(#[trigger] p[i]) }
pub broadcast proof fn lemma_pending_push_auto(p: Seq<PendingToken>, x: PendingToken)
    ensures #[trigger] pending_text(p.push(x)) == pending_text(p) + item_text(x)
{
    assert(p.push(x).drop_last() =~= p);
}
pub proof fn lemma_pending_push(p: Seq<PendingToken>, x: PendingToken)
    ensures pending_text(p.push(x)) == pending_text(p) + item_text(x)
{
    assert(p.push(x).drop_last() =~= p);
}
// https://spec.graphql.org/October2021/#Type  over the kinds of the significant tokens:
//   Type :: NamedType | ListType | NonNullType      NamedType :: Name      ListType :: [ Type ]      NonNullType :: NamedType ! | ListType !
pub open spec fn g_nullable_type(s: Seq<SyntaxKind>) -> bool decreases s.len(), 0int {
    (s.len() == 1 && s[0] is IDENT)
        || (s.len() >= 3 && s[0] is L_BRACK && s.last() is R_BRACK && g_type(s.subrange(1, s.len() - 1)))
}
pub open spec fn g_type(s: Seq<SyntaxKind>) -> bool decreases s.len(), 1int {
    g_nullable_type(s) || (s.len() >= 2 && s.last() is BANG && g_nullable_type(s.drop_last()))
}
pub proof fn lemma_list_type(inner: Seq<SyntaxKind>)
    requires g_type(inner)
    ensures g_nullable_type(seq![SyntaxKind::L_BRACK] + inner + seq![SyntaxKind::R_BRACK])
{
    let s = seq![SyntaxKind::L_BRACK] + inner + seq![SyntaxKind::R_BRACK];
    assert(s.subrange(1, s.len() - 1) =~= inner);
    assert(inner.len() >= 1) by { reveal_with_fuel(g_type, 2); reveal_with_fuel(g_nullable_type, 2); }
}
pub proof fn lemma_non_null_type(s: Seq<SyntaxKind>)
    requires g_nullable_type(s)
    ensures g_type(s), g_type(s.push(SyntaxKind::BANG))
{
    assert(s.push(SyntaxKind::BANG).drop_last() =~= s);
}

/// C05 / C07 (necessary condition of grammar membership): how many brackets of each kind are open after the significant tokens `s`
pub open spec fn open_brackets(s: Seq<SyntaxKind>) -> (int, int, int) decreases s.len() {
    if s.len() == 0 { (0, 0, 0) } else {
        let (c, p, b) = open_brackets(s.drop_last());
        match s.last() {
            SyntaxKind::L_CURLY => (c + 1, p, b), SyntaxKind::R_CURLY => (c - 1, p, b),
            SyntaxKind::L_PAREN => (c, p + 1, b), SyntaxKind::R_PAREN => (c, p - 1, b),
            SyntaxKind::L_BRACK => (c, p, b + 1), SyntaxKind::R_BRACK => (c, p, b - 1),
            _ => (c, p, b),
        }
    }
}
pub broadcast proof fn lemma_open_brackets_push(s: Seq<SyntaxKind>, k: SyntaxKind)
    ensures #[trigger] open_brackets(s.push(k)) == (match k {
            SyntaxKind::L_CURLY => (open_brackets(s).0 + 1, open_brackets(s).1, open_brackets(s).2), SyntaxKind::R_CURLY => (open_brackets(s).0 - 1, open_brackets(s).1, open_brackets(s).2),
            SyntaxKind::L_PAREN => (open_brackets(s).0, open_brackets(s).1 + 1, open_brackets(s).2), SyntaxKind::R_PAREN => (open_brackets(s).0, open_brackets(s).1 - 1, open_brackets(s).2),
            SyntaxKind::L_BRACK => (open_brackets(s).0, open_brackets(s).1, open_brackets(s).2 + 1), SyntaxKind::R_BRACK => (open_brackets(s).0, open_brackets(s).1, open_brackets(s).2 - 1),
            _ => open_brackets(s) })
{
    assert(s.push(k).drop_last() =~= s);
}
pub open spec fn sig_prefix(a: Seq<SyntaxKind>, b: Seq<SyntaxKind>) -> bool { a.len() <= b.len() && b.subrange(0, a.len() as int) =~= a }
pub open spec fn cur_text(t: Option<Token>) -> Seq<char> { match t { Some(t) => t.data@, None => seq![] } }
pub open spec fn is_prefix(a: Seq<char>, b: Seq<char>) -> bool { a.len() <= b.len() && b.subrange(0, a.len() as int) =~= a }
pub open spec fn errs_prefix(a: Seq<Error>, b: Seq<Error>) -> bool { a.len() <= b.len() && b.subrange(0, a.len() as int) =~= a }
pub proof fn lemma_prefix_append(a: Seq<char>, b: Seq<char>)
    ensures is_prefix(a, a + b)
{ assert((a + b).subrange(0, a.len() as int) =~= a); }
pub proof fn lemma_prefix_trans(a: Seq<char>, b: Seq<char>, c: Seq<char>)
    requires is_prefix(a, b), is_prefix(b, c)
    ensures is_prefix(a, c)
{ assert(c.subrange(0, a.len() as int) =~= b.subrange(0, a.len() as int)); }

impl<'input> Parser<'input> {
    /// C02: the conserved quantity -- tree text, then queued tokens, then the look-ahead token, then the unread text.
    pub open spec fn all_text(&self) -> Seq<char> {
        self.builder.text() + pending_text(self.pending@) + cur_text(self.current_token) + self.lexer.rest()
    }
    /// struct invariant
    pub open spec fn wf(&self) -> bool {
        &&& pending_wf(self.pending@)                               // C01: push_ignored's unreachable!()
        &&& (self.lexer.limited() ==> !self.accept_errors)          // C04: token limit hit => errors are frozen
        &&& (!self.accept_errors ==> self.errors@.len() > 0)        // a limit error was recorded
        &&& self.recursion_limit.current <= self.recursion_limit.limit   // C04: nesting never exceeds the limit
        &&& self.recursion_limit.limit < usize::MAX                 // machine-arithmetic side condition (a limit of 2^64-1 is meaningless)
        &&& (self.current_token is Some ==> (self.lexer.done() <==> self.current_token->0.kind is Eof))   // the look-ahead is the item lexed last
        &&& (self.current_token is Some ==> tok_ok(self.current_token->0))
        &&& (self.lexer.done() ==> self.lexer.rest() =~= Seq::<char>::empty())                            // EOF is handed out when the text is used up
    }
    /// what every primitive guarantees
    pub open spec fn conserved(&self, o: &Self) -> bool {
        &&& self.all_text() =~= o.all_text()                                    // C02 nothing lost, nothing duplicated, order kept
        &&& self.advanced(o)
    }
    pub open spec fn advanced(&self, o: &Self) -> bool {
        &&& sig_prefix(o.builder.sig(), self.builder.sig())
        &&& is_prefix(o.builder.text(), self.builder.text())                    // C04 the tree only ever grows at the end
        &&& self.wf()
        &&& self.recursion_limit.current == o.recursion_limit.current           // C04/C01 balanced bookkeeping
        &&& self.recursion_limit.limit == o.recursion_limit.limit
        &&& self.recursion_limit.high >= o.recursion_limit.high
        &&& errs_prefix(o.errors@, self.errors@)                                // errors are only appended
        &&& (o.lexer.limited() ==> self.errors@ =~= o.errors@ && self.lexer.limited())   // C04 no error after the token-limit error
        &&& (!o.accept_errors ==> !self.accept_errors)
    }
    /// termination measure: items the lexer can still produce, plus the buffered look-ahead token
    pub open spec fn fuel(&self) -> nat { self.lexer.fuel() + (if self.current_token is Some { 1nat } else { 0nat }) }
    /// a token can be consumed without fetching anything new first, or there is nothing left to fetch
    pub open spec fn ready(&self) -> bool { self.current_token is Some || self.lexer.limited() || self.lexer.done() }
    /// the EOF token has been consumed (only an error path does that)
    pub open spec fn eof_consumed(&self) -> bool { self.lexer.done() && self.current_token is None }
    /// the significant token kinds added to the tree since state `o`
    pub open spec fn new_sig(&self, o: &Self) -> Seq<SyntaxKind> { self.builder.sig().skip(o.builder.sig().len() as int) }
    /// since state `o`: no error was recorded, errors are still being accepted, and EOF had not been consumed at `o`
    pub open spec fn clean_since(&self, o: &Self) -> bool { !o.eof_consumed() && self.errors@.len() == o.errors@.len() && self.accept_errors }
    /// state between grammar functions: a look-ahead token is buffered (or nothing is left), and it is a significant one
    pub open spec fn tidy(&self) -> bool { self.ready() && (self.current_token is Some ==> !ignored_kind(self.current_token->0.kind)) }
    pub open spec fn at_kind(&self, k: TokenKind) -> bool { self.current_token is Some && self.current_token->0.kind == k }
    pub open spec fn has_look(&self) -> bool { self.current_token is Some }
    /// a significant look-ahead token is buffered
    pub open spec fn has_sig(&self) -> bool { self.current_token is Some && !ignored_kind(self.current_token->0.kind) }
    /// C07: nothing but ignored tokens (already queued) is left in the input
    pub open spec fn at_end(&self) -> bool {
        self.current_token is None || self.current_token->0.kind is Eof
    }
}
pub proof fn lemma_conserved_trans(a: &Parser, b: &Parser, c: &Parser)
    requires b.conserved(a), c.conserved(b)
    ensures c.conserved(a)
{
    assert(c.builder.sig().subrange(0, a.builder.sig().len() as int) =~= b.builder.sig().subrange(0, a.builder.sig().len() as int));
    lemma_prefix_trans(a.builder.text(), b.builder.text(), c.builder.text());
    assert(c.errors@.subrange(0, a.errors@.len() as int) =~= b.errors@.subrange(0, a.errors@.len() as int));
}
pub proof fn lemma_advanced_trans(a: &Parser, b: &Parser, c: &Parser)
    requires b.advanced(a), c.advanced(b)
    ensures c.advanced(a)
{
    assert(c.builder.sig().subrange(0, a.builder.sig().len() as int) =~= b.builder.sig().subrange(0, a.builder.sig().len() as int));
    lemma_prefix_trans(a.builder.text(), b.builder.text(), c.builder.text());
    assert(c.errors@.subrange(0, a.errors@.len() as int) =~= b.errors@.subrange(0, a.errors@.len() as int));
}
// transitivity, usable by `broadcast use` (no per-statement hints needed in straight-line grammar functions)
pub broadcast proof fn lemma_conserved_trans_auto(a: &Parser, b: &Parser, c: &Parser)
    requires #[trigger] b.conserved(a), #[trigger] c.conserved(b)
    ensures c.conserved(a)
{ lemma_conserved_trans(a, b, c); }
// the recursion bookkeeping: enter a nesting level (check_and_increment not reached), do conserved work, leave it (decrement)
pub proof fn lemma_depth_roundtrip(s3: &Parser, s4: &Parser, s5: &Parser, s6: &Parser)
    requires
        s3.wf(),
        s4.builder == s3.builder && s4.pending == s3.pending && s4.current_token == s3.current_token && s4.lexer == s3.lexer && s4.errors == s3.errors && s4.accept_errors == s3.accept_errors,
        s4.recursion_limit.current == s3.recursion_limit.current + 1 && s4.recursion_limit.limit == s3.recursion_limit.limit && s4.recursion_limit.high >= s3.recursion_limit.high,
        s5.conserved(s4),
        s6.builder == s5.builder && s6.pending == s5.pending && s6.current_token == s5.current_token && s6.lexer == s5.lexer && s6.errors == s5.errors && s6.accept_errors == s5.accept_errors,
        s6.recursion_limit.current == s5.recursion_limit.current - 1 && s6.recursion_limit.limit == s5.recursion_limit.limit && s6.recursion_limit.high == s5.recursion_limit.high,
    ensures s6.conserved(s3)
{
    assert(s4.all_text() =~= s3.all_text());
    assert(s6.all_text() =~= s5.all_text());
}
pub proof fn lemma_conserved_refl(a: &Parser)
    requires a.wf()
    ensures a.conserved(a)
{
    assert(a.builder.text().subrange(0, a.builder.text().len() as int) =~= a.builder.text());
    assert(a.errors@.subrange(0, a.errors@.len() as int) =~= a.errors@);
    assert(a.builder.sig().subrange(0, a.builder.sig().len() as int) =~= a.builder.sig());
}

// grammar::name::validate_name re-checks a token the lexer already classified as Name; with the lexer contract
// (Name tokens match the Name grammar -- proved for Cursor::advance in unit `lexer`) it never reports and never pops.
#[verifier::external_body]
pub fn validate_name(name: &str, p: &mut Parser)
    ensures *final(p) == *old(p),
{ unimplemented!() }

// Look-ahead beyond the buffered token: `peek_n_inner` clones the lexer and runs an iterator chain over the clone
// (`&self`: the parser state is untouched).  The results only steer which branch the grammar takes; no contract depends on them.
impl<'input> Parser<'input> {
    #[verifier::external_body]
    pub fn peek_token_n(&self, n: usize) -> (r: Option<Token<'input>>) { unimplemented!() }
    #[verifier::external_body]
    pub fn peek_n(&self, n: usize) -> (r: Option<TokenKind>) { unimplemented!() }
    #[verifier::external_body]
    pub fn peek_data_n(&self, n: usize) -> (r: Option<&'input str>) { unimplemented!() }
}
// module paths used by the extracted bodies (`name::name(p)`, `selection::selection_set(p)`, ...): re-exports of the
// extracted functions, which are all assembled at the top level of this file
pub mod name { pub use super::{name, alias, validate_name}; }
pub mod variable { pub use super::{variable, variable_definition, variable_definitions}; }
pub mod argument { pub use super::{argument, arguments, arguments_definition}; }
pub mod directive { pub use super::{directive, directives, directive_definition, directive_locations}; }
pub mod field { pub use super::{field, fields_definition, field_definition}; }
pub mod description { pub use super::{description}; }
pub mod input { pub use super::{input_object_type_definition, input_object_type_extension, input_fields_definition, input_value_definition}; }
pub mod enum_ { pub use super::{enum_type_definition, enum_type_extension, enum_values_definition, enum_value_definition}; }
pub mod union_ { pub use super::{union_type_definition, union_type_extension, union_member_types}; }
pub mod interface { pub use super::{interface_type_definition, interface_type_extension}; }
pub mod object { pub use super::{object_type_definition, object_type_extension, implements_interfaces}; }
pub mod schema { pub use super::{schema_definition, schema_extension}; }
pub mod scalar { pub use super::{scalar_type_definition, scalar_type_extension}; }
pub mod extensions { pub use super::{extensions}; }
pub mod document { pub use super::{document}; }
pub mod selection { pub use super::{selection, selection_set, field_set}; }
pub mod fragment { pub use super::{fragment_definition, fragment_name, type_condition, inline_fragment, fragment_spread}; }
pub mod operation { pub use super::{operation_definition, operation_type}; }
pub mod ty { pub use super::{ty, named_type, standalone_ty}; }
pub mod value { pub use super::{value, default_value, enum_value, Constness}; }
'''

PRELUDE_2 = PRELUDE_2.replace('@@TOK_OK@@', TOK_OK).replace('@@NEXT_POST@@', NEXT_POST).replace('@@NEW_POST@@', NEW_POST)

C = "final(self).conserved(old(self))"
F = "final(self).fuel() <= old(self).fuel()"
WF = ("requires", "wf", "old(self).wf()")
# The callers always peek before consuming; without a look-ahead token, a lexer error fetched *inside* eat()/err_and_pop()
# would be queued behind the token that is pushed first (order of the tree text would differ from the source).
LOOK = ("requires", "lookahead_present", "old(self).current_token is Some")
# ... or the lexer has nothing more to give (then nothing can be fetched and queued out of order)
READY = ("requires", "lookahead_present_or_lexer_exhausted", "old(self).ready()")
KEEP = ("ensures", "significant_lookahead_kept", "(old(self).current_token is Some && !ignored_kind(old(self).current_token->0.kind)) ==> final(self).current_token == old(self).current_token && final(self).lexer == old(self).lexer && final(self).errors == old(self).errors && final(self).accept_errors == old(self).accept_errors")
FLUSH = ("ensures", "queue_flushed_before_significant_lookahead", "(old(self).current_token is Some && !ignored_kind(old(self).current_token->0.kind)) ==> final(self).pending@.len() == 0 && final(self).builder.text() =~= old(self).builder.text() + pending_text(old(self).pending@)")


EOF_STABLE_SELF = ("ensures", "eof_stays_consumed", "old(self).eof_consumed() ==> final(self).eof_consumed()")


def P(name, clauses, **kw):
    if clauses and clauses[0] is WF and name not in ("pop", "push_token", "next_token"):
        clauses = list(clauses) + [EOF_STABLE_SELF]
    d = dict(file=PM, kind="fn", name=name, container=r"Parser<'input>", container_name="Parser", wrap="impl<'input> Parser<'input>",
             clauses=clauses, props=["C01", "C02", "C04", "C07"])
    d.update(kw)
    return d


BORROW = [("self.builder.borrow_mut()", "self.builder", 1)]

PEEK_POST = [
    ("ensures", "conserved", C),
    ("ensures", "tree_untouched", "final(self).builder == old(self).builder"),
    ("ensures", "fuel", F),
    ("ensures", "result_is_lookahead", "r is Some <==> final(self).current_token is Some"),
    ("ensures", "lookahead_stable", "old(self).current_token is Some ==> final(self).current_token == old(self).current_token && final(self).pending == old(self).pending && final(self).lexer == old(self).lexer && final(self).errors == old(self).errors && final(self).accept_errors == old(self).accept_errors"),
    ("ensures", "none_means_exhausted", "r is None ==> (final(self).lexer.limited() || (final(self).lexer.done() && final(self).lexer.rest() =~= Seq::<char>::empty()))"),
    ("ensures", "eof_is_last", "r is None ==> final(self).lexer.done() == old(self).lexer.done() && old(self).current_token is None"),
    ("ensures", "exhausted_is_stable", "(old(self).current_token is None && (old(self).lexer.limited() || old(self).lexer.done())) ==> r is None && *final(self) == *old(self)"),
    ("ensures", "eof_not_consumed", "!old(self).eof_consumed() ==> !final(self).eof_consumed()"),
    ("ensures", "tidy_kept", "old(self).tidy() ==> final(self).tidy()"), ("ensures", "ready_after", "final(self).ready()"),
]

lim = [p for p in LIMITS_UNIT["parts"] if isinstance(p, dict) and p.get("container") == "LimitTracker" or (isinstance(p, dict) and p.get("name") == "LimitTracker")]

GR = ["C01", "C02", "C04"]
GWF = ("requires", "wf", "old(p).wf()")
# Verus does not support `mut self` parameters: alpha-rename (mechanical): fn f(mut self) {..self..} => fn f(self_in: Self) { let mut this = self_in; ..this.. }
MUTSELF_1 = (r"\(mut self\)([^{]*)\{", r"(self_in: Self)\1{ let mut this = self_in;", 1, "re")
MUTSELF_2 = (r"\bself\b", "this", None, "re")


def G(file, name, clauses, **kw):
    d = dict(file=file, kind="fn", name=name, clauses=clauses, props=["C01", "C02", "C04", "C07"])
    d.update(kw)
    return d


GDIR = "crates/apollo-parser/src/parser/grammar/"
TIDY_PRE = ("requires", "tidy", "old(p).tidy()")
BCAST = ("body_start", None, "broadcast use lemma_conserved_trans_auto; broadcast use lemma_open_brackets_push;")
# loop contracts for the inlined repetition loops: everything so far is conserved and no fuel was gained.
#   gloop()              -- no progress claim
#   gloop(cond)          -- the function consumed a token BEFORE the loop whenever `cond` held on entry (e.g. an opening bracket was bumped)
#   gloop(cond, True)    -- nothing is consumed before the loop; whenever `cond` held on entry the FIRST iteration consumes a token
def gloop(cond=None, first_iteration=False, extra=None, min_before=None, min_first=None, extra_ensures=None, balanced_at=(0, 0, 0), balanced_except_break=False, items_may_stop_at_eof=False):
    """min_before=K: K significant tokens were added before the loop whenever no error was reported;
    min_first=(K, cond): the first iteration adds K significant tokens whenever `cond` held on entry and no error was reported."""
    CLEAN = "p.clean_since(old(p)) && !p.eof_consumed()"
    inv = [("conserved", "p.conserved(old(p)), p.fuel() <= old(p).fuel()"),
           ("eof_stays_consumed", "old(p).eof_consumed() ==> p.eof_consumed()")]
    inv_eb = []
    if balanced_at is not None:
        cond_b = CLEAN + (" && !p.at_kind(TokenKind::Eof)" if items_may_stop_at_eof else "")
        (inv_eb if balanced_except_break else inv).append(("brackets_so_far", "(%s) ==> open_brackets(p.builder.sig()) == (open_brackets(old(p).builder.sig()).0 + %d, open_brackets(old(p).builder.sig()).1 + %d, open_brackets(old(p).builder.sig()).2 + %d)" % ((cond_b,) + tuple(balanced_at)), ["C05", "C07"]))
    ens = []
    if cond and not first_iteration:
        inv.append(("progress", "(%s) ==> p.fuel() < old(p).fuel()" % cond))
    if cond and first_iteration:
        inv.append(("progress_or_untouched", "(%s) ==> (p.fuel() < old(p).fuel() || p.current_token == old(p).current_token)" % cond))
        ens.append(("progress", "(%s) ==> p.fuel() < old(p).fuel()" % cond))
    if min_before is not None:
        for mb in (min_before if isinstance(min_before, list) else [min_before]):
            k, c = mb if isinstance(mb, tuple) else (mb, None)
            inv.append(("tokens_so_far_%d" % k, "(%s%s) ==> p.builder.nsig() >= old(p).builder.nsig() + %d" % (CLEAN, (" && (%s)" % c) if c else "", k), ["C05"]))
    if min_first is not None:
        k, c = min_first
        inv.append(("tokens_so_far_or_untouched", "(%s && (%s)) ==> (p.builder.nsig() >= old(p).builder.nsig() + %d || p.current_token == old(p).current_token)" % (CLEAN, c, k), ["C05"]))
        ens.append(("tokens_after_first_iteration", "(%s && (%s)) ==> p.builder.nsig() >= old(p).builder.nsig() + %d" % (CLEAN, c, k), ["C05"]))
    if extra:
        inv += extra
    if extra_ensures:
        ens += extra_ensures
    d = dict(invariant=inv, decreases="p.fuel()")
    if inv_eb:
        d["invariant_except_break"] = inv_eb
    if ens:
        d["ensures"] = ens
    return d


EOF_STABLE = ("ensures", "eof_stays_consumed", "old(p).eof_consumed() ==> final(p).eof_consumed()")
# C05 / C07: no error => every bracket opened by this production was closed by it
BALANCED_UNLESS_EOF = ("ensures", "no_error_means_brackets_balanced_unless_at_end_of_input", "(final(p).clean_since(old(p)) && !final(p).eof_consumed() && !final(p).at_kind(TokenKind::Eof)) ==> open_brackets(final(p).builder.sig()) == open_brackets(old(p).builder.sig())", ["C05", "C07"])
BALANCED = ("ensures", "no_error_means_brackets_balanced", "(final(p).clean_since(old(p)) && !final(p).eof_consumed()) ==> open_brackets(final(p).builder.sig()) == open_brackets(old(p).builder.sig())", ["C05", "C07"])


def MIN_SIG(n, cond=None):
    """C05 (necessary condition of grammar membership): if the function reports no error (and the end of input was not swallowed by an
    error path), it has added at least `n` significant tokens to the tree -- the length of the shortest sentence of its production.
    An implementation that silently accepts an EMPTY list or a MISSING mandatory token violates this."""
    pre = "final(p).clean_since(old(p)) && !final(p).eof_consumed()" + ((" && (%s)" % cond) if cond else "")
    return ("ensures", "no_error_means_at_least_%d_significant_tokens%s" % (n, "_when_" + re.sub(r"[^A-Za-z]+", "_", cond).strip("_")[:40] if cond else ""), "(%s) ==> final(p).builder.nsig() >= old(p).builder.nsig() + %d" % (pre, n), ["C05"])


def GF(fname, name, progress=None, extra=None, **kw):
    """A grammar function `fn name(p: &mut Parser, ..)`: conserves the text (C02), keeps the recursion bookkeeping balanced (C04),
    never gains fuel (C01 termination); `progress`: when it is guaranteed to consume at least one token (what the repetition loops need)."""
    cl = [GWF,
          ("ensures", "conserved", "final(p).conserved(old(p))"),
          ("ensures", "fuel", "final(p).fuel() <= old(p).fuel()")]
    if kw.get("decreases"):
        cl.append(("decreases", None, kw.pop("decreases")))
    if progress:
        cl.append(("ensures", "progress", "(%s) ==> final(p).fuel() < old(p).fuel()" % progress))
    cl.append(EOF_STABLE)
    bal = kw.pop("balanced", True)
    if bal:
        cl.append(BALANCED_UNLESS_EOF if bal == "unless_eof" else BALANCED)
    ms = kw.pop("min_sig", None)
    if ms is not None:
        for m1 in (ms if isinstance(ms, list) else [ms]):
            cl.append(MIN_SIG(*m1) if isinstance(m1, tuple) else MIN_SIG(m1))
    cl += extra or []
    d = dict(file=GDIR + fname, kind="fn", name=name, clauses=cl, props=["C01", "C02", "C04"], hints=[BCAST])
    hints = kw.pop("hints", None)
    d.update(kw)
    if hints:
        d["hints"] = [BCAST] + hints
    return d


LOOK = "old(p).has_sig()"
def KW(word):
    """the look-ahead on entry is the (significant) token with exactly this text"""
    return 'old(p).has_sig() && old(p).current_token->0.data == "%s"' % word
SCHEMA_START = "old(p).at_kind(TokenKind::StringValue) || (old(p).has_sig() && old(p).current_token->0.data == \"schema\")"
NS = "old(p).at_kind(TokenKind::Name) || old(p).at_kind(TokenKind::StringValue)"   # a definition starts with its keyword (a Name) or with a description
def AT(k):
    return "old(p).at_kind(TokenKind::%s)" % k


UNIT = {
    "name": "parser_core",
    "properties": ["C01", "C02", "C04", "C05", "C07", "C11"],
    "rlimit_retry": [60, 200],
    "spinoff": True,
    "parts": [
        PRELUDE_1,
        dict(file="crates/apollo-parser/src/parser/generated/syntax_kind.rs", kind="enum", name="SyntaxKind",
             attrs="#[derive(Clone, Copy, PartialEq, Eq, Structural)]\n#[allow(non_camel_case_types)]"),
        dict(file="crates/apollo-parser/src/lexer/token_kind.rs", kind="enum", name="TokenKind",
             attrs="#[derive(Clone, Copy, PartialEq, Eq, Structural)]"),
        dict(file="crates/apollo-parser/src/lexer/token.rs", kind="struct", name="Token", pub_fields=True, attrs="#[derive(Clone)]"),
        dict(file="crates/apollo-parser/src/lexer/token.rs", kind="fn", name="kind", container=r"Token<'a>", container_name="Token", wrap="impl<'a> Token<'a>",
             clauses=[("ensures", "kind", "r == self.kind")]),
        dict(file="crates/apollo-parser/src/lexer/token.rs", kind="fn", name="data", container=r"Token<'a>", container_name="Token", wrap="impl<'a> Token<'a>",
             clauses=[("ensures", "data", "r == self.data")]),
        dict(file="crates/apollo-parser/src/lexer/token.rs", kind="fn", name="index", container=r"Token<'a>", container_name="Token", wrap="impl<'a> Token<'a>",
             clauses=[("ensures", "index", "r == self.index")]),
    ] + lim + [
        dict(file=PM, kind="enum", name="PendingToken"),
        PRELUDE_2,

        # ---------------- primitives ----------------
        P("push_err", [WF,
            ("ensures", "conserved", C), ("ensures", "fuel", "final(self).fuel() == old(self).fuel()"),
            ("ensures", "frame", "final(self).current_token == old(self).current_token && final(self).builder == old(self).builder && final(self).pending == old(self).pending && final(self).lexer == old(self).lexer && final(self).accept_errors == old(self).accept_errors && final(self).recursion_limit == old(self).recursion_limit"),
            ("ensures", "rejected_after_limit", "!old(self).accept_errors ==> final(self).errors == old(self).errors"),
            ("ensures", "recorded_otherwise", "old(self).accept_errors ==> final(self).errors@ == old(self).errors@.push(err)"),
           ], rewrites=[("crate::error::Error", "crate_error::Error", 1)],
           hints=[("body_start", None, "proof { assert(old(self).errors@.push(err).subrange(0, old(self).errors@.len() as int) =~= old(self).errors@); lemma_conserved_refl(&*old(self)); }")]),
        P("push_token", [WF,
            ("ensures", "text_appended", "final(self).builder.text() == old(self).builder.text() + token.data@"),
            ("ensures", "significant_kinds", "final(self).builder.sig() == (if ignored_syntax(kind) { old(self).builder.sig() } else { old(self).builder.sig().push(kind) })"),
            ("ensures", "frame", "final(self).pending == old(self).pending && final(self).current_token == old(self).current_token && final(self).lexer == old(self).lexer && final(self).recursion_limit == old(self).recursion_limit && final(self).errors == old(self).errors && final(self).accept_errors == old(self).accept_errors"),
           ], rewrites=BORROW),
        P("pop", [WF,
            ("requires", "lookahead_present", "old(self).current_token is Some"),
            ("ensures", "returns_lookahead", "Some(t) == old(self).current_token && final(self).current_token is None"),
            ("ensures", "frame", "final(self).builder == old(self).builder && final(self).pending == old(self).pending && final(self).lexer == old(self).lexer && final(self).recursion_limit == old(self).recursion_limit && final(self).errors == old(self).errors && final(self).accept_errors == old(self).accept_errors"),
           ], ret="t"),
        P("next_token", [WF,
            ("requires", "no_lookahead", "old(self).current_token is None"),
            ("ensures", "wf", "final(self).wf() && final(self).current_token is None"),
            ("ensures", "frame", "final(self).builder == old(self).builder && final(self).recursion_limit == old(self).recursion_limit"),
            ("ensures", "text_conserved", "final(self).builder.text() + pending_text(final(self).pending@) + cur_text(r) + final(self).lexer.rest() =~= old(self).all_text()", ["C02", "C11"]),
            ("ensures", "fuel", "(r is Some ==> final(self).lexer.fuel() < old(self).lexer.fuel()) && final(self).lexer.fuel() <= old(self).lexer.fuel()"),
            ("ensures", "errors_appended", "errs_prefix(old(self).errors@, final(self).errors@) && (!old(self).accept_errors ==> !final(self).accept_errors)"),
            ("ensures", "frozen_after_token_limit", "old(self).lexer.limited() ==> final(self).errors@ =~= old(self).errors@ && final(self).lexer.limited() && r is None"),
            ("ensures", "none_means_exhausted", "r is None ==> (final(self).lexer.limited() || (final(self).lexer.done() && final(self).lexer.rest() =~= Seq::<char>::empty()))"),
            ("ensures", "eof_is_last", "(r is Some ==> (final(self).lexer.done() <==> r->0.kind is Eof)) && (r is None ==> final(self).lexer.done() == old(self).lexer.done())"),
            ("ensures", "exhausted_is_stable", "(old(self).lexer.limited() || old(self).lexer.done()) ==> r is None && *final(self) == *old(self)"),
            ("ensures", "token_text", "r is Some ==> tok_ok(r->0)"),
           ],
           n_loops=1,
           rewrites=[("for res in &mut self.lexer {", "loop { match self.lexer.next() { None => break, Some(res) => {", 1),
                     ("                }\n            }\n        }\n\n        None", "                }\n            }\n        }}}\n\n        None", 1)],
           loops=[dict(invariant=[
               ("wf", "self.wf(), self.current_token is None, self.builder == old(self).builder, self.recursion_limit == old(self).recursion_limit"),
               ("text_conserved", "self.builder.text() + pending_text(self.pending@) + self.lexer.rest() =~= old(self).all_text()", ["C02", "C11"]),
               ("fuel", "self.lexer.fuel() <= old(self).lexer.fuel()"),
               ("eof_is_last", "self.lexer.done() == old(self).lexer.done()"),
               ("exhausted_is_stable", "(old(self).lexer.limited() || old(self).lexer.done()) ==> *self == *old(self)"),
               ("errors_appended", "errs_prefix(old(self).errors@, self.errors@), !old(self).accept_errors ==> !self.accept_errors"),
               ("frozen_after_token_limit", "old(self).lexer.limited() ==> self.errors@ =~= old(self).errors@ && self.lexer.limited()"),
           ], ensures=[
               ("exhausted", "self.lexer.limited() || (self.lexer.done() && self.lexer.rest() =~= Seq::<char>::empty())"),
           ], decreases="self.lexer.fuel()")],
           hints=[
               ("body_start", None, "broadcast use lemma_pending_push_auto; proof { assert(old(self).errors@.subrange(0, old(self).errors@.len() as int) =~= old(self).errors@); }"),
               # keyed by the loop, not by statement text: what one lexer ERROR item does to the queue and the error list
               ("loop_body_start", 0, "let ghost s_in = *self;"),
               ("loop_body_end", 0,
                "proof { let r0 = s_in.lexer.rest(); let r1 = self.lexer.rest(); let c = r0.subrange(0, r0.len() - r1.len());\n"
                "        assert forall|x: Seq<char>| r0 == #[trigger] (x + r1) implies x =~= c by { assert((x + r1).subrange(0, x.len() as int) =~= x); }\n"
                "        assert(r0 =~= c + r1);\n"
                "        assert(self.pending@ =~= s_in.pending@ || self.pending@ =~= s_in.pending@.push(self.pending@.last()));\n"
                "        if self.pending@ =~= s_in.pending@ { assert(c.len() == 0); } else { assert(item_text(self.pending@.last()) =~= c); lemma_pending_push(s_in.pending@, self.pending@.last()); }\n"
                "        assert(pending_text(self.pending@) =~= pending_text(s_in.pending@) + c);\n"
                "        let a = self.builder.text(); let b = pending_text(s_in.pending@);\n"
                "        assert(a + (b + c) + r1 =~= a + b + (c + r1));\n"
                "        let e0 = old(self).errors@; assert(self.errors@.subrange(0, e0.len() as int) =~= s_in.errors@.subrange(0, e0.len() as int)); }"),
           ]),
        P("peek_token", [WF] + PEEK_POST + [("ensures", "result_value", "r is Some ==> *r->0 == final(self).current_token->0")],
          hints=[("body_start", None, "proof { lemma_conserved_refl(&*old(self)); }")]),
        P("peek", [WF] + PEEK_POST + [("ensures", "result_value", "r is Some ==> r->0 == final(self).current_token->0.kind")],
          rewrites=[("self.peek_token().map(|token| token.kind())", "match self.peek_token() { Some(token) => Some(token.kind()), None => None }", 1)]),
        P("peek_data", [WF] + PEEK_POST + [("ensures", "result_value", "r is Some ==> r->0 == final(self).current_token->0.data")],
          rewrites=[("self.peek_token().map(|token| token.data())", "match self.peek_token() { Some(token) => Some(token.data()), None => None }", 1)]),
        P("current", [WF] + PEEK_POST + [("ensures", "result_value", "r is Some ==> *r->0 == final(self).current_token->0")]),
        P("at", [WF, ("ensures", "conserved", C), ("ensures", "tree_untouched", "final(self).builder == old(self).builder"), ("ensures", "fuel", F),
                 ("ensures", "result", "r <==> (final(self).current_token is Some && final(self).current_token->0.kind == token)"),
                 ("ensures", "lookahead_stable", "old(self).current_token is Some ==> final(self).current_token == old(self).current_token && final(self).pending == old(self).pending && final(self).lexer == old(self).lexer && final(self).errors == old(self).errors && final(self).accept_errors == old(self).accept_errors"),
                 ("ensures", "eof_not_consumed", "!old(self).eof_consumed() ==> !final(self).eof_consumed()"),
                 ("ensures", "tidy_kept", "old(self).tidy() ==> final(self).tidy()"), ("ensures", "ready_after", "final(self).ready()"),
                 ]),
        P("skip_ignored", [WF, ("ensures", "queue_kept_before_significant_lookahead", "(old(self).current_token is Some && !ignored_kind(old(self).current_token->0.kind)) ==> final(self).pending == old(self).pending"), ("ensures", "conserved", C), ("ensures", "tree_untouched", "final(self).builder == old(self).builder"), ("ensures", "fuel", F),
                           ("ensures", "stops_at_significant", "final(self).current_token is Some ==> !ignored_kind(final(self).current_token->0.kind)"), KEEP,
                           ("ensures", "eof_not_consumed", "!old(self).eof_consumed() ==> !final(self).eof_consumed()"),
                           ("ensures", "ready", "final(self).ready()"),
                           ("ensures", "none_means_exhausted", "final(self).current_token is None ==> (final(self).lexer.limited() || (final(self).lexer.done() && final(self).lexer.rest() =~= Seq::<char>::empty()))"),
                           ],
          n_loops=1,
          loops=[dict(invariant=[("conserved", "self.conserved(old(self)), self.builder == old(self).builder"), ("fuel", "self.fuel() <= old(self).fuel()"),
                                 ("eof_not_consumed", "!old(self).eof_consumed() ==> !self.eof_consumed()"), ("eof_stays_consumed", "old(self).eof_consumed() ==> self.eof_consumed()"),
                                 ("significant_lookahead_kept", "(old(self).current_token is Some && !ignored_kind(old(self).current_token->0.kind)) ==> self.current_token == old(self).current_token && self.lexer == old(self).lexer && self.errors == old(self).errors && self.accept_errors == old(self).accept_errors && self.pending == old(self).pending")],
                      ensures=[("stops_at_significant", "self.current_token is Some ==> !ignored_kind(self.current_token->0.kind)"),
                               ("none_means_exhausted", "self.current_token is None ==> (self.lexer.limited() || (self.lexer.done() && self.lexer.rest() =~= Seq::<char>::empty()))")],
                      decreases="self.fuel()")],
          hints=[("body_start", None, "broadcast use lemma_conserved_trans_auto; broadcast use lemma_pending_push_auto; proof { lemma_conserved_refl(&*old(self)); }"),
                 ("loop_body_start", 0, "let ghost s_in = *self;"),
                 ("loop_body_end", 0, "proof { assert(self.errors@ == s_in.errors@); assert(self.pending@ =~= s_in.pending@.push(self.pending@.last())); assert(item_text(self.pending@.last()) =~= s_in.current_token->0.data@); lemma_pending_push(s_in.pending@, self.pending@.last()); assert(self.builder == s_in.builder && self.lexer == s_in.lexer && self.current_token is None); let a = self.builder.text(); let b = pending_text(s_in.pending@); let c = s_in.current_token->0.data@; let d = self.lexer.rest(); assert(a + (b + c) + Seq::<char>::empty() + d =~= a + b + c + d); assert(self.all_text() =~= s_in.all_text()); }")]),
        P("push_ignored", [WF, ("ensures", "conserved", C), ("ensures", "queue_flushed", "final(self).pending@.len() == 0"),
                           ("ensures", "frame", "final(self).current_token == old(self).current_token && final(self).lexer == old(self).lexer && final(self).errors == old(self).errors && final(self).accept_errors == old(self).accept_errors && final(self).recursion_limit == old(self).recursion_limit"),
                           ("ensures", "flushed_into_tree", "final(self).builder.text() =~= old(self).builder.text() + pending_text(old(self).pending@)"),
                           ("ensures", "only_ignored_tokens_flushed", "final(self).builder.sig() == old(self).builder.sig()"),
                           ("ensures", "fuel", "final(self).fuel() == old(self).fuel()")],
          n_loops=1,
          rewrites=BORROW + [("for item in pending {", "for item in it: pending {", 1)],
          loops=[dict(invariant=[
              ("queue_taken", "self.pending@.len() == 0, pending_wf(old(self).pending@), self.wf()"),
              ("iterator", "vstd::std_specs::vec::into_iter_elts(it.snapshot@) == old(self).pending@, 0 <= it.index@ <= old(self).pending@.len(), it.history@ =~= old(self).pending@.take(it.index@ as int)"),
              ("flushed_prefix", "self.builder.text() =~= old(self).builder.text() + pending_text(old(self).pending@.take(it.index@ as int))"),
              ("only_ignored_tokens_flushed", "self.builder.sig() == old(self).builder.sig()"),
              ("frame", "self.current_token == old(self).current_token, self.lexer == old(self).lexer, self.recursion_limit == old(self).recursion_limit, self.errors == old(self).errors, self.accept_errors == old(self).accept_errors"),
          ])],
          hints=[
              ("after", "for item in it: pending {",
               "proof { let ps = old(self).pending@; assert(ps.take(it.index@ + 1).drop_last() =~= ps.take(it.index@ as int)); assert(ps.take(it.index@ + 1).last() == ps[it.index@ as int]);\n"
               "        assert(item == ps[it.index@ as int]); assert(item_wf(ps[it.index@ as int])); }"),
              ("body_end", None,
               "proof { let ps = old(self).pending@; assert(ps.take(ps.len() as int) =~= ps); assert(pending_text(self.pending@) =~= Seq::<char>::empty());\n"
               "        lemma_prefix_append(old(self).builder.text(), pending_text(ps)); assert(self.errors@.subrange(0, self.errors@.len() as int) =~= self.errors@); }"),
          ]),
    
        P("eat", [WF, READY, ("ensures", "conserved", C),
                  ("ensures", "fuel", "final(self).fuel() <= old(self).fuel() && (old(self).current_token is Some ==> final(self).fuel() < old(self).fuel())"),
                  ("ensures", "errors_untouched", "final(self).errors == old(self).errors && final(self).accept_errors == old(self).accept_errors"),
                  ("ensures", "significant_kinds", "final(self).builder.sig() == (if old(self).current_token is Some && !ignored_syntax(kind) { old(self).builder.sig().push(kind) } else { old(self).builder.sig() })"),
                  ("ensures", "consumes_lookahead", "old(self).current_token is Some ==> final(self).current_token is None && final(self).pending@.len() == 0 && final(self).lexer == old(self).lexer && final(self).builder.text() =~= old(self).builder.text() + pending_text(old(self).pending@) + old(self).current_token->0.data@"),
                  ("ensures", "nothing_to_consume", "old(self).current_token is None ==> final(self).current_token is None && final(self).lexer == old(self).lexer"),
                  ("ensures", "eof_not_consumed", "(!old(self).eof_consumed() && !(old(self).current_token is Some && old(self).current_token->0.kind is Eof)) ==> !final(self).eof_consumed()")],
          hints=[("body_start", None, "broadcast use lemma_conserved_trans_auto; broadcast use lemma_open_brackets_push;")]),
        P("bump", [WF, READY, ("ensures", "conserved", C),
                   ("ensures", "fuel", "final(self).fuel() <= old(self).fuel() && (old(self).current_token is Some ==> final(self).fuel() < old(self).fuel())"),
                   ("ensures", "stops_at_significant", "final(self).current_token is Some ==> !ignored_kind(final(self).current_token->0.kind)"),
                   ("ensures", "ready_again", "final(self).ready()"), ("ensures", "tidy", "final(self).tidy()"),
                   ("ensures", "eof_not_consumed", "(!old(self).eof_consumed() && !(old(self).current_token is Some && old(self).current_token->0.kind is Eof)) ==> !final(self).eof_consumed()"),
                   ("ensures", "significant_kinds", "final(self).builder.sig() == (if old(self).current_token is Some && !ignored_syntax(kind) { old(self).builder.sig().push(kind) } else { old(self).builder.sig() })")],
          hints=[("body_start", None, "broadcast use lemma_conserved_trans_auto; broadcast use lemma_open_brackets_push;")]),
        P("limit_err", [WF, ("ensures", "conserved", C), ("ensures", "fuel", F),
                        ("ensures", "limit_recorded", "final(self).current_token is Some ==> !final(self).accept_errors"),
                        ("ensures", "recorded_error_is_a_limit_error", "(old(self).accept_errors && old(self).current_token is Some) ==> final(self).errors@.len() == old(self).errors@.len() + 1 && final(self).errors@.last().is_limit", ["C04"]),
                        ("ensures", "limit_always_recorded_before_eof", "!old(self).eof_consumed() ==> !final(self).accept_errors"), ("ensures", "eof_not_consumed", "!old(self).eof_consumed() ==> !final(self).eof_consumed()"),
                        ("ensures", "tree_untouched", "final(self).builder == old(self).builder"), ("ensures", "tidy_kept", "old(self).tidy() ==> final(self).tidy()"), ("ensures", "ready_after", "final(self).ready()")],
          rewrites=[("pub fn limit_err<S: Into<String>>(&mut self, message: S)", "pub fn limit_err(&mut self, message: &str)", 1)],
          hints=[("body_start", None, "broadcast use lemma_conserved_trans_auto; broadcast use lemma_open_brackets_push;")]),
        P("err_at_token", [WF, ("ensures", "conserved", C), ("ensures", "fuel", "final(self).fuel() == old(self).fuel()"),
                           ("ensures", "frame", "final(self).current_token == old(self).current_token && final(self).builder == old(self).builder && final(self).pending == old(self).pending && final(self).lexer == old(self).lexer && final(self).accept_errors == old(self).accept_errors"),
                           ("ensures", "error_recorded", "old(self).accept_errors ==> final(self).errors@.len() == old(self).errors@.len() + 1")]),
        P("err", [WF, ("ensures", "conserved", C), ("ensures", "fuel", F), ("ensures", "tree_untouched", "final(self).builder == old(self).builder"),
                  ("ensures", "error_recorded", "(final(self).current_token is Some && final(self).accept_errors) ==> final(self).errors@.len() > old(self).errors@.len()"),
                  ("ensures", "lookahead_stable", "old(self).current_token is Some ==> final(self).current_token == old(self).current_token && final(self).lexer == old(self).lexer"), ("ensures", "tidy_kept", "old(self).tidy() ==> final(self).tidy()"), ("ensures", "ready_after", "final(self).ready()")],
          hints=[("body_start", None, "broadcast use lemma_conserved_trans_auto; broadcast use lemma_open_brackets_push;")]),
        P("err_and_pop", [WF, READY, ("ensures", "conserved", C),
                          ("ensures", "fuel", "final(self).fuel() <= old(self).fuel() && (old(self).current_token is Some ==> final(self).fuel() < old(self).fuel())"),
                          ("ensures", "ready_again", "final(self).ready()"), ("ensures", "tidy", "final(self).tidy()"),
                          ("ensures", "error_recorded", "(old(self).current_token is Some && old(self).accept_errors) ==> final(self).errors@.len() > old(self).errors@.len()")],
          hints=[("body_start", None, "broadcast use lemma_conserved_trans_auto; broadcast use lemma_open_brackets_push;")]),
        P("expect", [WF, ("ensures", "conserved", C), ("ensures", "fuel", F),
                     ("ensures", "consumes_the_expected_token_or_reports", "final(self).clean_since(old(self)) ==> final(self).builder.sig() == (if ignored_syntax(kind) { old(self).builder.sig() } else { old(self).builder.sig().push(kind) })"),
                     ("ensures", "adds_at_most_that_token", "final(self).builder.sig() == old(self).builder.sig() || final(self).builder.sig() == old(self).builder.sig().push(kind)"),
                     ("ensures", "eof_not_consumed", "(!old(self).eof_consumed() && !(token is Eof)) ==> !final(self).eof_consumed()"),
                     ("ensures", "tidy_kept", "old(self).tidy() ==> final(self).tidy()"), ("ensures", "ready_after", "final(self).ready()"), ("ensures", "progress_when_at", "old(self).at_kind(token) ==> final(self).fuel() < old(self).fuel()"),
                     ("ensures", "mismatch_is_reported", "(old(self).current_token is Some && old(self).current_token->0.kind != token && old(self).accept_errors) ==> final(self).errors@.len() > old(self).errors@.len()")],
          hints=[("body_start", None, "broadcast use lemma_conserved_trans_auto; broadcast use lemma_open_brackets_push;")]),
        P("start_node", [WF, ("ensures", "conserved", C), ("ensures", "fuel", F), KEEP, FLUSH, ("ensures", "ready", "final(self).ready()"), ("ensures", "eof_not_consumed", "!old(self).eof_consumed() ==> !final(self).eof_consumed()"), ("ensures", "no_significant_token_added", "final(self).builder.sig() == old(self).builder.sig()"), ("ensures", "tidy", "final(self).tidy()"),
                         ("ensures", "stops_at_significant", "final(self).current_token is Some ==> !ignored_kind(final(self).current_token->0.kind)")],
          rewrites=BORROW + [("NodeGuard::new(self.builder.clone())", "NodeGuard::new_shim()", 1), ("self.builder.borrow().is_at_root()", "self.builder.is_at_root()", 1)],
          hints=[("body_start", None, "broadcast use lemma_conserved_trans_auto; broadcast use lemma_open_brackets_push;")]),
        P("start_root_node", [WF, ("ensures", "conserved", C), ("ensures", "fuel", F), KEEP, FLUSH, ("ensures", "ready", "final(self).ready()"), ("ensures", "eof_not_consumed", "!old(self).eof_consumed() ==> !final(self).eof_consumed()"), ("ensures", "no_significant_token_added", "final(self).builder.sig() == old(self).builder.sig()"), ("ensures", "tidy", "final(self).tidy()"),
                              ("ensures", "stops_at_significant", "final(self).current_token is Some ==> !ignored_kind(final(self).current_token->0.kind)")],
          rewrites=BORROW + [("NodeGuard::new(self.builder.clone())", "NodeGuard::new_shim()", 1)],
          hints=[("body_start", None, "broadcast use lemma_conserved_trans_auto; broadcast use lemma_open_brackets_push;")]),
        P("checkpoint_node", [WF, ("ensures", "conserved", C), ("ensures", "fuel", "final(self).fuel() == old(self).fuel()"),
                              ("ensures", "frame", "final(self).current_token == old(self).current_token && final(self).lexer == old(self).lexer && final(self).errors == old(self).errors && final(self).builder.sig() == old(self).builder.sig()")],
          rewrites=[("self.builder.borrow().checkpoint()", "self.builder.checkpoint()", 1), ("Checkpoint::new(self.builder.clone(), checkpoint)", "Checkpoint::new_shim(checkpoint)", 1),
                    ("self.builder.borrow().is_at_root()", "self.builder.is_at_root()", 1)]),
        P("expect_end_of_input", [WF, ("ensures", "conserved", C), ("ensures", "fuel", F), ("ensures", "no_significant_token_added", "final(self).builder.sig() == old(self).builder.sig()"),
                                  ("ensures", "tree_untouched_after_the_root_was_closed", "final(self).builder == old(self).builder", ["C01"]),
                                  ("ensures", "no_new_error_only_at_end_of_input", "(final(self).errors@.len() == old(self).errors@.len() && final(self).accept_errors) ==> final(self).at_end()"),
                                  ("ensures", "end_means_exhausted", "final(self).current_token is None ==> (final(self).lexer.limited() || (final(self).lexer.done() && final(self).lexer.rest() =~= Seq::<char>::empty()))")],
          props=["C07"],
          hints=[("body_start", None, "broadcast use lemma_conserved_trans_auto; broadcast use lemma_open_brackets_push;")]),
    
        # ---------------- grammar functions that consume tokens directly ----------------
        dict(file=PM, kind="const", name="DEFAULT_RECURSION_LIMIT"),
        P("new", [("ensures", "initial_state", "r.wf() && r.all_text() =~= input@ && r.errors@.len() == 0 && r.recursion_limit.current == 0 && r.builder.text() =~= Seq::<char>::empty() && r.current_token is None && r.pending@.len() == 0 && !r.eof_consumed() && r.builder.sig() =~= Seq::<SyntaxKind>::empty()")],
          rewrites=[("Rc::new(RefCell::new(SyntaxTreeBuilder::new()))", "SyntaxTreeBuilder::new()", 1)], props=["C02", "C01"]),
        G(TY, "parse", [GWF, BALANCED, EOF_STABLE,
            ("ensures", "lossless", "final(p).all_text() =~= old(p).all_text()", ["C02"]),
            ("ensures", "advanced", "final(p).advanced(old(p))"),
            ("ensures", "fuel", "final(p).fuel() <= old(p).fuel() && (res is Ok ==> final(p).fuel() < old(p).fuel())"),
            ("ensures", "ok_consumes_a_significant_token", "(res is Ok ==> final(p).builder.nsig() > old(p).builder.nsig()) && (res is Err ==> final(p).builder.sig() == old(p).builder.sig())", ["C07"]),
            ("ensures", "no_token_only_after_limit_or_eof", "(res is Err && res->Err_0 is None) ==> (final(p).lexer.limited() || old(p).eof_consumed())", ["C07"]),
            ("ensures", "type_grammar", "(res is Ok && final(p).clean_since(old(p))) ==> g_type(final(p).new_sig(old(p))) && !final(p).eof_consumed()", ["C07"]),
            ("decreases", None, "old(p).fuel()"),
          ], ret="res",
          hints=[
              ("body_start", None, "broadcast use lemma_conserved_trans_auto; broadcast use lemma_open_brackets_push;"),
              ("after", "p.bump(S!['[']);", "let ghost s3 = *p; proof { assert(s3.builder.sig() == old(p).builder.sig().push(SyntaxKind::L_BRACK)); }"),
              ("before", "let result = parse(p);", "let ghost s4 = *p; proof { assert(p.recursion_limit.current == old(p).recursion_limit.current + 1 && p.recursion_limit.current <= p.recursion_limit.limit); /* C01: nesting depth is bounded by the limit */ }"),
              ("after", "let result = parse(p);", "let ghost s5 = *p;"),
              ("after", "p.recursion_limit.decrement();", "let ghost s6 = *p; proof { lemma_depth_roundtrip(&s3, &s4, &s5, &s6); }"),
              ("after", "p.expect(T![']'], S![']']);",
               "proof { if p.clean_since(&*old(p)) {\n"
               "    let base = old(p).builder.sig(); let inner = s5.new_sig(&s4);\n"
               "    assert(s5.clean_since(&s4)) by { assert(s5.errors@.len() <= p.errors@.len() && old(p).errors@.len() <= s4.errors@.len()); }\n"
               "    assert(result is Ok);\n"
               "    lemma_list_type(inner);\n"
               "    assert(s5.builder.sig() =~= base.push(SyntaxKind::L_BRACK) + inner);\n"
               "    assert(p.builder.sig() =~= s5.builder.sig().push(SyntaxKind::R_BRACK));\n"
               "    assert(p.new_sig(&*old(p)) =~= seq![SyntaxKind::L_BRACK] + inner + seq![SyntaxKind::R_BRACK]);\n"
               "} }"),
              ("after", "p.push_token(SyntaxKind::IDENT, token);",
               "proof { lemma_prefix_append(old(p).builder.text() + pending_text(old(p).pending@), token.data@);\n"
               "    assert(p.new_sig(&*old(p)) =~= seq![SyntaxKind::IDENT]); }"),
              ("before", "if let Some(T![!]) = p.peek() {", "let ghost t1 = *p; proof { assert(t1.clean_since(&*old(p)) ==> g_nullable_type(t1.new_sig(&*old(p))) && !t1.eof_consumed()); }"),
              ("after", "p.eat(S![!]);", "proof { if p.clean_since(&*old(p)) { lemma_non_null_type(t1.new_sig(&*old(p))); assert(p.new_sig(&*old(p)) =~= t1.new_sig(&*old(p)).push(SyntaxKind::BANG)); } }"),
              ("before", "Ok(())\n}", "proof { if p.clean_since(&*old(p)) { lemma_non_null_type(t1.new_sig(&*old(p))); } }"),
          ]),
        G(TY, "ty", [GWF, BALANCED, EOF_STABLE, MIN_SIG(1), ("ensures", "conserved", "final(p).conserved(old(p))"), ("ensures", "fuel", "final(p).fuel() <= old(p).fuel()")],
          hints=[("body_start", None, "broadcast use lemma_conserved_trans_auto; broadcast use lemma_open_brackets_push;")],
          ),
        G(TY, "named_type", [GWF, BALANCED, EOF_STABLE, MIN_SIG(1, "old(p).at_kind(TokenKind::Name)"), ("ensures", "conserved", "final(p).conserved(old(p))"), ("ensures", "fuel", "final(p).fuel() <= old(p).fuel()")],
          hints=[("body_start", None, "broadcast use lemma_conserved_trans_auto; broadcast use lemma_open_brackets_push;")]),
    
        # standalone type: leading ignored tokens stay queued and are attached inside the root node when it is started
        # (start_node / checkpoint_node are root-aware), so the text is conserved here too.
        G(TY, "standalone_ty", [GWF, BALANCED, EOF_STABLE, ("requires", "fresh", "!old(p).eof_consumed()"),
                                ("ensures", "conserved_except_the_known_finding_of_parse", "final(p).advanced(old(p))"), ("ensures", "fuel", "final(p).fuel() <= old(p).fuel()"),
                                ("ensures", "leading_ignored_tokens_are_kept", "final(p).all_text() =~= old(p).all_text()", ["C02", "C11"]),
                                ("ensures", "missing_type_is_reported", "final(p).builder.nsig() == old(p).builder.nsig() ==> (final(p).errors@.len() > old(p).errors@.len() || !final(p).accept_errors)", ["C07"]),
                                ("ensures", "no_error_means_exactly_one_type", "final(p).clean_since(old(p)) ==> g_type(final(p).new_sig(old(p)))", ["C07"])],
          hints=[("body_start", None, "broadcast use lemma_conserved_trans_auto; broadcast use lemma_open_brackets_push;"),
                 ("after", "p.skip_ignored();", "let ghost s1 = *p;")]),
    
        G(SEL, "selection_set", [GWF, BALANCED, EOF_STABLE, MIN_SIG(3, 'old(p).at_kind(TokenKind::LCurly)'), ("ensures", "conserved", "final(p).conserved(old(p))"), ("ensures", "fuel", "final(p).fuel() <= old(p).fuel()"),
                                 ("ensures", "progress", "old(p).at_kind(TokenKind::LCurly) ==> final(p).fuel() < old(p).fuel()"), ("decreases", None, "old(p).fuel(), 1int")],
          hints=[("body_start", None, "broadcast use lemma_conserved_trans_auto; broadcast use lemma_open_brackets_push;")]),
        G(SEL, "field_set", [GWF, BALANCED, EOF_STABLE, MIN_SIG(1), ("ensures", "conserved", "final(p).conserved(old(p))"), ("ensures", "fuel", "final(p).fuel() <= old(p).fuel()")],
          hints=[("body_start", None, "broadcast use lemma_conserved_trans_auto; broadcast use lemma_open_brackets_push;")]),
        dict(file=VAL, kind="enum", name="Constness", attrs="#[derive(Clone, Copy)]"),
        G(VAL, "object_field", [GWF, BALANCED_UNLESS_EOF, EOF_STABLE, MIN_SIG(3), ("ensures", "conserved", "final(p).conserved(old(p))"),
                                ("ensures", "fuel", "final(p).fuel() <= old(p).fuel() && ((old(p).current_token is Some && old(p).current_token->0.kind is Name) ==> final(p).fuel() < old(p).fuel())"),
                                ("decreases", None, "old(p).fuel(), 1int")],
          hints=[("body_start", None, "broadcast use lemma_conserved_trans_auto; broadcast use lemma_open_brackets_push;")],
          rewrites=[("p.recursion_limit.decrement()\n", "p.recursion_limit.decrement();\n", 1)]),

        # ---------------- the value cycle: value -> list_value -> value, value -> object_value -> object_field -> value ----------------
        G(VAL, "enum_value", [GWF, BALANCED, ("ensures", "true_false_null_are_not_enum_values", '(old(p).at_kind(TokenKind::Name) && (old(p).current_token->0.data == "true" || old(p).current_token->0.data == "false" || old(p).current_token->0.data == "null")) ==> !(final(p).errors@.len() == old(p).errors@.len() && final(p).accept_errors)', ["C05"]), EOF_STABLE, MIN_SIG(1), ("ensures", "conserved", "final(p).conserved(old(p))"),
                              ("ensures", "fuel", "final(p).fuel() <= old(p).fuel() && ((old(p).current_token is Some && old(p).current_token->0.kind is Name) ==> final(p).fuel() < old(p).fuel())")],
          hints=[("body_start", None, "broadcast use lemma_conserved_trans_auto; broadcast use lemma_open_brackets_push;")]),
        G(VAL, "default_value", [GWF, BALANCED_UNLESS_EOF, EOF_STABLE, MIN_SIG(2), ("requires", "significant_lookahead", "old(p).current_token is Some && !ignored_kind(old(p).current_token->0.kind)"), ("ensures", "conserved", "final(p).conserved(old(p))"), ("ensures", "fuel", "final(p).fuel() <= old(p).fuel()")],
          hints=[("body_start", None, "broadcast use lemma_conserved_trans_auto; broadcast use lemma_open_brackets_push;")]),
        G(VAL, "value", [GWF, BALANCED_UNLESS_EOF, EOF_STABLE, MIN_SIG(1), ("ensures", "conserved", "final(p).conserved(old(p))"),
                         ("ensures", "fuel", "final(p).fuel() <= old(p).fuel() && ((pop_on_error && old(p).current_token is Some) ==> final(p).fuel() < old(p).fuel())"),
                         ("decreases", None, "old(p).fuel(), 2int")],
          hints=[("body_start", None, "broadcast use lemma_conserved_trans_auto; broadcast use lemma_open_brackets_push;")]),
        G(VAL, "list_value", [GWF, ("ensures", "no_error_means_brackets_balanced_unless_at_end_of_input", "(final(p).clean_since(old(p)) && !final(p).eof_consumed() && !final(p).at_kind(TokenKind::Eof)) ==> open_brackets(final(p).builder.sig()) == open_brackets(old(p).builder.sig())", ["C05", "C07"]), EOF_STABLE, MIN_SIG(1), MIN_SIG(2, "!final(p).at_kind(TokenKind::Eof)"), ("requires", "significant_lookahead", "old(p).current_token is Some && !ignored_kind(old(p).current_token->0.kind)"), ("ensures", "conserved", "final(p).conserved(old(p))"),
                              ("ensures", "fuel", "final(p).fuel() <= old(p).fuel() && (old(p).current_token is Some ==> final(p).fuel() < old(p).fuel())"),
                              ("decreases", None, "old(p).fuel(), 1int")],
          inline_combinators=1, n_loops=1,
          loops=[gloop(LOOK, min_before=1, extra=[("strictly_below_entry", "p.fuel() < old(p).fuel()")], balanced_at=(0, 0, 1), balanced_except_break=True,
                       extra_ensures=[("brackets_closed_or_at_end_of_input", "(p.clean_since(old(p)) && !p.eof_consumed() && !p.at_kind(TokenKind::Eof)) ==> open_brackets(p.builder.sig()) == open_brackets(old(p).builder.sig())", ["C05", "C07"]),
                                      ("closed_or_at_end_of_input", "(p.clean_since(old(p)) && !p.eof_consumed() && !p.at_kind(TokenKind::Eof)) ==> p.builder.nsig() >= old(p).builder.nsig() + 2", ["C05"])], items_may_stop_at_eof=True)],
          hints=[("body_start", None, "broadcast use lemma_conserved_trans_auto; broadcast use lemma_open_brackets_push;")]),
        G(VAL, "object_value", [GWF, BALANCED, EOF_STABLE, MIN_SIG(2), ("requires", "significant_lookahead", "old(p).current_token is Some && !ignored_kind(old(p).current_token->0.kind)"), ("ensures", "conserved", "final(p).conserved(old(p))"),
                                ("ensures", "fuel", "final(p).fuel() <= old(p).fuel() && (old(p).current_token is Some ==> final(p).fuel() < old(p).fuel())"),
                                ("decreases", None, "old(p).fuel(), 1int")],
          inline_combinators=1, n_loops=1,
          loops=[gloop(LOOK, min_before=1, extra=[("strictly_below_entry", "p.fuel() < old(p).fuel()")], balanced_at=(1, 0, 0), items_may_stop_at_eof=True)],
          hints=[("body_start", None, "broadcast use lemma_conserved_trans_auto; broadcast use lemma_open_brackets_push;")]),


        # ---------------- the executable half of the grammar ----------------
        GF("name.rs", "name", min_sig=1, progress=AT("Name"),
           extra=[("ensures", "other_lookahead_kept", "(old(p).has_look() && !old(p).at_kind(TokenKind::Name)) ==> final(p).current_token == old(p).current_token && final(p).lexer == old(p).lexer"),
                  ("ensures", "ready_after", "final(p).ready()")]),
        GF("name.rs", "alias", min_sig=2, progress=LOOK),
        GF("variable.rs", "variable", min_sig=2, progress=LOOK),
        GF("variable.rs", "variable_definition", balanced="unless_eof", min_sig=4, progress=LOOK),
        GF("variable.rs", "variable_definitions", min_sig=6, progress=LOOK, inline_combinators=1, n_loops=1, loops=[gloop(LOOK, min_before=5, balanced_at=(0, 1, 0), items_may_stop_at_eof=True)]),
        GF("argument.rs", "argument", balanced="unless_eof", min_sig=3, progress=AT("Name")),
        GF("argument.rs", "arguments", min_sig=5, progress=LOOK, inline_combinators=1, n_loops=1, loops=[gloop(LOOK, min_before=4, balanced_at=(0, 1, 0), items_may_stop_at_eof=True)]),
        GF("directive.rs", "directive", min_sig=2, progress=AT("At")),
        GF("directive.rs", "directives", progress=AT("At"), min_sig=(2, AT("At")), inline_combinators=1, n_loops=1, loops=[gloop(AT("At"), True, min_first=(2, AT("At")))]),
        GF("field.rs", "field", min_sig=1, progress=AT("Name"), decreases="old(p).fuel(), 2int"),
        GF("selection.rs", "selection", min_sig=1, decreases="old(p).fuel(), 3int",
           extra=[("requires", "called_one_nesting_level_down", "old(p).recursion_limit.current > 0", ["C04"])],   # every selection list is parsed inside a counted nesting level
           inline_combinators=1, n_loops=1,
           loops=[gloop(extra=[("a_selection_means_a_token", "has_selection ==> ((p.clean_since(old(p)) && !p.eof_consumed()) ==> p.builder.nsig() >= old(p).builder.nsig() + 1)", ["C05"])])]),
        GF("fragment.rs", "fragment_definition", min_sig=7, progress=LOOK),
        GF("fragment.rs", "fragment_name", extra=[("ensures", "on_is_not_a_fragment_name", '(old(p).at_kind(TokenKind::Name) && old(p).current_token->0.data == "on") ==> !(final(p).errors@.len() == old(p).errors@.len() && final(p).accept_errors)', ["C05"])], min_sig=1),
        GF("fragment.rs", "type_condition", extra=[("ensures", "starts_with_on", '(old(p).has_sig() && !(old(p).at_kind(TokenKind::Name) && old(p).current_token->0.data@ == "on"@)) ==> !(final(p).errors@.len() == old(p).errors@.len() && final(p).accept_errors)', ["C05"])], min_sig=2),
        GF("fragment.rs", "inline_fragment", min_sig=4, progress=LOOK, decreases="old(p).fuel(), 2int"),
        GF("fragment.rs", "fragment_spread", min_sig=2, progress=LOOK),
        GF("operation.rs", "operation_definition", min_sig=3, progress=LOOK),
        GF("operation.rs", "operation_type", extra=[("ensures", "only_query_mutation_subscription", '(old(p).has_sig() && !(old(p).current_token->0.data == "query" || old(p).current_token->0.data == "mutation" || old(p).current_token->0.data == "subscription")) ==> !(final(p).errors@.len() == old(p).errors@.len() && final(p).accept_errors)', ["C05"])], min_sig=1, progress=LOOK),


        # ---------------- the type-system half of the grammar ----------------
        GF("description.rs", "description", min_sig=1, progress=LOOK),
        GF("argument.rs", "arguments_definition", min_sig=5, progress=LOOK, inline_combinators=1, n_loops=1, loops=[gloop(LOOK, min_before=4, balanced_at=(0, 1, 0), items_may_stop_at_eof=True)]),
        GF("field.rs", "fields_definition", min_sig=5, progress=LOOK, inline_combinators=1, n_loops=1, loops=[gloop(LOOK, min_before=4, balanced_at=(1, 0, 0))]),
        GF("field.rs", "field_definition", min_sig=3, progress=NS),
        GF("input.rs", "input_object_type_definition", min_sig=[(2, KW("input")), (1, AT("StringValue"))], progress=NS),
        GF("input.rs", "input_object_type_extension", min_sig=5, progress=LOOK),
        GF("input.rs", "input_fields_definition", min_sig=5, progress=LOOK, inline_combinators=1, n_loops=1, loops=[gloop(LOOK, min_before=4, balanced_at=(1, 0, 0), items_may_stop_at_eof=True)]),
        GF("input.rs", "input_value_definition", balanced="unless_eof", min_sig=3, progress=NS),
        GF("enum_.rs", "enum_type_definition", min_sig=[(2, KW("enum")), (1, AT("StringValue"))], progress=NS),
        GF("enum_.rs", "enum_type_extension", min_sig=5, progress=LOOK),
        GF("enum_.rs", "enum_values_definition", min_sig=3, progress=LOOK, inline_combinators=1, n_loops=1, loops=[gloop(LOOK, min_before=2, balanced_at=(1, 0, 0))]),
        GF("enum_.rs", "enum_value_definition", min_sig=(1, NS), progress=NS),
        GF("union_.rs", "union_type_definition", min_sig=[(2, KW("union")), (1, AT("StringValue"))], progress=NS),
        GF("union_.rs", "union_type_extension", min_sig=5, progress=LOOK),
        GF("union_.rs", "union_member_types", min_sig=2, progress=LOOK, inline_combinators=1, n_loops=1, loops=[gloop(LOOK, min_before=2)]),
        GF("interface.rs", "interface_type_definition", min_sig=[(2, KW("interface")), (1, AT("StringValue"))], progress=NS),
        GF("interface.rs", "interface_type_extension", min_sig=5, progress=LOOK),
        GF("object.rs", "object_type_definition", min_sig=[(2, KW("type")), (1, AT("StringValue"))], progress=NS),
        GF("object.rs", "object_type_extension", min_sig=5, progress=LOOK),
        GF("object.rs", "implements_interfaces", min_sig=2, progress=LOOK, inline_combinators=1, n_loops=1, loops=[gloop(LOOK, min_before=2)]),
        GF("schema.rs", "root_operation_type_definition", min_sig=3, progress=LOOK),
        GF("schema.rs", "schema_definition", min_sig=[(6, KW("schema")), (1, AT("StringValue"))], progress=SCHEMA_START, inline_combinators=1, n_loops=1,
           loops=[gloop(SCHEMA_START, min_before=[(2, KW("schema")), (1, AT("StringValue"))],
                        extra=[("a_root_operation_means_three_tokens", "has_root_operation_types ==> ((p.clean_since(old(p)) && !p.eof_consumed() && (%s)) ==> p.builder.nsig() >= old(p).builder.nsig() + 5)" % KW("schema"), ["C05"])], balanced_at=(1, 0, 0))]),
        GF("schema.rs", "schema_extension", min_sig=4, progress=LOOK, inline_combinators=1, n_loops=1,
           loops=[gloop(LOOK, min_before=3, extra=[("requirements_met_means_four_tokens", "meets_requirements ==> ((p.clean_since(old(p)) && !p.eof_consumed()) ==> p.builder.nsig() >= old(p).builder.nsig() + 4)", ["C05"])], balanced_at=(1, 0, 0))]),
        GF("scalar.rs", "scalar_type_definition", min_sig=[(2, KW("scalar")), (1, AT("StringValue"))], progress=NS),
        GF("scalar.rs", "scalar_type_extension", min_sig=5, progress=LOOK),
        GF("directive.rs", "directive_definition", min_sig=[(5, KW("directive")), (1, AT("StringValue"))], progress=NS, inline_combinators=1, n_loops=1, loops=[gloop(NS, min_before=[(3, KW("directive")), (1, AT("StringValue"))], balanced_at=(0, 1, 0), items_may_stop_at_eof=True)]),
        GF("directive.rs", "directive_location", min_sig=1),
        GF("directive.rs", "directive_locations", min_sig=1, inline_combinators=1, n_loops=1, loops=[gloop(min_before=1)]),
        GF("extensions.rs", "extensions", min_sig=4, progress=LOOK, extra=[("requires", "lookahead_present_or_lexer_exhausted", "old(p).ready()")]),


        # ---------------- the document ----------------
        GF("document.rs", "select_definition",
           progress="old(p).at_kind(TokenKind::StringValue) || ((old(p).at_kind(TokenKind::Name) || old(p).at_kind(TokenKind::LCurly)) && def == old(p).current_token->0.data)",
           extra=[("requires", "lookahead_present_or_lexer_exhausted", "old(p).ready()")],
           hints=[("body_start", None, 'proof { reveal_strlit("directive"); reveal_strlit("enum"); reveal_strlit("extend"); reveal_strlit("fragment"); reveal_strlit("input"); reveal_strlit("interface"); reveal_strlit("type"); reveal_strlit("query"); reveal_strlit("mutation"); reveal_strlit("subscription"); reveal_strlit("{"); reveal_strlit("scalar"); reveal_strlit("schema"); reveal_strlit("union"); }')]),
        GF("document.rs", "document",
           extra=[("requires", "recursion_bookkeeping_starts_at_zero", "old(p).recursion_limit.current == 0", ["C01", "C04"]),
                  ("ensures", "queue_flushed", "final(p).pending@.len() == 0", ["C02"]),
                  ("ensures", "whole_input_consumed_unless_token_limit", "!final(p).lexer.limited() ==> cur_text(final(p).current_token) =~= Seq::<char>::empty() && final(p).lexer.rest() =~= Seq::<char>::empty()", ["C02"])],
           rewrites=[(r'assert_eq!\(\s*p\.recursion_limit\.current,\s*0,\s*"unbalanced limit increment / decrement"\s*\);', "assert!(p.recursion_limit.current == 0);", 1, "re")],
           inline_combinators=1, n_loops=1,
           loops=[dict(invariant=[("conserved", "p.conserved(old(p)), p.fuel() <= old(p).fuel()"), ("eof_stays_consumed", "old(p).eof_consumed() ==> p.eof_consumed()"),
                                  ("brackets_so_far", "(p.clean_since(old(p)) && !p.eof_consumed()) ==> open_brackets(p.builder.sig()) == open_brackets(old(p).builder.sig())", ["C05"]), ("recursion_bookkeeping_balanced", "p.recursion_limit.current == 0", ["C01", "C04"])],
                       ensures=[("whole_input_consumed_unless_token_limit", "!p.lexer.limited() ==> cur_text(p.current_token) =~= Seq::<char>::empty() && p.lexer.rest() =~= Seq::<char>::empty()")],
                       decreases="p.fuel()")]),
        P("parse", [("requires", "wf", "self_in.wf()"),
                    ("requires", "fresh", "self_in.builder.text() =~= Seq::<char>::empty() && self_in.pending@.len() == 0 && self_in.current_token is None && self_in.recursion_limit.current == 0"),
                    ("ensures", "tree_text_is_a_prefix_of_the_input", "is_prefix(tree.text@, self_in.lexer.rest())", ["C04", "C02"]),
                    ("ensures", "no_error_dropped", "tree.errors@.len() == 0 ==> self_in.errors@.len() == 0")],
          ret="tree", props=["C02", "C04", "C01"],
          rewrites=[("grammar::document::document(&mut self);", "document(&mut self);", 1), MUTSELF_1, MUTSELF_2,
                    ('Rc::try_unwrap\\(this\\.builder\\)\\s*\\.expect\\(\\"More than one reference to builder left\\"\\)\\s*\\.into_inner\\(\\)', "this.builder", 1, "re")],
          hints=[("after", "document(&mut this);",
                  "proof { /* C02: with no token limit hit, the text of the document tree IS the input */\n"
                  "        assert(this.all_text() =~= self_in.all_text());\n"
                  "        assert(pending_text(this.pending@) =~= Seq::<char>::empty());\n"
                  "        assert(self_in.all_text() =~= self_in.lexer.rest()) by { assert(pending_text(self_in.pending@) =~= Seq::<char>::empty()); }\n"
                  "        assert(!this.lexer.limited() ==> this.builder.text() =~= self_in.lexer.rest());\n"
                  "        lemma_tree_is_prefix_of_input(&self_in, &this, self_in.lexer.rest()); }")]),

        # ---------------- standalone entry points (C07) ----------------
        P("parse_type", [("requires", "wf", "self_in.wf()"), ("requires", "fresh", "!self_in.eof_consumed() && self_in.builder.sig() =~= Seq::<SyntaxKind>::empty()"),
                         ("ensures", "no_error_dropped", "tree.errors@.len() == 0 ==> self_in.errors@.len() == 0")],
          ret="tree", props=["C07", "C01"],
          rewrites=[("grammar::ty::standalone_ty(&mut self);", "standalone_ty(&mut self);", 1), MUTSELF_1, MUTSELF_2,
                    ('Rc::try_unwrap\\(this\\.builder\\)\\s*\\.expect\\(\\"More than one reference to builder left\\"\\)\\s*\\.into_inner\\(\\)', "this.builder", 1, "re")],
          hints=[("before", "let builder = this.builder;",
                  "let ghost errs = this.errors;\n"
                  "proof { /* C07: no error is reported only if the significant tokens are exactly one type reference and nothing but ignored tokens is left */\n"
                  "        assert(this.errors@.len() == 0 ==> this.at_end() && g_type(this.builder.sig())) by { if this.errors@.len() == 0 { assert(mid.errors@.len() == 0); assert(mid.clean_since(&self_in)); assert(mid.builder.sig().skip(0) =~= mid.builder.sig()); assert(this.builder.sig() == mid.builder.sig()); } } }"),
                 ("after", "standalone_ty(&mut this);", "let ghost mid = this;"),
                 ("before", "match builder {", "proof { assert(builder is Type && builder->Type_0.errors == errs); /* the tree reports exactly the parser's errors */ }")]),
        P("parse_selection_set", [("requires", "wf", "self_in.wf()"),
                                  ("ensures", "no_error_dropped", "tree.errors@.len() == 0 ==> self_in.errors@.len() == 0")],
          ret="tree", props=["C07", "C01"],
          rewrites=[("grammar::selection::field_set(&mut self);", "field_set(&mut self);", 1), MUTSELF_1, MUTSELF_2,
                    ('Rc::try_unwrap\\(this\\.builder\\)\\s*\\.expect\\(\\"More than one reference to builder left\\"\\)\\s*\\.into_inner\\(\\)', "this.builder", 1, "re")],
          hints=[("before", "let builder = this.builder;",
                  "let ghost errs = this.errors;\n"
                  "proof { /* C07: no error is reported only if nothing but ignored tokens is left after the selection set */\n"
                  "        assert(this.errors@.len() == 0 ==> this.at_end()); }"),
                 ("before", "match builder {", "proof { assert(builder is FieldSet && builder->FieldSet_0.errors == errs); }")]),
        r'''
// ---------------- property-level lemmas over the contracts ----------------
// C02: if the conserved quantity is conserved from Parser::new (where it is the input) up to the state document() ends in
// -- push_ignored() just ran (queue empty), the look-ahead token is None or EOF (empty text), the lexer has handed out
// everything -- then the tree text IS the input.  (document() itself drives a closure and is not verified; that it ends
// in this state is read off its last lines: frame check `document_ends_with_flush`.)
pub proof fn lemma_lossless(p0: &Parser, p: &Parser, input: Seq<char>)
    requires
        p0.all_text() =~= input,
        p.all_text() =~= p0.all_text(),
        p.pending@.len() == 0,
        cur_text(p.current_token) =~= Seq::<char>::empty(),
        p.lexer.rest() =~= Seq::<char>::empty(),
    ensures
        p.builder.text() =~= input,
{
    assert(pending_text(p.pending@) =~= Seq::<char>::empty());
}
// C04: with a token limit, the tree text is always a prefix of the input.
pub proof fn lemma_tree_is_prefix_of_input(p0: &Parser, p: &Parser, input: Seq<char>)
    requires p0.all_text() =~= input, p.all_text() =~= p0.all_text()
    ensures is_prefix(p.builder.text(), input)
{
    let rest = pending_text(p.pending@) + cur_text(p.current_token) + p.lexer.rest();
    assert(p.all_text() =~= p.builder.text() + rest);
    lemma_prefix_append(p.builder.text(), rest);
}
''',
    ],
}
