"""Unit `diagnostics` -- the last step of every "Ok / Valid iff no diagnostics" claim (C07, C15, C17): DiagnosticList::into_result,
into_result_with, into_valid_result (crates/apollo-compiler/src/validation/mod.rs), extracted verbatim.

Contracts: into_result is Ok exactly when the list is empty, and otherwise hands back ALL its diagnostics (sorted: the multiset is kept -- `sort` is a
shim "permutation of the entries"); into_result_with / into_valid_result are Ok exactly when the list is empty and then return the value itself
(wrapped in Valid: `Valid` is constructed only on this path), otherwise Err carries the value as `partial` together with every diagnostic.

Listed rewrite: `mut self` is alpha-renamed to a local (`let mut self_ = self;`).
Shims (trusted): DiagnosticList as its vector of entries (sources opaque); `sort` permutes (std `sort_by_key`, stable; the order itself is not decided).
"""
VM = "crates/apollo-compiler/src/validation/mod.rs"

PRELUDE = r'''
pub struct DiagnosticData { pub x: u64 }
pub struct SourceMap { pub x: u64 }
pub struct DiagnosticList { pub sources: SourceMap, pub diagnostics_data: Vec<DiagnosticData> }
impl DiagnosticList {
    // std slice::sort_by_key: a permutation of the entries
    #[verifier::external_body]
    fn sort(&mut self)
        ensures final(self).sources == old(self).sources, final(self).diagnostics_data@.to_multiset() == old(self).diagnostics_data@.to_multiset(),
                final(self).diagnostics_data@.len() == old(self).diagnostics_data@.len()
    { unimplemented!() }
}
pub struct WithErrors<T> { pub partial: T, pub errors: DiagnosticList }
pub struct Valid<T>(pub T);
'''

UNIT = {
    "name": "diagnostics",
    "properties": ["C07", "C15", "C17"],
    "parts": [
        PRELUDE,
        dict(file=VM, kind="fn", name="into_result", container="DiagnosticList", container_name="DiagnosticList", wrap="impl DiagnosticList", props=["C07", "C15", "C17"],
             rewrites=[("(mut self)", "(self)", 1), ("        if self.diagnostics_data.is_empty() {", "        let mut self_ = self;\n        if self_.diagnostics_data.is_empty() {", 1),
                       ("            self.sort();\n            Err(self)", "            self_.sort();\n            Err(self_)", 1)],
             clauses=[("ensures", "ok_iff_no_diagnostics", "r is Ok <==> self.diagnostics_data@.len() == 0"),
                      ("ensures", "all_diagnostics_are_handed_back", "r is Err ==> r->Err_0.diagnostics_data@.to_multiset() == self.diagnostics_data@.to_multiset() && r->Err_0.sources == self.sources")]),
        dict(file=VM, kind="fn", name="into_result_with", container="DiagnosticList", container_name="DiagnosticList", wrap="impl DiagnosticList", props=["C07", "C15", "C17"],
             clauses=[("ensures", "ok_iff_no_diagnostics", "r is Ok <==> self.diagnostics_data@.len() == 0"),
                      ("ensures", "value_returned_or_kept_as_partial", "match r { Ok(v) => v == value, Err(e) => e.partial == value && e.errors.diagnostics_data@.to_multiset() == self.diagnostics_data@.to_multiset() }")]),
        dict(file=VM, kind="fn", name="into_valid_result", container="DiagnosticList", container_name="DiagnosticList", wrap="impl DiagnosticList", props=["C07", "C15", "C17"],
             clauses=[("ensures", "valid_iff_no_diagnostics", "r is Ok <==> self.diagnostics_data@.len() == 0"),
                      ("ensures", "value_returned_or_kept_as_partial", "match r { Ok(v) => v.0 == value, Err(e) => e.partial == value && e.errors.diagnostics_data@.to_multiset() == self.diagnostics_data@.to_multiset() }")]),
    ],
}
