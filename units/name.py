"""Unit `name` -- C10 (first sentence): a Name can be created from a string iff it matches the Name grammar.

Extracted verbatim from crates/apollo-compiler/src/name.rs: Name::{is_valid_syntax, is_name_start,
is_name_continue, check_valid_syntax, new, new_static} and <Name as TryFrom<&str>>::try_from.
The constructors behind the check (new_unchecked, new_static_unchecked: unsafe pointer code) are
external here and are covered by the Kani harnesses in kani/apollo-compiler/name.rs.
"""
NAME = "crates/apollo-compiler/src/name.rs"

OUTER = "use vstd::string::StringSliceAdditionalSpecFns;"

PRELUDE = r'''
// ---------------- specification: https://spec.graphql.org/October2021/#Name ----------------
//   Name :: NameStart NameContinue*    NameStart :: Letter | `_`    NameContinue :: Letter | Digit | `_`
pub open spec fn is_start(b: u8) -> bool { (0x41 <= b <= 0x5a) || (0x61 <= b <= 0x7a) || b == 0x5f }
pub open spec fn is_cont(b: u8) -> bool { is_start(b) || (0x30 <= b <= 0x39) }
pub open spec fn name_grammar(s: Seq<u8>) -> bool {
    s.len() > 0 && is_start(s[0]) && forall|i: int| 1 <= i < s.len() ==> is_cont(#[trigger] s[i])
}

// std functions without a vstd spec (assumed; they are one-line range checks in core)
pub assume_specification[ u8::is_ascii_alphabetic ](b: &u8) -> (r: bool)
    ensures r == ((0x41 <= *b <= 0x5a) || (0x61 <= *b <= 0x7a));
pub assume_specification[ u8::is_ascii_alphanumeric ](b: &u8) -> (r: bool)
    ensures r == ((0x41 <= *b <= 0x5a) || (0x61 <= *b <= 0x7a) || (0x30 <= *b <= 0x39));

pub assume_specification[ u8::is_ascii_digit ](b: &u8) -> (r: bool) ensures r == (0x30 <= *b <= 0x39);
pub assume_specification[ u8::is_ascii_uppercase ](b: &u8) -> (r: bool) ensures r == (0x41 <= *b <= 0x5a);
pub assume_specification[ u8::is_ascii_lowercase ](b: &u8) -> (r: bool) ensures r == (0x61 <= *b <= 0x7a);
pub assume_specification[ u8::is_ascii ](b: &u8) -> (r: bool) ensures r == (*b <= 0x7f);

// ---------------- shims ----------------
pub struct SourceSpan { pub x: u64 }
pub struct InvalidNameError { pub name: String, pub location: Option<SourceSpan> }
// Name: only its text matters here (ghost bytes); the unsafe representation is Kani's business.
pub struct Name { pub text: Ghost<Seq<u8>> }
impl Name {
    #[verifier::external_body]
    pub fn new_unchecked(value: &str) -> (r: Self) ensures r.text@ == value.spec_bytes() { unimplemented!() }
    #[verifier::external_body]
    pub const fn new_static_unchecked(value: &'static str) -> (r: Self) ensures r.text@ == value.spec_bytes() { unimplemented!() }
}
'''


def N(name, clauses, **kw):
    d = dict(file=NAME, kind="fn", name=name, container="Name", container_name="Name", wrap="impl Name", clauses=clauses, props=["C10"])
    d.update(kw)
    return d


UNIT = {
    "name": "name",
    "properties": ["C10"],
    "outer": OUTER,
    "parts": [
        PRELUDE,
        N("is_name_start", [("ensures", "NameStart", "r == is_start(byte)")]),
        N("is_name_continue", [("ensures", "NameContinue", "r == is_cont(byte)")]),
        N("is_valid_syntax", [("ensures", "Name_grammar", "r == name_grammar(value.spec_bytes())")],
          n_loops=1,
          rewrites=[("let Some(&first) = bytes.first() else {", "let Some(first) = bytes.first() else {", 1),
                    ("Self::is_name_start(first)", "Self::is_name_start(*first)", 1)],
          loops=[dict(invariant=[
              ("bounds", "1 <= i <= bytes.len()"),
              ("bytes_are_the_string", "bytes@ == value.spec_bytes(), bytes@.len() > 0"),
              ("first_is_start", "is_start(bytes@[0])"),
              ("prefix_is_continue", "forall|j: int| 1 <= j < i ==> is_cont(#[trigger] bytes@[j])"),
          ], decreases="bytes.len() - i")]),
        N("check_valid_syntax", [("ensures", "ok_iff_grammar", "r is Ok <==> name_grammar(value.spec_bytes())")]),
        N("new", [("ensures", "ok_iff_grammar", "r is Ok <==> name_grammar(value.spec_bytes())"),
                  ("ensures", "same_text", "r is Ok ==> r->Ok_0.text@ == value.spec_bytes()")]),
        N("new_static", [("ensures", "ok_iff_grammar", "r is Ok <==> name_grammar(value.spec_bytes())"),
                         ("ensures", "same_text", "r is Ok ==> r->Ok_0.text@ == value.spec_bytes()")]),
        r'''
// ---------------- property-level lemmas ----------------
// every accepted byte is ASCII, so the accepted strings are exactly the matches of [_A-Za-z][_0-9A-Za-z]*
proof fn lemma_name_is_ascii(s: Seq<u8>)
    requires name_grammar(s)
    ensures forall|i: int| 0 <= i < s.len() ==> #[trigger] s[i] < 0x80
{
    assert forall|i: int| 0 <= i < s.len() implies #[trigger] s[i] < 0x80 by {
        if i == 0 { } else { assert(is_cont(s[i])); }
    }
}
proof fn name_grammar_examples()
{
    assert(!name_grammar(Seq::<u8>::empty()));
    assert(name_grammar(seq![0x5fu8]));                 // "_"
    assert(!name_grammar(seq![0x31u8, 0x61u8]));        // "1a"
    assert(name_grammar(seq![0x61u8, 0x31u8]));         // "a1"
    assert(!name_grammar(seq![0x61u8, 0x2du8]) ) by { assert(!is_cont(seq![0x61u8, 0x2du8][1])); }  // "a-"
}
''',
    ],
}
