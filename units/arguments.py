"""Unit `arguments` -- C26: CoerceArgumentValues (resolvers/input_coercion.rs: coerce_argument_values), the contract unit complete_list ASSUMES for
`coerce_argument_values` (errors only added at or below the field; the context otherwise unchanged) plus what the coerced map IS.

Extracted verbatim: coerce_argument_values; enum Type, Type::is_non_null; enum ResponseDataPathSegment, struct LinkedPathElement.

Specification (https://spec.graphql.org/October2021/#CoerceArgumentValues()), per argument definition, in order:
  * the field provides the argument with a VARIABLE that has a value: a null for a non-null argument type is a field error, otherwise the variable's
    (already coerced) value is used as is;
  * the field provides a literal: null for a non-null type is a field error, otherwise the literal is coerced to the argument type (a failure is a field error);
  * no value (argument absent, or a variable without a value): the default value if there is one, else a field error if the type is non-null, else no entry.
Any field error makes the whole result propagate, is recorded at the FIELD's path, and nothing else is recorded.
"The field provides the argument" = the first argument with that name (a valid document has at most one).

Listed rewrites: `for arg_def in &field_def.arguments {` -> an index loop; `.iter().find(|arg| P)` -> `vec_find(&v, closure)` with P kept verbatim as the closure's
body and its type and postcondition spelled out; `x.map_err(|err| { B; E })?` -> the match it stands for (the closure captures `ctx` mutably);
`format!(..)` / `format_args!(..)` -> opaque.
Shims (trusted): Name as its text; JsonMap as a map by key for `get`, with an uninterpreted `map_insert` for `insert`; coerce_argument_value (literal coercion)
and graphql_value_to_json as opaque functions of their arguments whose errors are recorded at the path given; ExecutionContext.errors held as the Vec.
"""
import importlib.util
import os

_here = os.path.dirname(os.path.abspath(__file__))
_spec = importlib.util.spec_from_file_location("complete_list_unit", os.path.join(_here, "complete_list.py"))
CL = importlib.util.module_from_spec(_spec)
_spec.loader.exec_module(CL)
_paths = CL.PRELUDE[CL.PRELUDE.index("// ---------------- specification: response paths"):CL.PRELUDE.index("// ---------------- specification: CompleteValue for lists")]

IC = "crates/apollo-compiler/src/resolvers/input_coercion.rs"
EXE = "crates/apollo-compiler/src/resolvers/execution.rs"
RESP = "crates/apollo-compiler/src/response.rs"
AST = "crates/apollo-compiler/src/ast/mod.rs"

PRELUDE = r'''
// ---------------- shims (trusted) ----------------
pub struct Name { pub text: String }
impl Name {
    #[verifier::external_body]
    pub fn as_str(&self) -> (r: &str) ensures r@ == self.text@ { unimplemented!() }
}
impl PartialEq for Name {
    #[verifier::external_body]
    fn eq(&self, other: &Name) -> (r: bool) ensures r == (self.text@ == other.text@) { unimplemented!() }
}
pub type NamedType = Name;
pub struct SourceSpan { pub x: u64 }
pub struct SourceMap { pub x: u64 }
pub struct Node<T>(pub Box<T>);
impl<T> core::ops::Deref for Node<T> {
    type Target = T;
    fn deref(&self) -> (r: &T) ensures *r == *self.0 { &*self.0 }
}
impl<T> Node<T> {
    pub fn as_ref(&self) -> (r: &T) ensures *r == *self.0 { &*self.0 }
    #[verifier::external_body]
    pub fn location(&self) -> Option<SourceSpan> { unimplemented!() }
}
pub struct Valid<T>(pub T);
impl<T> core::ops::Deref for Valid<T> {
    type Target = T;
    fn deref(&self) -> (r: &T) ensures *r == self.0 { &self.0 }
}
pub enum JsonValue { Null, Other(u64) }
impl JsonValue {
    pub fn is_null(&self) -> (r: bool) ensures r == (*self is Null) { match self { JsonValue::Null => true, _ => false } }
}
impl Clone for JsonValue {
    #[verifier::external_body]
    fn clone(&self) -> (r: Self) ensures r == *self { unimplemented!() }
}
pub type Entries = Seq<(Seq<char>, JsonValue)>;
/// serde_json::Map::insert on the entries in order: uninterpreted
pub uninterp spec fn map_insert(m: Entries, k: Seq<char>, v: JsonValue) -> Entries;
#[verifier::external_body]
pub struct JsonMap { x: u8 }
impl JsonMap {
    pub uninterp spec fn view(&self) -> Entries;
    /// the same map as a lookup table (variable values)
    pub uninterp spec fn table(&self) -> Map<Seq<char>, JsonValue>;
    #[verifier::external_body]
    pub fn new() -> (r: JsonMap) ensures r@.len() == 0 { unimplemented!() }
    #[verifier::external_body]
    pub fn insert(&mut self, k: &str, v: JsonValue) -> (r: Option<JsonValue>) ensures final(self)@ == map_insert(old(self)@, k@, v) { unimplemented!() }
    #[verifier::external_body]
    pub fn get(&self, k: &str) -> (r: Option<&JsonValue>)
        ensures match r { Some(v) => self.table().dom().contains(k@) && *v == self.table()[k@], None => !self.table().dom().contains(k@) }
    { unimplemented!() }
}
pub struct PropagateNull;
pub enum Value { Null, Variable(Name), Other(u64) }
impl Value {
    /// ast/impls.rs: `matches!(self, Value::Null)`
    pub fn is_null(&self) -> (r: bool) ensures r == (*self is Null) { match self { Value::Null => true, _ => false } }
}
pub struct Argument { pub name: Name, pub value: Node<Value> }
pub struct InputValueDefinition { pub name: Name, pub ty: Node<Type>, pub default_value: Option<Node<Value>> }
pub struct FieldDefinition { pub arguments: Vec<Node<InputValueDefinition>> }
pub struct Field { pub arguments: Vec<Node<Argument>> }
pub struct Document { pub sources: SourceMap }
pub struct GraphQLError { pub path: Vec<ResponseDataPathSegment>, pub rest: u64 }
pub type LinkedPath<'a> = Option<&'a LinkedPathElement<'a>>;
''' + _paths + r'''
impl GraphQLError {
    /// proved for the real function in unit `complete_list`
    #[verifier::external_body]
    pub fn field_error(message: String, path: LinkedPath<'_>, location: Option<SourceSpan>, sources: &SourceMap) -> (r: GraphQLError)
        ensures r.path@ == path_seq(path)
    { unimplemented!() }
}
pub struct InputCoercionError { pub x: u64 }
impl InputCoercionError {
    /// input_coercion.rs: a field error or a suspected-validation-bug field error with this path
    #[verifier::external_body]
    pub fn into_field_error(self, path: LinkedPath<'_>, sources: &SourceMap) -> (r: GraphQLError) ensures r.path@ == path_seq(path) { unimplemented!() }
}
/// real: `errors: &'a mut Vec<GraphQLError>`; held here as the Vec itself
pub struct Schema { pub x: u64 }
pub struct ExecutionContext<'a> { pub schema: &'a Valid<Schema>, pub document: &'a Document, pub variable_values: &'a Valid<JsonMap>, pub errors: Vec<GraphQLError> }
#[verifier::external_body]
pub fn fmt_opaque() -> String { unimplemented!() }
pub struct FmtArgs { pub x: u8 }
#[verifier::external_body]
pub fn fmt_args_opaque() -> FmtArgs { unimplemented!() }
#[verifier::external_body]
pub fn vec_find<'a, T, F: Fn(&T) -> bool>(v: &'a Vec<T>, f: F) -> (r: Option<&'a T>)
    requires forall|x: &T| f.requires((x,))
    ensures match r {
        Some(x) => exists|i: int| 0 <= i < v@.len() && #[trigger] v@[i] == *x && f.ensures((&v@[i],), true) && forall|j: int| 0 <= j < i ==> f.ensures((&#[trigger] v@[j],), false),
        None => forall|j: int| 0 <= j < v@.len() ==> f.ensures((&#[trigger] v@[j],), false),
    }
{ unimplemented!() }

pub open spec fn non_null(t: Type) -> bool { t is NonNullNamed || t is NonNullList }
/// coercion of a literal to the argument type (same file, recursive; not extracted): a function of type, literal and the variables
pub uninterp spec fn literal_coerced(ty: Type, value: Value, vars: Map<Seq<char>, JsonValue>) -> Result<JsonValue, PropagateNull>;
#[verifier::external_body]
pub fn coerce_argument_value(ctx: &mut ExecutionContext<'_>, path: LinkedPath<'_>, description: &FmtArgs, ty: &Type, value: &Node<Value>) -> (r: Result<JsonValue, PropagateNull>)
    ensures r == literal_coerced(*ty, *value.0, old(ctx).variable_values.0.table()),
            r is Ok ==> final(ctx).errors@ == old(ctx).errors@,
            r is Err ==> exactly_one_error_at(old(ctx).errors@, final(ctx).errors@, path_seq(path)),
            final(ctx).document == old(ctx).document, final(ctx).schema == old(ctx).schema, final(ctx).variable_values == old(ctx).variable_values,
{ unimplemented!() }
pub uninterp spec fn default_as_json(value: Value) -> Result<JsonValue, InputCoercionError>;
#[verifier::external_body]
pub fn graphql_value_to_json(description: &FmtArgs, value: &Node<Value>) -> (r: Result<JsonValue, InputCoercionError>)
    ensures r == default_as_json(*value.0)
{ unimplemented!() }
pub open spec fn exactly_one_error_at(e0: Seq<GraphQLError>, e1: Seq<GraphQLError>, at: Seq<ResponseDataPathSegment>) -> bool {
    e1.len() == e0.len() + 1 && e1.drop_last() =~= e0 && e1.last().path@ == at
}

// ---------------- specification: CoerceArgumentValues ----------------
/// the first argument with that name, from index k on
pub open spec fn provided(args: Seq<Node<Argument>>, name: Name, k: int) -> Option<Argument> decreases args.len() - k {
    if k < 0 || k >= args.len() { None } else if args[k].0.name.text@ == name.text@ { Some(*args[k].0) } else { provided(args, name, k + 1) }
}
pub enum Step { Insert(JsonValue), Skip, FieldError }
pub open spec fn no_value(d: InputValueDefinition) -> Step {
    match d.default_value {
        Some(dv) => match default_as_json(*dv.0) { Ok(v) => Step::Insert(v), Err(_) => Step::FieldError },
        None => if non_null(*d.ty.0) { Step::FieldError } else { Step::Skip },
    }
}
pub open spec fn step(d: InputValueDefinition, args: Seq<Node<Argument>>, vars: Map<Seq<char>, JsonValue>) -> Step {
    match provided(args, d.name, 0) {
        None => no_value(d),
        Some(a) => match *a.value.0 {
            Value::Variable(vn) => if vars.dom().contains(vn.text@) {
                    if vars[vn.text@] is Null && non_null(*d.ty.0) { Step::FieldError } else { Step::Insert(vars[vn.text@]) }
                } else { no_value(d) },
            lit => if lit is Null && non_null(*d.ty.0) { Step::FieldError }
                   else { match literal_coerced(*d.ty.0, lit, vars) { Ok(v) => Step::Insert(v), Err(_) => Step::FieldError } },
        },
    }
}
pub open spec fn args_outcome(defs: Seq<Node<InputValueDefinition>>, args: Seq<Node<Argument>>, vars: Map<Seq<char>, JsonValue>, i: int, out: Entries) -> Result<Entries, PropagateNull>
    decreases defs.len() - i
{
    if i < 0 || i >= defs.len() { Ok(out) }
    else { match step(*defs[i].0, args, vars) {
        Step::FieldError => Err(PropagateNull),
        Step::Skip => args_outcome(defs, args, vars, i + 1, out),
        Step::Insert(v) => args_outcome(defs, args, vars, i + 1, map_insert(out, defs[i].0.name.text@, v)),
    } }
}
/// what `vec_find` returned is `provided`
pub proof fn lemma_provided(args: Seq<Node<Argument>>, name: Name, k: int, i: int)
    requires 0 <= k <= i, i <= args.len(), forall|j: int| k <= j < i ==> (#[trigger] args[j]).0.name.text@ != name.text@,
    ensures i < args.len() && args[i].0.name.text@ == name.text@ ==> provided(args, name, k) == Some(*args[i].0),
            i == args.len() ==> provided(args, name, k) is None,
    decreases i - k
{
    if k < i { lemma_provided(args, name, k + 1, i); }
}
'''

FIND = (r"field\.arguments\.iter\(\)\.find\(\|arg\| arg\.name == \*arg_name\)",
        "vec_find(&field.arguments, |arg: &Node<Argument>| -> (b: bool) ensures b == (arg.0.name.text@ == arg_name.text@) { arg.name == *arg_name })", 1, "re")
MAP_ERR = (r"(?s)let value = (graphql_value_to_json\([^;]*?\))\s*\.map_err\(\|err\| \{(.*?)\n\s*PropagateNull\n\s*\}\)\?;",
           r"let value = match \1 { Ok(__v) => __v, Err(err) => {\2\n return Err(PropagateNull); } };", 1, "re")
FMT = (r'format!\("[^"]*"(?:,[^;]*?)?\)(?=,\n)', "fmt_opaque()", None, "re")
FMTA = (r'format_args!\("[^"]*"\)', "fmt_args_opaque()", None, "re")
ST = "args_outcome(field_def.arguments@, field.arguments@, ctx.variable_values.0.table(), %s, coerced_values@)"

UNIT = {
    "name": "arguments",
    "properties": ["C26"],
    "parts": [
        PRELUDE,
        dict(file=AST, kind="enum", name="Type", props=["C26"]),
        dict(file=RESP, kind="enum", name="ResponseDataPathSegment", props=["C26"], rewrites=[("crate::Name", "Name", 1)]),
        dict(file=EXE, kind="struct", name="LinkedPathElement", props=["C26"]),
        dict(file="crates/apollo-compiler/src/ast/impls.rs", kind="fn", name="is_non_null", container="Type", container_name="Type", wrap="impl Type", props=["C26"],
             clauses=[("ensures", "NonNull", "r == non_null(*self)")]),
        dict(file=IC, kind="fn", name="coerce_argument_values", props=["C26"], n_loops=1,
             rewrites=[("for arg_def in &field_def.arguments {",
                        "let mut __i: usize = 0; while __i < field_def.arguments.len() { let arg_def = &field_def.arguments[__i]; __i += 1;", 1),
                       FIND, MAP_ERR, FMT, FMTA],
             clauses=[("ensures", "context_unchanged", "final(ctx).document == old(ctx).document, final(ctx).schema == old(ctx).schema, final(ctx).variable_values == old(ctx).variable_values"),
                      ("ensures", "errors_lie_at_or_below_the_field", "errors_added_below(old(ctx).errors@, final(ctx).errors@, path_seq(path))"),
                      ("ensures", "CoerceArgumentValues",
                       "match args_outcome(field_def.arguments@, field.arguments@, old(ctx).variable_values.0.table(), 0, Seq::<(Seq<char>, JsonValue)>::empty()) { "
                       "Ok(m) => r matches Ok(map) && map@ == m && final(ctx).errors@ == old(ctx).errors@, "
                       "Err(_) => r is Err && exactly_one_error_at(old(ctx).errors@, final(ctx).errors@, path_seq(path)) }")],
             loops=[dict(invariant=[("bounds", "__i <= field_def.arguments@.len()"),
                                    ("context_unchanged", "ctx.document == old(ctx).document, ctx.schema == old(ctx).schema, ctx.variable_values == old(ctx).variable_values, ctx.errors@ == old(ctx).errors@"),
                                    ("coerced_so_far", (ST % "__i as int") + " == " + "args_outcome(field_def.arguments@, field.arguments@, ctx.variable_values.0.table(), 0, Seq::<(Seq<char>, JsonValue)>::empty())")],
                         decreases="field_def.arguments@.len() - __i")],
             hints=[("body_start", None, "broadcast use paths;"),
                    ("after", "let mut coerced_values = JsonMap::new();", "proof { assert(coerced_values@ =~= Seq::<(Seq<char>, JsonValue)>::empty()); }"),
                    ("loop_body_start", 0, "broadcast use paths;"),
                    ("after", "let arg_name = &arg_def.name;",
                     "proof { assert forall|i: int| 0 <= i <= field.arguments@.len() && (forall|j: int| 0 <= j < i ==> (#[trigger] field.arguments@[j]).0.name.text@ != arg_name.text@) implies "
                     "(i < field.arguments@.len() && field.arguments@[i].0.name.text@ == arg_name.text@ ==> provided(field.arguments@, *arg_name, 0) == Some(*field.arguments@[i].0)) "
                     "&& (i == field.arguments@.len() ==> provided(field.arguments@, *arg_name, 0) is None) by { lemma_provided(field.arguments@, *arg_name, 0, i); } }"),
                    ("before", "if let Some(default) = &arg_def.default_value {",
                     "proof { if forall|j: int| 0 <= j < field.arguments@.len() ==> (#[trigger] field.arguments@[j]).0.name.text@ != arg_name.text@ { lemma_provided(field.arguments@, *arg_name, 0, field.arguments@.len() as int); } }")]),
    ],
}
