"""Unit `smith_keywords` -- C32, KERNEL ONLY: `DocumentBuilder::limited_string` (apollo-smith/src/name.rs), the source of every generated name: what it
returns is non-empty and is not one of the reserved words AFTER the trailing underscores were trimmed (a generated `type_` must not come out as `type`:
the document would not parse, or would define a built-in scalar again).

Extracted verbatim: DocumentBuilder::limited_string.
Listed rewrites: the byte generator `String::from_utf8((0..size).map(..).collect::<..>()?).unwrap()` -> the opaque `self.generate(size)?` (any string, or the
Unstructured's error); `RESERVED_KEYWORDS.contains(&new_gen)` -> `reserved_contains(new_gen)` (slice search for that text); `gen_str.trim_end_matches('_')`,
`new_gen.is_empty()`, `new_gen.to_string()` -> shims with their std meaning on the characters; `self.u.int_in_range(1..=max_size)?` -> `self.int_in_range_from_1(max_size)?`.
`break <value>;` out of the `loop` that IS the function body's tail expression -> `return <value>;` (Verus has no break-with-value; the rewrite's anchor checks
that the loop is the tail).  Termination is not proved (the loop retries until the random source yields an acceptable string).
NOT decided: that the characters are name characters (the dropped generator), everything else of C32.
"""
NM = "crates/apollo-smith/src/name.rs"

PRELUDE = r'''
pub struct ArbError;
pub type ArbitraryResult<T> = Result<T, ArbError>;
pub struct DocumentBuilder { pub u: u64 }
impl DocumentBuilder {
    #[verifier::external_body]
    pub fn generate(&mut self, size: usize) -> ArbitraryResult<String> { unimplemented!() }
    #[verifier::external_body]
    pub fn int_in_range_from_1(&mut self, max: usize) -> ArbitraryResult<usize> { unimplemented!() }
}
/// one of RESERVED_KEYWORDS
pub uninterp spec fn is_reserved(s: Seq<char>) -> bool;
/// `s` without its trailing underscores
pub uninterp spec fn without_trailing_underscores(s: Seq<char>) -> Seq<char>;
#[verifier::external_body]
pub fn reserved_contains(s: &str) -> (r: bool) ensures r == is_reserved(s@) { unimplemented!() }
#[verifier::external_body]
pub fn trim_end_underscores(s: &String) -> (r: &str) ensures r@ == without_trailing_underscores(s@) { unimplemented!() }
#[verifier::external_body]
pub fn str_is_empty(s: &str) -> (r: bool) ensures r == (s@.len() == 0) { unimplemented!() }
#[verifier::external_body]
pub fn str_to_string(s: &str) -> (r: String) ensures r@ == s@ { unimplemented!() }
'''

UNIT = {
    "name": "smith_keywords",
    "properties": ["C32"],
    "parts": [
        PRELUDE,
        dict(file=NM, kind="fn", name="limited_string", container="DocumentBuilder<'_>", container_name="DocumentBuilder", wrap="impl DocumentBuilder", props=["C32"],
             n_loops=1, no_decreases=True,
             rewrites=[(r"(?s)(ArbitraryResult<String> \{\s*loop \{.*)\bbreak (Ok\([^;]*\);\s*\}\s*\}\s*\}\s*)$", r"\1return \2", 1, "re"),
                       (r"(?s)String::from_utf8\(\s*\(0\.\.size\)\s*\.map\(.*?\)\s*\.collect::<ArbitraryResult<Vec<u8>>>\(\)\?,\s*\)\s*\.unwrap\(\)", "self.generate(size)?", 1, "re"),
                       ("self.u.int_in_range(1..=max_size)?", "self.int_in_range_from_1(max_size)?", 1),
                       ("gen_str.trim_end_matches('_')", "trim_end_underscores(&gen_str)", None),
                       ("RESERVED_KEYWORDS.contains(&new_gen)", "reserved_contains(new_gen)", "*"),
                       ("RESERVED_KEYWORDS.contains(&gen_str.as_str())", "reserved_contains(gen_str.as_str())", "*"),
                       ("new_gen.is_empty()", "str_is_empty(new_gen)", None),
                       ("new_gen.to_string()", "str_to_string(new_gen)", None)],
             clauses=[("ensures", "a_name_that_is_not_empty_and_not_reserved", "r matches Ok(s) ==> s@.len() > 0 && !is_reserved(s@)")]),
    ],
}
