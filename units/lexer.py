"""Unit `lexer` -- C03 (first sentence + token kinds of the regular tokens), and the lexer contract that C01 / C02 assume.

Extracted verbatim from crates/apollo-parser/src/lexer/mod.rs: enum State, Cursor::{advance, eof,
unterminated_spread_operator, done} (the whole lexer state machine), is_whitespace_assimilated, is_name_continue,
is_line_terminator, is_escaped_char; from lexer/token_kind.rs: enum TokenKind; from lexer/token.rs: struct Token.

Cursor's six primitives over `CharIndices` (bump, eatc, current_str, prev_str, drain, is_pending; lexer/cursor.rs) are
NOT verified here: they are shims with a ghost model (the characters of the source, how many the iterator has yielded,
where the current token starts, whether one read character is pushed back), written from their bodies.

One block of `advance` is dropped by a listed rewrite: the surrogate check of a completed \\uXXXX escape
(`let hex_end = self.offset + 1; ... if char::from_u32(code_point).is_none() { ... }`), which slices the source by byte offsets
(outside Verus) and does not touch the cursor position; it is replaced by an opaque call that may only record an error.
"""
LX = "crates/apollo-parser/src/lexer/mod.rs"

PRELUDE = r'''
// ---------------- std specs (assumed) ----------------
pub assume_specification[ char::is_ascii_digit ](c: &char) -> (r: bool) ensures r == ('0' <= *c <= '9');
pub assume_specification[ char::is_ascii_hexdigit ](c: &char) -> (r: bool)
    ensures r == (('0' <= *c <= '9') || ('a' <= *c <= 'f') || ('A' <= *c <= 'F'));

// ---------------- shims (trusted) ----------------
#[verifier::external_body]
pub fn shim_format() -> String { unimplemented!() }
macro_rules! format { ($($t:tt)*) => { shim_format() } }
pub trait CharToStringShim { fn to_string_shim(&self) -> String; }
impl CharToStringShim for char {
    #[verifier::external_body]
    fn to_string_shim(&self) -> String { unimplemented!() }
}
pub fn str_to_string(s: &str) -> (r: String) ensures r@ == s@ { s.to_string() }
pub trait StrToStringShim { spec fn v(&self) -> Seq<char>; fn to_string_shim(&self) -> (r: String) ensures r@ == self.v(); }
impl StrToStringShim for &str {
    open spec fn v(&self) -> Seq<char> { (*self)@ }
    fn to_string_shim(&self) -> (r: String) { (*self).to_string() }
}

// crate::Error: message irrelevant; `data` is the offending text, `index` its position (not verified).
pub struct Error { pub data: String, pub index: usize }
impl Error {
    #[verifier::external_body]
    pub fn with_loc<S>(message: S, data: String, index: usize) -> (r: Error) ensures r.data == data { unimplemented!() }
    pub fn set_data(&mut self, data: String) ensures final(self).data == data { self.data = data; }
}
impl Clone for Error {
    #[verifier::external_body]
    fn clone(&self) -> (r: Self) ensures r == *self { unimplemented!() }
}

// lookup::punctuation_kind / is_namestart read 256-entry tables built by const fns. Their contracts are exactly what the
// Kani harnesses c03_punctuation_kind_all_chars / c03_name_classes_all_chars prove on the real code for every char.
pub open spec fn spec_punct(c: char) -> Option<TokenKind> {
    if c == '!' { Some(TokenKind::Bang) } else if c == '$' { Some(TokenKind::Dollar) } else if c == '&' { Some(TokenKind::Amp) }
    else if c == '(' { Some(TokenKind::LParen) } else if c == ')' { Some(TokenKind::RParen) } else if c == ':' { Some(TokenKind::Colon) }
    else if c == '=' { Some(TokenKind::Eq) } else if c == '@' { Some(TokenKind::At) } else if c == '[' { Some(TokenKind::LBracket) }
    else if c == ']' { Some(TokenKind::RBracket) } else if c == '{' { Some(TokenKind::LCurly) } else if c == '|' { Some(TokenKind::Pipe) }
    else if c == '}' { Some(TokenKind::RCurly) } else if c == ',' { Some(TokenKind::Comma) } else { None }
}
pub open spec fn name_start(c: char) -> bool { ('a' <= c <= 'z') || ('A' <= c <= 'Z') || c == '_' }
pub open spec fn name_cont(c: char) -> bool { name_start(c) || ('0' <= c <= '9') }
pub open spec fn digit(c: char) -> bool { '0' <= c <= '9' }
pub open spec fn ws(c: char) -> bool { c == '\u{9}' || c == ' ' || c == '\n' || c == '\r' || c == '\u{FEFF}' }
pub open spec fn line_term(c: char) -> bool { c == '\n' || c == '\r' }
pub mod lookup {
    use super::*;
    #[verifier::external_body]
    pub fn punctuation_kind(c: char) -> (r: Option<TokenKind>) ensures r == spec_punct(c) { unimplemented!() }
    #[verifier::external_body]
    pub fn is_namestart(c: char) -> (r: bool) ensures r == name_start(c) { unimplemented!() }
}

// ---- Cursor: ghost model of lexer/cursor.rs ----
pub struct CM {
    pub chars: Seq<char>,   // the source text
    pub start: nat,         // char index where the text of the token being lexed starts   (`index`)
    pub read: nat,          // how many chars the CharIndices iterator has yielded          (`chars`, `offset`)
    pub pending: bool,      // the char read last is pushed back: chars[read - 1]           (`pending`)
}
impl CM {
    pub open spec fn eff(&self) -> nat { if self.pending { (self.read - 1) as nat } else { self.read } }
    pub open spec fn wf(&self) -> bool {
        self.read <= self.chars.len() && (self.pending ==> self.read >= 1) && self.start <= self.eff()
    }
    pub open spec fn measure(&self) -> nat { (self.chars.len() - self.read + (if self.pending { 1nat } else { 0nat })) as nat }
}
pub struct Cursor<'a> {
    pub offset: usize,      // real fields the extracted bodies touch directly; not related to the model here
    pub source: &'a str,
    pub err: Option<Error>,
    pub m: Ghost<CM>,
}
impl<'a> Cursor<'a> {
    #[verifier::external_body]
    pub fn index(&self) -> usize { unimplemented!() }
    #[verifier::external_body]
    pub fn is_pending(&self) -> (r: bool) ensures r == self.m@.pending { unimplemented!() }
    /// next char: the pushed-back one if any, else the next one from the iterator
    #[verifier::external_body]
    pub fn bump(&mut self) -> (r: Option<char>)
        requires old(self).m@.wf()
        ensures
            final(self).offset == old(self).offset, final(self).source == old(self).source, final(self).err == old(self).err,
            final(self).m@.chars == old(self).m@.chars, final(self).m@.start == old(self).m@.start, !final(self).m@.pending,
            old(self).m@.pending ==> r == Some(old(self).m@.chars[old(self).m@.read - 1]) && final(self).m@.read == old(self).m@.read,
            (!old(self).m@.pending && old(self).m@.read < old(self).m@.chars.len()) ==> r == Some(old(self).m@.chars[old(self).m@.read as int]) && final(self).m@.read == old(self).m@.read + 1,
            (!old(self).m@.pending && old(self).m@.read >= old(self).m@.chars.len()) ==> r is None && final(self).m@.read == old(self).m@.read,
    { unimplemented!() }
    /// consume the next char if it is `c`; otherwise push it back (panics if a char is already pushed back)
    #[verifier::external_body]
    pub fn eatc(&mut self, c: char) -> (r: bool)
        requires old(self).m@.wf(), !old(self).m@.pending
        ensures
            final(self).source == old(self).source, final(self).err == old(self).err,
            final(self).m@.chars == old(self).m@.chars, final(self).m@.start == old(self).m@.start,
            old(self).m@.read < old(self).m@.chars.len() ==> final(self).m@.read == old(self).m@.read + 1
                && r == (old(self).m@.chars[old(self).m@.read as int] == c) && final(self).m@.pending == !r,
            old(self).m@.read >= old(self).m@.chars.len() ==> !r && final(self).m@.read == old(self).m@.read && !final(self).m@.pending,
    { unimplemented!() }
    /// text of the token up to and including the char read last; peeks one more char and pushes it back
    #[verifier::external_body]
    pub fn current_str(&mut self) -> (r: &'a str)
        requires old(self).m@.wf()
        ensures
            final(self).source == old(self).source, final(self).err == old(self).err, final(self).m@.chars == old(self).m@.chars,
            r@ =~= old(self).m@.chars.subrange(old(self).m@.start as int, old(self).m@.read as int),
            final(self).m@.start == old(self).m@.read,
            old(self).m@.read < old(self).m@.chars.len() ==> final(self).m@.read == old(self).m@.read + 1 && final(self).m@.pending,
            old(self).m@.read >= old(self).m@.chars.len() ==> final(self).m@.read == old(self).m@.read && !final(self).m@.pending,
    { unimplemented!() }
    /// text of the token up to but excluding the char read last, which is pushed back
    #[verifier::external_body]
    pub fn prev_str(&mut self) -> (r: &'a str)
        requires old(self).m@.wf(), old(self).m@.read >= 1, old(self).m@.start <= old(self).m@.read - 1
        ensures
            final(self).source == old(self).source, final(self).err == old(self).err, final(self).m@.chars == old(self).m@.chars,
            r@ =~= old(self).m@.chars.subrange(old(self).m@.start as int, old(self).m@.read - 1),
            final(self).m@.start == old(self).m@.read - 1, final(self).m@.read == old(self).m@.read, final(self).m@.pending,
    { unimplemented!() }
    /// the rest of the source from the token start (`source.len() - 1` underflows on an empty source)
    #[verifier::external_body]
    pub fn drain(&mut self) -> (r: &'a str)
        requires old(self).m@.wf(), old(self).m@.chars.len() >= 1
        ensures
            final(self).source == old(self).source, final(self).err == old(self).err, final(self).m@.chars == old(self).m@.chars,
            r@ =~= old(self).m@.chars.subrange(old(self).m@.start as int, old(self).m@.chars.len() as int),
            final(self).m@.start == old(self).m@.chars.len(), final(self).m@.read == old(self).m@.read, !final(self).m@.pending,
    { unimplemented!() }
    pub fn err(&mut self) -> (r: Option<Error>) ensures r == old(self).err, *final(self) == *old(self) {
        match &self.err { Some(e) => Some(e.clone()), None => None }
    }
    pub fn add_err(&mut self, err: Error)
        ensures final(self).err == Some(err), final(self).m == old(self).m, final(self).source == old(self).source, final(self).offset == old(self).offset
    { self.err = Some(err) }
    /// DROPPED BLOCK (listed rewrite): surrogate check of a completed \uXXXX escape; may only record an error.
    #[verifier::external_body]
    pub fn shim_check_unicode_escape(&mut self)
        ensures final(self).m == old(self).m, final(self).source == old(self).source, final(self).offset == old(self).offset
    { unimplemented!() }
}

// ---------------- specification of the lexer contract ----------------
impl<'a> Cursor<'a> {
    /// between two calls of advance(): everything read has been handed out
    pub open spec fn idle(&self) -> bool { self.m@.wf() && self.m@.start == self.m@.eff() }
    /// the text handed out by one call
    pub open spec fn emitted(&self, o: &Self) -> Seq<char> { self.m@.chars.subrange(o.m@.start as int, self.m@.start as int) }
}
pub open spec fn item_text<'a>(r: Result<Token<'a>, Error>) -> Seq<char> { match r { Ok(t) => t.data@, Err(e) => e.data@ } }
'''

HEX_BLOCK_RE = r"(?s)let hex_end = self\.offset \+ 1;.*?\n                            continue;"
HEX_BLOCK_NEW = "self.shim_check_unicode_escape();\n                            continue;"

ADV_POST = [
    ("ensures", "idle_again", "final(self).idle() && final(self).m@.chars == old(self).m@.chars && final(self).source == old(self).source"),
    ("ensures", "item_is_next_piece_of_input", "final(self).m@.start >= old(self).m@.start && item_text(r) =~= final(self).emitted(old(self))"),
    ("ensures", "progress", "final(self).m@.start > old(self).m@.start || (r is Ok && r->Ok_0.kind is Eof && old(self).m@.start == old(self).m@.chars.len())"),
    ("ensures", "eof_only_at_end", "(r is Ok && r->Ok_0.kind is Eof) ==> final(self).m@.start == final(self).m@.chars.len() && r->Ok_0.data@ =~= Seq::<char>::empty()"),
]

UNIT = {
    "name": "lexer",
    "properties": ["C03", "C01", "C02"],
    "rlimit_retry": [100, 400],
    "parts": [
        dict(file="crates/apollo-parser/src/lexer/token_kind.rs", kind="enum", name="TokenKind", attrs="#[derive(Clone, Copy, PartialEq, Eq, Structural)]"),
        dict(file="crates/apollo-parser/src/lexer/token.rs", kind="struct", name="Token", pub_fields=True),
        PRELUDE,
        dict(file=LX, kind="enum", name="State"),
        dict(file=LX, kind="fn", name="is_whitespace_assimilated", clauses=[("ensures", "WhiteSpace_LineTerminator_BOM", "r == ws(c)")], props=["C03"]),
        dict(file=LX, kind="fn", name="is_name_continue", clauses=[("ensures", "NameContinue", "r == name_cont(c)")], props=["C03"]),
        dict(file=LX, kind="fn", name="is_line_terminator", clauses=[("ensures", "LineTerminator_chars", "r == line_term(c)")], props=["C03"]),
        dict(file=LX, kind="fn", name="is_escaped_char", clauses=[("ensures", "EscapedCharacter", "r == (c == '\"' || c == '\\\\' || c == '/' || c == 'b' || c == 'f' || c == 'n' || c == 'r' || c == 't')")], props=["C03"]),
        dict(file=LX, kind="fn", name="done", container=r"Cursor<'a>", container_name="Cursor", wrap="impl<'a> Cursor<'a>",
             clauses=[("ensures", "same_text", "item_text(r) == token.data@ && (r is Ok ==> r->Ok_0 == token)"),
                      ("ensures", "frame", "final(self).m == old(self).m && final(self).source == old(self).source")],
             rewrites=[("token.data.to_string()", "str_to_string(token.data)", 1)], props=["C03", "C01", "C02"]),
    
        dict(file=LX, kind="fn", name="unterminated_spread_operator", container=r"Cursor<'a>", container_name="Cursor", wrap="impl<'a> Cursor<'a>",
             clauses=[("requires", "wf", "old(self).m@.wf()"),
                      ("ensures", "is_error", "r is Err"),
                      ("ensures", "idle_again", "final(self).idle() && final(self).m@.chars == old(self).m@.chars && final(self).source == old(self).source"),
                      ("ensures", "item_is_next_piece_of_input", "final(self).m@.start >= old(self).m@.eff() && item_text(r) =~= final(self).emitted(old(self))")],
             rewrites=[("data.to_string()", "str_to_string(data)", 1)], props=["C03", "C01", "C02"]),
        dict(file=LX, kind="fn", name="eof", container=r"Cursor<'a>", container_name="Cursor", wrap="impl<'a> Cursor<'a>",
             clauses=[("requires", "wf", "old(self).m@.wf() && !old(self).m@.pending && old(self).m@.read == old(self).m@.chars.len()"),
                      ("requires", "start_state_has_consumed_nothing", "state is Start ==> old(self).m@.start == old(self).m@.read && token.kind is Eof && token.data@ =~= Seq::<char>::empty()"),
                      ("requires", "other_states_have_consumed_something", "!(state is Start) ==> old(self).m@.start < old(self).m@.read && !(token.kind is Eof)"),
                      ] + ADV_POST,
             rewrites=[(".to_string()", ".to_string_shim()", None)], props=["C03", "C01", "C02"]),
    
        dict(file=LX, kind="fn", name="advance", container=r"Cursor<'a>", container_name="Cursor", wrap="impl<'a> Cursor<'a>",
             n_loops=1,
             clauses=[("requires", "idle", "old(self).idle()")] + ADV_POST,
             rewrites=[(HEX_BLOCK_RE, HEX_BLOCK_NEW, 1, "re"), (".to_string()", ".to_string_shim()", None)],
             loops=[dict(invariant=[
                 ("wf", "self.m@.wf(), self.m@.chars == old(self).m@.chars, self.source == old(self).source, self.m@.start == old(self).m@.start"),
                 ("start_state", "state is Start ==> self.m@.eff() == self.m@.start && token.kind is Eof && token.data@ =~= Seq::<char>::empty()"),
                 ("other_states", "!(state is Start) ==> self.m@.start < self.m@.eff() && !(token.kind is Eof)"),
             ], decreases="self.m@.measure()")],
             hints=[("body_start", None, "proof { reveal_strlit(\"\"); }")],
             props=["C03", "C01", "C02"]),
    ],
}
