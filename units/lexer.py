"""Unit `lexer` -- C03 (first sentence + token kinds of the regular tokens), and the lexer contract that C01 / C02 assume.

Extracted verbatim from crates/apollo-parser/src/lexer/mod.rs: enum State, Cursor::{advance, eof,
unterminated_spread_operator, done} (the whole lexer state machine), is_whitespace_assimilated, is_name_continue,
is_line_terminator, is_escaped_char; from lexer/token_kind.rs: enum TokenKind; from lexer/token.rs: struct Token.

Cursor's six primitives over `CharIndices` (bump, eatc, current_str, prev_str, drain, is_pending; lexer/cursor.rs) are
NOT verified here: they are shims with a ghost model (the characters of the source, how many the iterator has yielded,
where the current token starts, whether one read character is pushed back), written from their bodies.

Nothing of `advance` is dropped.  Two listed rewrites: `&self.source[a..b]` -> `str_slice(self.source, a, b)` (Verus has no byte-range
slicing of &str; the shim's precondition is exactly "a <= b and both are char boundaries", i.e. the slice does not panic).
"""
LX = "crates/apollo-parser/src/lexer/mod.rs"

PRELUDE = r'''
// @@begin hex
pub open spec fn hexdigit(c: char) -> bool { ('0' <= c <= '9') || ('a' <= c <= 'f') || ('A' <= c <= 'F') }
/// value of a hex digit, of a run of hex digits (most significant first)
pub open spec fn hexval(c: char) -> int { if '0' <= c <= '9' { c as int - 48 } else if 'a' <= c <= 'f' { c as int - 87 } else { c as int - 55 } }
pub open spec fn hex_value(s: Seq<char>) -> int decreases s.len() { if s.len() == 0 { 0 } else { hex_value(s.drop_last()) * 16 + hexval(s.last()) } }
/// the surrogate block: not Unicode scalar values, so `\uD800` .. `\uDFFF` do not denote a character (and pairs of them are the documented unsupported form)
pub open spec fn surrogate(v: int) -> bool { 0xD800 <= v <= 0xDFFF }
/// value of the last four characters of `s` read as hex digits
pub open spec fn hex4(s: Seq<char>) -> int { hexval(s[s.len() - 4]) * 4096 + hexval(s[s.len() - 3]) * 256 + hexval(s[s.len() - 2]) * 16 + hexval(s[s.len() - 1]) }
pub proof fn lemma_hex4(s: Seq<char>, h: Seq<char>)
    requires s.len() >= 4, h =~= s.subrange(s.len() - 4, s.len() as int)
    ensures hex_value(h) == hex4(s)
{
    let h3 = h.drop_last(); let h2 = h3.drop_last(); let h1 = h2.drop_last();
    assert(h1.drop_last().len() == 0);
    reveal_with_fuel(hex_value, 5);
    assert(h3.last() == h[2] && h2.last() == h[1] && h1.last() == h[0]);
}
// @@end hex
// ---------------- std specs (assumed) ----------------
pub assume_specification[ char::is_ascii_digit ](c: &char) -> (r: bool) ensures r == ('0' <= *c <= '9');
pub assume_specification[ char::is_ascii_hexdigit ](c: &char) -> (r: bool)
    ensures r == (('0' <= *c <= '9') || ('a' <= *c <= 'f') || ('A' <= *c <= 'F'));

#[verifier::external_type_specification]
#[verifier::external_body]
pub struct ExParseIntError(core::num::ParseIntError);
// u32::from_str_radix: 1..=8 hex digits always fit a u32 (std documentation) -- assumed
pub assume_specification[ u32::from_str_radix ](src: &str, radix: u32) -> (r: Result<u32, core::num::ParseIntError>)
    ensures (radix == 16 && 1 <= src@.len() <= 8 && forall|i: int| 0 <= i < src@.len() ==> hexdigit(#[trigger] src@[i])) ==> r is Ok && r->Ok_0 as int == hex_value(src@);
// char::from_u32: "None if the input is not a valid value for a char" -- a char is a Unicode scalar value: not a surrogate, at most 0x10FFFF (std documentation) -- assumed
pub assume_specification[ char::from_u32 ](i: u32) -> (r: Option<char>)
    ensures r is Some <==> !surrogate(i as int) && i <= 0x10FFFF, r is Some ==> r->0 as u32 == i;
// ---- UTF-8 byte offsets of a &str (what `&s[a..b]` needs) ----
pub open spec fn utf8_len(c: char) -> int { if (c as u32) < 0x80 { 1 } else if (c as u32) < 0x800 { 2 } else if (c as u32) < 0x10000 { 3 } else { 4 } }
/// byte offset of the k-th char
pub open spec fn byte_off(cs: Seq<char>, k: int) -> int decreases k { if k <= 0 { 0 } else { byte_off(cs, k - 1) + utf8_len(cs[k - 1]) } }
/// `&s[a..b]` (listed rewrite): panics unless a <= b and both are char boundaries within s -- that is the precondition;
/// returns the chars between the two boundaries.  Assumed std semantics.
#[verifier::external_body]
pub fn str_slice<'a>(s: &'a str, a: usize, b: usize) -> (r: &'a str)
    requires
        a <= b,
        exists|i: int| 0 <= i <= s@.len() && byte_off(s@, i) == a,
        exists|j: int| 0 <= j <= s@.len() && byte_off(s@, j) == b,
    ensures
        forall|i: int, j: int| (0 <= i <= j <= s@.len() && byte_off(s@, i) == a && byte_off(s@, j) == b) ==> r@ =~= s@.subrange(i, j),
{ unimplemented!() }

// ---------------- shims (trusted) ----------------
#[verifier::external_body]
pub fn shim_format() -> String { unimplemented!() }
macro_rules! format { ($($t:tt)*) => { shim_format() } }
pub trait CharToStringShim { fn to_string_shim(&self) -> String; }
impl CharToStringShim for char {
    #[verifier::external_body]
    fn to_string_shim(&self) -> (r: String) ensures r@ =~= seq![*self] { unimplemented!() }
}
pub fn str_to_string(s: &str) -> (r: String) ensures r@ == s@ { s.to_string() }
pub trait StrToStringShim { spec fn v(&self) -> Seq<char>; fn to_string_shim(&self) -> (r: String) ensures r@ == self.v(); }
impl StrToStringShim for &str {
    open spec fn v(&self) -> Seq<char> { (*self)@ }
    fn to_string_shim(&self) -> (r: String) { (*self).to_string() }
}

// crate::Error: message irrelevant; `data` is the offending text, `index` its position (not verified).
pub struct Error { pub data: String, pub index: usize, pub is_limit: bool }
impl Error {
    #[verifier::external_body]
    // Error::with_loc / set_data: the text is stored and the error is not a limit error (PROVED on the real constructors in unit `error`)
    pub fn with_loc<S>(message: S, data: String, index: usize) -> (r: Error) ensures r.data == data, !r.is_limit { unimplemented!() }
    pub fn set_data(&mut self, data: String) ensures final(self).data == data, !final(self).is_limit, final(self).index == old(self).index { self.data = data; self.is_limit = false; }
}
impl Clone for Error {
    #[verifier::external_body]
    fn clone(&self) -> (r: Self) ensures r == *self { unimplemented!() }
}

// lookup::punctuation_kind / is_namestart read 256-entry tables built by const fns. Their contracts are exactly what the
// Kani harnesses c03_punctuation_kind_all_chars / c03_name_classes_all_chars prove on the real code for every char.
pub open spec fn spec_punct(c: char) -> Option<TokenKind> {
    if c == '!' { Some(TokenKind::Bang) } else if c == '$' { Some(TokenKind::Dollar) } else if c == '&' { Some(TokenKind::Amp) }
    else if c == '(' { Some(TokenKind::LParen) } else if c == ')' { Some(TokenKind::RParen) } else if c == ':' { Some(TokenKind::Colon) }
    else if c == '=' { Some(TokenKind::Eq) } else if c == '@' { Some(TokenKind::At) } else if c == '[' { Some(TokenKind::LBracket) }
    else if c == ']' { Some(TokenKind::RBracket) } else if c == '{' { Some(TokenKind::LCurly) } else if c == '|' { Some(TokenKind::Pipe) }
    else if c == '}' { Some(TokenKind::RCurly) } else if c == ',' { Some(TokenKind::Comma) } else { None }
}
// @@begin char_classes
pub open spec fn name_start(c: char) -> bool { ('a' <= c <= 'z') || ('A' <= c <= 'Z') || c == '_' }
pub open spec fn name_cont(c: char) -> bool { name_start(c) || ('0' <= c <= '9') }
pub open spec fn digit(c: char) -> bool { '0' <= c <= '9' }
pub open spec fn ws(c: char) -> bool { c == '\u{9}' || c == ' ' || c == '\n' || c == '\r' || c == '\u{FEFF}' }
pub open spec fn line_term(c: char) -> bool { c == '\n' || c == '\r' }
// @@end char_classes
pub mod lookup {
    use super::*;
    #[verifier::external_body]
    pub fn punctuation_kind(c: char) -> (r: Option<TokenKind>) ensures r == spec_punct(c) { unimplemented!() }
    #[verifier::external_body]
    pub fn is_namestart(c: char) -> (r: bool) ensures r == name_start(c) { unimplemented!() }
}

// ---- Cursor: ghost model of lexer/cursor.rs ----
pub struct CM {
    pub chars: Seq<char>,   // the source text
    pub start: nat,         // char index where the text of the token being lexed starts   (`index`)
    pub read: nat,          // how many chars the CharIndices iterator has yielded          (`chars`, `offset`)
    pub pending: bool,      // the char read last is pushed back: chars[read - 1]           (`pending`)
    pub index_ok: bool,     // the real `index` is the byte offset of chars[start]; false after the end-of-input path of
                            // current_str / drain, which park `index` at `source.len() - 1`
}
impl CM {
    pub open spec fn eff(&self) -> nat { if self.pending { (self.read - 1) as nat } else { self.read } }
    pub open spec fn wf(&self) -> bool {
        self.read <= self.chars.len() && (self.pending ==> self.read >= 1) && self.start <= self.eff()
            && (!self.index_ok ==> !self.pending && self.read == self.chars.len())
    }
    pub open spec fn measure(&self) -> nat { (self.chars.len() - self.read + (if self.pending { 1nat } else { 0nat })) as nat }
}
pub struct Cursor<'a> {
    pub offset: usize,      // real fields the extracted bodies touch directly; not related to the model here
    pub source: &'a str,
    pub err: Option<Error>,
    pub m: Ghost<CM>,
}
@@CURSOR_PRIMITIVES@@

// ---------------- the lexical grammar (October 2021, section 2.1) for the regular tokens ----------------
pub open spec fn eq1(s: Seq<char>, a: char) -> bool { s.len() == 1 && s[0] == a }
pub open spec fn eq2(s: Seq<char>, a: char, b: char) -> bool { s.len() == 2 && s[0] == a && s[1] == b }
// Name :: NameStart NameContinue*
#[verifier::opaque]
pub open spec fn is_name(s: Seq<char>) -> bool { s.len() > 0 && name_start(s[0]) && forall|i: int| 1 <= i < s.len() ==> name_cont(#[trigger] s[i]) }
// WhiteSpace / LineTerminator / UnicodeBOM runs (this lexer merges consecutive ignored characters of these classes into one token)
#[verifier::opaque]
pub open spec fn is_ws_run(s: Seq<char>) -> bool { s.len() > 0 && forall|i: int| 0 <= i < s.len() ==> ws(#[trigger] s[i]) }
// Comment :: # CommentChar*      CommentChar :: SourceCharacter but not LineTerminator
#[verifier::opaque]
pub open spec fn is_comment(s: Seq<char>) -> bool { s.len() > 0 && s[0] == '#' && forall|i: int| 1 <= i < s.len() ==> !line_term(#[trigger] s[i]) }
pub open spec fn nonzero(c: char) -> bool { '1' <= c <= '9' }
// IntegerPart :: NegativeSign? 0 | NegativeSign? NonZeroDigit Digit*
#[verifier::opaque]
pub open spec fn is_int_unsigned(s: Seq<char>) -> bool {
    s.len() > 0 && ((s.len() == 1 && s[0] == '0') || (nonzero(s[0]) && forall|i: int| 1 <= i < s.len() ==> digit(#[trigger] s[i])))
}
#[verifier::opaque]
pub open spec fn is_int(s: Seq<char>) -> bool { is_int_unsigned(s) || (s.len() > 1 && s[0] == '-' && is_int_unsigned(s.subrange(1, s.len() as int))) }
// FloatValue :: IntegerPart FractionalPart ExponentPart | IntegerPart FractionalPart | IntegerPart ExponentPart
// FractionalPart :: . Digit+        ExponentPart :: ExponentIndicator Sign? Digit+
// written as the equivalent left-linear grammar (each nonterminal = "a prefix that ends in ..."):
#[verifier::opaque]
pub open spec fn g_decimal_point(s: Seq<char>) -> bool { s.len() > 1 && s.last() == '.' && is_int(s.drop_last()) }              // IntegerPart .
#[verifier::opaque]
pub open spec fn g_fraction(s: Seq<char>) -> bool decreases s.len() {                                                               // IntegerPart . Digit+
    s.len() > 0 && digit(s.last()) && (g_decimal_point(s.drop_last()) || g_fraction(s.drop_last()))
}
pub open spec fn is_e(c: char) -> bool { c == 'e' || c == 'E' }
#[verifier::opaque]
pub open spec fn g_exp_indicator(s: Seq<char>) -> bool { s.len() > 0 && is_e(s.last()) && (is_int(s.drop_last()) || g_fraction(s.drop_last())) }   // (IntegerPart | IntegerPart FractionalPart) e
#[verifier::opaque]
pub open spec fn g_exp_sign(s: Seq<char>) -> bool { s.len() > 0 && (s.last() == '+' || s.last() == '-') && g_exp_indicator(s.drop_last()) }
#[verifier::opaque]
pub open spec fn g_exp_digits(s: Seq<char>) -> bool decreases s.len() {                                                             // ... e Sign? Digit+
    s.len() > 0 && digit(s.last()) && (g_exp_indicator(s.drop_last()) || g_exp_sign(s.drop_last()) || g_exp_digits(s.drop_last()))
}
#[verifier::opaque]
pub open spec fn is_float(s: Seq<char>) -> bool { g_fraction(s) || g_exp_digits(s) }
// lookahead restriction on numbers: not followed by Digit, `.` or NameStart
pub open spec fn number_may_end_before(next: Option<char>) -> bool { next is Some ==> !digit(next->0) && next->0 != '.' && !name_start(next->0) }

// ---- \uXXXX escapes inside a quoted string: what has just been consumed ----
#[verifier::opaque]
pub open spec fn ends_with_backslash(s: Seq<char>) -> bool { s.len() >= 1 && s.last() == '\\' }
/// `\u` followed by (4 - rem) hex digits has just been consumed
#[verifier::opaque]
pub open spec fn in_escape(s: Seq<char>, rem: int) -> bool {
    1 <= rem <= 4 && s.len() >= 6 - rem && s[s.len() - (4 - rem) - 2] == '\\' && s[s.len() - (4 - rem) - 1] == 'u'
        && forall|k: int| s.len() - (4 - rem) <= k < s.len() ==> hexdigit(#[trigger] s[k])
}
/// `\uXXXX` complete
#[verifier::opaque]
pub open spec fn escape_complete(s: Seq<char>) -> bool {
    s.len() >= 6 && s[s.len() - 6] == '\\' && s[s.len() - 5] == 'u' && forall|k: int| s.len() - 4 <= k < s.len() ==> hexdigit(#[trigger] s[k])
}
pub proof fn lemma_escape_step(s: Seq<char>, c: char)
    ensures
        c == '\\' ==> ends_with_backslash(s.push(c)),
        (ends_with_backslash(s) && c == 'u') ==> in_escape(s.push(c), 4),
        forall|rem: int| (#[trigger] in_escape(s, rem) && hexdigit(c) && rem > 1) ==> in_escape(s.push(c), rem - 1),
        forall|rem: int| (#[trigger] in_escape(s, rem) && hexdigit(c) && rem <= 1) ==> escape_complete(s.push(c)),
{
    reveal(ends_with_backslash); reveal(in_escape); reveal(escape_complete);
    let t = s.push(c);
    assert forall|rem: int| (#[trigger] in_escape(s, rem) && hexdigit(c) && rem > 1) implies in_escape(t, rem - 1) by {
        assert forall|k: int| t.len() - (4 - (rem - 1)) <= k < t.len() implies hexdigit(#[trigger] t[k]) by { if k < s.len() { assert(t[k] == s[k]); } }
    }
    assert forall|rem: int| (#[trigger] in_escape(s, rem) && hexdigit(c) && rem <= 1) implies escape_complete(t) by {
        assert forall|k: int| t.len() - 4 <= k < t.len() implies hexdigit(#[trigger] t[k]) by { if k < s.len() { assert(t[k] == s[k]); } }
    }
}
// ASCII chars take one byte: byte offsets of the six chars of a complete escape that ends at char index `read`
pub proof fn lemma_escape_bytes(cs: Seq<char>, start: int, read: int)
    requires 0 <= start <= read <= cs.len(), escape_complete(cs.subrange(start, read))
    ensures
        read >= 6,
        byte_off(cs, read - 1) + 1 == byte_off(cs, read),
        byte_off(cs, read - 4) + 4 == byte_off(cs, read),
        byte_off(cs, read - 6) + 6 == byte_off(cs, read),
        forall|i: int| 0 <= i < 4 ==> hexdigit(#[trigger] cs.subrange(read - 4, read)[i]),
        byte_off(cs, read) <= byte_off(cs, cs.len() as int),
        byte_off(cs, read - 6) >= 0,
{
    reveal(escape_complete);
    let s = cs.subrange(start, read);
    lemma_byte_off_monotone(cs, 0, read - 6);
    assert forall|i: int| 0 <= i < 4 implies hexdigit(#[trigger] cs.subrange(read - 4, read)[i]) by {
        assert(cs.subrange(read - 4, read)[i] == s[read - 4 + i - start]);
    }
    assert forall|k: int| read - 6 <= k < read implies utf8_len(#[trigger] cs[k]) == 1 by {
        assert(cs[k] == s[k - start]);
        if k >= read - 4 { assert(hexdigit(s[k - start])); }
    }
    reveal_with_fuel(byte_off, 7);
    lemma_byte_off_monotone(cs, read, cs.len() as int);
}
pub proof fn lemma_byte_off_monotone(cs: Seq<char>, a: int, b: int)
    requires 0 <= a <= b
    ensures byte_off(cs, a) <= byte_off(cs, b)
    decreases b - a
{
    if a < b { lemma_byte_off_monotone(cs, a, b - 1); }
}

// @@begin string_grammar
// ---- StringValue :: `""` | `"` StringCharacter+ `"` | `"""` BlockStringCharacter* `"""` ----
// StringCharacter :: SourceCharacter but not `"` or `\` or LineTerminator | \u EscapedUnicode | \ EscapedCharacter
// (left-linear form again: each predicate describes a prefix that starts with the opening quote)
pub open spec fn plain_string_char(c: char) -> bool { c != '"' && c != '\\' && !line_term(c) }
pub open spec fn escaped_character(c: char) -> bool { c == '"' || c == '\\' || c == '/' || c == 'b' || c == 'f' || c == 'n' || c == 'r' || c == 't' }
#[verifier::opaque]
pub open spec fn q_open(s: Seq<char>) -> bool { s.len() == 1 && s[0] == '"' }
/// opening quote followed by complete StringCharacters (at least one)
#[verifier::opaque]
pub open spec fn q_body(s: Seq<char>) -> bool decreases s.len(), 2int {
    s.len() >= 2 && (
        (plain_string_char(s.last()) && (q_open(s.drop_last()) || q_body(s.drop_last())))
        || (escaped_character(s.last()) && q_backslash(s.drop_last()))
        || (hexdigit(s.last()) && q_unicode(s.drop_last(), 1) && !surrogate(hex4(s))))
}
/// ... followed by a backslash
#[verifier::opaque]
pub open spec fn q_backslash(s: Seq<char>) -> bool decreases s.len(), 1int {
    s.len() >= 2 && s.last() == '\\' && (q_open(s.drop_last()) || q_body(s.drop_last()))
}
/// ... followed by `\u` and (4 - rem) hex digits
#[verifier::opaque]
pub open spec fn q_unicode(s: Seq<char>, rem: int) -> bool decreases s.len(), 0int {
    s.len() >= 3 && ((rem == 4 && s.last() == 'u' && q_backslash(s.drop_last()))
        || (1 <= rem < 4 && hexdigit(s.last()) && q_unicode(s.drop_last(), rem + 1)))
}
#[verifier::opaque]
pub open spec fn is_quoted_string(s: Seq<char>) -> bool { s.len() >= 2 && s.last() == '"' && (q_open(s.drop_last()) || q_body(s.drop_last())) }
/// block strings: only the delimiters are specified here
pub open spec fn b_open(s: Seq<char>) -> bool { s.len() >= 3 && s[0] == '"' && s[1] == '"' && s[2] == '"' }
pub open spec fn is_block_string_weak(s: Seq<char>) -> bool {
    s.len() >= 6 && b_open(s) && s[s.len() - 1] == '"' && s[s.len() - 2] == '"' && s[s.len() - 3] == '"'
}
pub proof fn lemma_string_step(s: Seq<char>, c: char)
    ensures
        (s.len() == 0 && c == '"') ==> q_open(s.push(c)),
        ((q_open(s) || q_body(s)) && plain_string_char(c)) ==> q_body(s.push(c)),
        ((q_open(s) || q_body(s)) && c == '\\') ==> q_backslash(s.push(c)),
        (q_backslash(s) && escaped_character(c)) ==> q_body(s.push(c)),
        (q_backslash(s) && c == 'u') ==> q_unicode(s.push(c), 4),
        forall|rem: int| (#[trigger] q_unicode(s, rem) && hexdigit(c) && 1 < rem <= 4) ==> q_unicode(s.push(c), rem - 1),
        (q_unicode(s, 1) && hexdigit(c) && !surrogate(hex4(s.push(c)))) ==> q_body(s.push(c)),
        ((q_open(s) || q_body(s)) && c == '"') ==> is_quoted_string(s.push(c)),
        (q_open(s) || q_body(s) || q_backslash(s)) ==> s.len() >= 1 && s[0] == '"',
        forall|rem: int| #[trigger] q_unicode(s, rem) ==> s.len() >= 1 && s[0] == '"' && 1 <= rem <= 4,
        q_open(s) ==> s.len() == 1,
{
    reveal(q_open); reveal(is_quoted_string);
    reveal_with_fuel(q_body, 2); reveal_with_fuel(q_backslash, 2); reveal_with_fuel(q_unicode, 2);
    let t = s.push(c);
    assert(t.drop_last() =~= s);
    lemma_quoted_prefix_starts_with_quote(s);
    assert forall|rem: int| #[trigger] q_unicode(s, rem) implies s.len() >= 1 && s[0] == '"' && 1 <= rem <= 4 by { lemma_unicode_prefix_starts_with_quote(s, rem); }
}
pub proof fn lemma_quoted_prefix_starts_with_quote(s: Seq<char>)
    ensures (q_open(s) || q_body(s) || q_backslash(s)) ==> s.len() >= 1 && s[0] == '"'
    decreases s.len()
{
    reveal(q_open); reveal_with_fuel(q_body, 2); reveal_with_fuel(q_backslash, 2); reveal_with_fuel(q_unicode, 2);
    if s.len() >= 2 {
        lemma_quoted_prefix_starts_with_quote(s.drop_last());
        if q_body(s) && hexdigit(s.last()) && q_unicode(s.drop_last(), 1) { lemma_unicode_prefix_starts_with_quote(s.drop_last(), 1); }
        assert(s.drop_last()[0] == s[0]);
    }
}
pub proof fn lemma_unicode_prefix_starts_with_quote(s: Seq<char>, rem: int)
    ensures q_unicode(s, rem) ==> s.len() >= 1 && s[0] == '"' && 1 <= rem <= 4
    decreases s.len()
{
    reveal_with_fuel(q_body, 2); reveal_with_fuel(q_backslash, 2); reveal_with_fuel(q_unicode, 2);
    if q_unicode(s, rem) {
        if rem == 4 { lemma_quoted_prefix_starts_with_quote(s.drop_last()); } else { lemma_unicode_prefix_starts_with_quote(s.drop_last(), rem + 1); }
        assert(s.drop_last()[0] == s[0]);
    }
}

// @@end string_grammar
/// what a successfully returned token must be: the right kind for its text, and maximal
pub open spec fn token_ok(kind: TokenKind, s: Seq<char>, next: Option<char>) -> bool {
    match kind {
        TokenKind::Name => is_name(s) && (next is Some ==> !name_cont(next->0)),
        TokenKind::Whitespace => is_ws_run(s) && (next is Some ==> !ws(next->0)),
        TokenKind::Comment => is_comment(s) && (next is Some ==> line_term(next->0)),
        TokenKind::Int => is_int(s) && number_may_end_before(next),
        TokenKind::Float => is_float(s) && number_may_end_before(next),
        TokenKind::Spread => s.len() == 3 && s[0] == '.' && s[1] == '.' && s[2] == '.',
        TokenKind::Eof => s.len() == 0,
        TokenKind::StringValue => is_quoted_string(s) || is_block_string_weak(s),
        _ => s.len() == 1 && spec_punct(s[0]) == Some(kind),
    }
}
/// per-state invariant of the state machine: what has been consumed for the current token
pub open spec fn state_inv(state: State, s: Seq<char>, kind: TokenKind, err_free: bool) -> bool {
    match state {
        State::Start => s.len() == 0,
        State::Ident => kind is Name && is_name(s),
        State::Whitespace => kind is Whitespace && is_ws_run(s),
        State::Comment => kind is Comment && is_comment(s),
        State::SpreadOperator => kind is Spread && eq1(s, '.'),
        State::MinusSign => kind is Int && eq1(s, '-'),
        State::LeadingZero => kind is Int && (eq1(s, '0') || eq2(s, '-', '0')),
        State::IntegerPart => kind is Int && is_int(s) && !eq1(s, '0') && !eq2(s, '-', '0'),
        State::DecimalPoint => kind is Float && g_decimal_point(s),
        State::FractionalPart => kind is Float && g_fraction(s),
        State::ExponentIndicator => kind is Float && g_exp_indicator(s),
        State::ExponentSign => kind is Float && g_exp_sign(s),
        State::ExponentDigit => kind is Float && g_exp_digits(s),
        // quoted strings: the grammar prefix holds as long as no error has been recorded for this token (`self.err`)
        State::StringLiteralStart => kind is StringValue && q_open(s),
        State::StringLiteral => kind is StringValue && s.len() >= 1 && s[0] == '"' && (err_free ==> q_body(s)),
        State::StringLiteralBackslash => kind is StringValue && s.len() >= 1 && s[0] == '"' && ends_with_backslash(s) && (err_free ==> q_backslash(s)),
        State::StringLiteralEscapedUnicode(rem) => kind is StringValue && s.len() >= 1 && s[0] == '"' && in_escape(s, rem as int) && (err_free ==> q_unicode(s, rem as int)),
        // block strings
        _ => kind is StringValue && b_open(s),
    }
}
pub open spec fn next_char(c: &Cursor) -> Option<char> { if c.m@.start < c.m@.chars.len() { Some(c.m@.chars[c.m@.start as int]) } else { None } }
pub open spec fn consumed(c: &Cursor) -> Seq<char> { c.m@.chars.subrange(c.m@.start as int, c.m@.eff() as int) }
// One step of every production: the only facts about the grammar that the state machine's proof uses.
// (The grammar predicates are opaque inside `advance`; this lemma is proved once, with them revealed.)
pub proof fn lemma_step(s: Seq<char>, c: char)
    ensures
        s.push(c).len() == s.len() + 1, s.push(c).last() == c, s.push(c)[0] == (if s.len() > 0 { s[0] } else { c }),
        // tokens of one char
        s.len() == 0 ==> eq1(s.push(c), c),
        (s.len() == 0 && name_start(c)) ==> is_name(s.push(c)),
        (s.len() == 0 && ws(c)) ==> is_ws_run(s.push(c)),
        (s.len() == 0 && c == '#') ==> is_comment(s.push(c)),
        (s.len() == 0 && nonzero(c)) ==> is_int(s.push(c)) && !eq1(s.push(c), '0') && !eq2(s.push(c), '-', '0'),
        // extension by one char
        (is_name(s) && name_cont(c)) ==> is_name(s.push(c)),
        (is_ws_run(s) && ws(c)) ==> is_ws_run(s.push(c)),
        (is_comment(s) && !line_term(c)) ==> is_comment(s.push(c)),
        (eq1(s, '-') && c == '0') ==> eq2(s.push(c), '-', '0'),
        (eq1(s, '-') && nonzero(c)) ==> is_int(s.push(c)) && !eq1(s.push(c), '0') && !eq2(s.push(c), '-', '0'),
        (eq1(s, '0') || eq2(s, '-', '0')) ==> is_int(s),
        (is_int(s) && !eq1(s, '0') && !eq2(s, '-', '0') && digit(c)) ==> is_int(s.push(c)) && !eq1(s.push(c), '0') && !eq2(s.push(c), '-', '0'),
        (is_int(s) && c == '.') ==> g_decimal_point(s.push(c)),
        (is_int(s) && is_e(c)) ==> g_exp_indicator(s.push(c)),
        (g_decimal_point(s) && digit(c)) ==> g_fraction(s.push(c)),
        (g_fraction(s) && digit(c)) ==> g_fraction(s.push(c)),
        (g_fraction(s) && is_e(c)) ==> g_exp_indicator(s.push(c)),
        (g_exp_indicator(s) && digit(c)) ==> g_exp_digits(s.push(c)),
        (g_exp_indicator(s) && (c == '+' || c == '-')) ==> g_exp_sign(s.push(c)),
        (g_exp_sign(s) && digit(c)) ==> g_exp_digits(s.push(c)),
        (g_exp_digits(s) && digit(c)) ==> g_exp_digits(s.push(c)),
        g_fraction(s) ==> is_float(s),
        g_exp_digits(s) ==> is_float(s),
        (eq1(s, '.') && c == '.') ==> eq2(s.push(c), '.', '.'),
{
    reveal(is_name); reveal(is_ws_run); reveal(is_comment); reveal(is_int_unsigned); reveal(is_int); reveal(g_decimal_point);
    reveal_with_fuel(g_fraction, 2); reveal(g_exp_indicator); reveal(g_exp_sign); reveal_with_fuel(g_exp_digits, 2); reveal(is_float);
    let t = s.push(c);
    assert(t.drop_last() =~= s);
    if s.len() > 0 { assert(t.subrange(1, t.len() as int) =~= s.subrange(1, s.len() as int).push(c)); }
    if s.len() > 1 && s[0] == '-' {
        let u = s.subrange(1, s.len() as int);
        assert(t.subrange(1, t.len() as int) =~= u.push(c));
    }
    if eq1(s, '-') { assert(t.subrange(1, 2) =~= seq![c]); }
    if eq2(s, '-', '0') { assert(s.subrange(1, 2) =~= seq!['0']); }
}

// ---------------- specification of the lexer contract ----------------
impl<'a> Cursor<'a> {
    /// between two calls of advance(): everything read has been handed out
    pub open spec fn idle(&self) -> bool { self.m@.wf() && self.m@.start == self.m@.eff() }
    /// the text handed out by one call
    pub open spec fn emitted(&self, o: &Self) -> Seq<char> { self.m@.chars.subrange(o.m@.start as int, self.m@.start as int) }
}
pub open spec fn item_text<'a>(r: Result<Token<'a>, Error>) -> Seq<char> { match r { Ok(t) => t.data@, Err(e) => e.data@ } }
'''



# ---- contracts of Cursor's primitives over the ghost model CM: assumed by this unit (generated shim below), PROVED for the extracted
# ---- bodies of lexer/cursor.rs in unit `cursor` (same clause lists)
O, F_ = "old(self).m@", "final(self).m@"
def section(name):
    """A marked part of the prelude (`// @@begin NAME` .. `// @@end NAME`), for units that share these definitions by text."""
    a = PRELUDE.index("// @@begin %s\n" % name)
    b = PRELUDE.index("// @@end %s\n" % name)
    return PRELUDE[a:b]


FRAME = "final(self).source == old(self).source, final(self).err == old(self).err, final(self).m@.chars == old(self).m@.chars"
CURSOR_PRIMS = {
    "is_pending": dict(sig="pub fn is_pending(&self) -> (r: bool)", doc="", requires=[], ensures=["r == self.m@.pending"]),
    "bump": dict(sig="pub fn bump(&mut self) -> (r: Option<char>)", doc="next char: the pushed-back one if any, else the next one from the iterator",
        requires=["old(self).m@.wf()"],
        ensures=["final(self).source == old(self).source, final(self).err == old(self).err",
                 "final(self).m@.chars == old(self).m@.chars, final(self).m@.start == old(self).m@.start, !final(self).m@.pending",
                 "final(self).m@.index_ok == old(self).m@.index_ok",
                 "old(self).m@.pending ==> final(self).offset == old(self).offset",
                 "(!old(self).m@.pending && old(self).m@.read < old(self).m@.chars.len()) ==> final(self).offset == byte_off(old(self).m@.chars, old(self).m@.read as int)",
                 "old(self).m@.pending ==> r == Some(old(self).m@.chars[old(self).m@.read - 1]) && final(self).m@.read == old(self).m@.read",
                 "(!old(self).m@.pending && old(self).m@.read < old(self).m@.chars.len()) ==> r == Some(old(self).m@.chars[old(self).m@.read as int]) && final(self).m@.read == old(self).m@.read + 1",
                 "(!old(self).m@.pending && old(self).m@.read >= old(self).m@.chars.len()) ==> r is None && final(self).m@.read == old(self).m@.read"]),
    "eatc": dict(sig="pub fn eatc(&mut self, c: char) -> (r: bool)", doc="consume the next char if it is `c`; otherwise push it back (panics if a char is already pushed back)",
        requires=["old(self).m@.wf(), !old(self).m@.pending"],
        ensures=["final(self).source == old(self).source, final(self).err == old(self).err",
                 "final(self).m@.chars == old(self).m@.chars, final(self).m@.start == old(self).m@.start, final(self).m@.index_ok == old(self).m@.index_ok",
                 "old(self).m@.read < old(self).m@.chars.len() ==> final(self).m@.read == old(self).m@.read + 1 && r == (old(self).m@.chars[old(self).m@.read as int] == c) && final(self).m@.pending == !r",
                 "old(self).m@.read >= old(self).m@.chars.len() ==> !r && final(self).m@.read == old(self).m@.read && !final(self).m@.pending"]),
    "current_str": dict(sig="pub fn current_str(&mut self) -> (r: &'a str)", doc="text of the token up to and including the char read last; peeks one more char and pushes it back",
        requires=["old(self).m@.wf(), old(self).m@.index_ok",
                  "old(self).m@.read >= old(self).m@.chars.len() ==> old(self).m@.chars.len() >= 1   /* at the end of the input the body computes `self.source.len() - 1` */"],
        ensures=[FRAME,
                 "r@ =~= old(self).m@.chars.subrange(old(self).m@.start as int, old(self).m@.read as int)",
                 "final(self).m@.start == old(self).m@.read",
                 "old(self).m@.read < old(self).m@.chars.len() ==> final(self).m@.read == old(self).m@.read + 1 && final(self).m@.pending && final(self).m@.index_ok",
                 "old(self).m@.read >= old(self).m@.chars.len() ==> final(self).m@.read == old(self).m@.read && !final(self).m@.pending && !final(self).m@.index_ok"]),
    "prev_str": dict(sig="pub fn prev_str(&mut self) -> (r: &'a str)", doc="text of the token up to but excluding the char read last, which is pushed back",
        requires=["old(self).m@.wf(), old(self).m@.index_ok, old(self).m@.read >= 1, old(self).m@.start <= old(self).m@.read - 1"],
        ensures=[FRAME,
                 "r@ =~= old(self).m@.chars.subrange(old(self).m@.start as int, old(self).m@.read - 1)",
                 "final(self).m@.start == old(self).m@.read - 1, final(self).m@.read == old(self).m@.read, final(self).m@.pending, final(self).m@.index_ok"]),
    "drain": dict(sig="pub fn drain(&mut self) -> (r: &'a str)", doc="the rest of the source from the token start (`source.len() - 1` underflows on an empty source)",
        requires=["old(self).m@.wf(), old(self).m@.index_ok, old(self).m@.chars.len() >= 1, old(self).m@.read == old(self).m@.chars.len()"],
        ensures=[FRAME,
                 "r@ =~= old(self).m@.chars.subrange(old(self).m@.start as int, old(self).m@.chars.len() as int)",
                 "final(self).m@.start == old(self).m@.chars.len(), final(self).m@.read == old(self).m@.read, !final(self).m@.pending, !final(self).m@.index_ok"]),
    "add_err": dict(sig="pub fn add_err(&mut self, err: Error)", doc="", requires=[],
        ensures=["final(self).err == Some(err), final(self).m == old(self).m, final(self).source == old(self).source, final(self).offset == old(self).offset"]),
}


def cursor_shim_impl():
    out = ["impl<'a> Cursor<'a> {", "    #[verifier::external_body]", "    pub fn index(&self) -> usize { unimplemented!() }"]
    for name, c in CURSOR_PRIMS.items():
        if c["doc"]:
            out.append("    /// " + c["doc"])
        out.append("    #[verifier::external_body]")
        out.append("    " + c["sig"])
        if c["requires"]:
            out.append("        requires " + ",\n            ".join(c["requires"]) + ",")
        out.append("        ensures\n            " + ",\n            ".join(c["ensures"]) + ",")
        out.append("    { unimplemented!() }")
    out.append("    pub fn err(&mut self) -> (r: Option<Error>) ensures r == old(self).err, *final(self) == *old(self) {")
    out.append("        match &self.err { Some(e) => Some(e.clone()), None => None }")
    out.append("    }")
    out.append("}")
    return "\n".join(out) + "\n"


PRELUDE = PRELUDE.replace("@@CURSOR_PRIMITIVES@@", cursor_shim_impl())

# one call of the state machine never produces a LIMIT error (only Lexer::next does): proved in unit lexer_strings, assumed by unit lexer_next (same text)
NO_LIMIT_POST = ("ensures", "never_a_limit_error", "r is Err ==> !r->Err_0.is_limit", ["C04", "C01"])
KIND_POST = ("ensures", "token_has_the_right_kind_and_is_maximal", "r is Ok ==> token_ok(r->Ok_0.kind, r->Ok_0.data@, next_char(&*final(self)))", ["C03"])
ADV_REQ = [("requires", "idle", "old(self).idle()"),
           ("requires", "source_is_the_model", "old(self).source@ == old(self).m@.chars && byte_off(old(self).m@.chars, old(self).m@.chars.len() as int) <= usize::MAX")]
ADV_POST = [
    ("ensures", "idle_again", "final(self).idle() && final(self).m@.chars == old(self).m@.chars && final(self).source == old(self).source"),
    ("ensures", "item_is_next_piece_of_input", "final(self).m@.start >= old(self).m@.start && item_text(r) =~= final(self).emitted(old(self))"),
    ("ensures", "progress", "final(self).m@.start > old(self).m@.start || (r is Ok && r->Ok_0.kind is Eof && old(self).m@.start == old(self).m@.chars.len())"),
    ("ensures", "eof_only_at_end", "(r is Ok && r->Ok_0.kind is Eof) ==> final(self).m@.start == final(self).m@.chars.len() && r->Ok_0.data@ =~= Seq::<char>::empty()"),
]

UNIT = {
    "name": "lexer",
    "properties": ["C03", "C01", "C02"],
    "rlimit": 600,            # Cursor::advance is one large query (19 states x all exits): measured ~85 s, rlimit ~0.74e9 of 1.8e9
    "rlimit_retry": [],
    "parts": [
        dict(file="crates/apollo-parser/src/lexer/token_kind.rs", kind="enum", name="TokenKind", attrs="#[derive(Clone, Copy, PartialEq, Eq, Structural)]"),
        dict(file="crates/apollo-parser/src/lexer/token.rs", kind="struct", name="Token", pub_fields=True),
        PRELUDE,
        dict(file=LX, kind="enum", name="State"),
        dict(file=LX, kind="fn", name="is_whitespace_assimilated", clauses=[("ensures", "WhiteSpace_LineTerminator_BOM", "r == ws(c)")], props=["C03"]),
        dict(file=LX, kind="fn", name="is_name_continue", clauses=[("ensures", "NameContinue", "r == name_cont(c)")], props=["C03"]),
        dict(file=LX, kind="fn", name="is_line_terminator", clauses=[("ensures", "LineTerminator_chars", "r == line_term(c)")], props=["C03"]),
        dict(file=LX, kind="fn", name="is_escaped_char", clauses=[("ensures", "EscapedCharacter", "r == (c == '\"' || c == '\\\\' || c == '/' || c == 'b' || c == 'f' || c == 'n' || c == 'r' || c == 't')")], props=["C03"]),
        dict(file=LX, kind="fn", name="done", container=r"Cursor<'a>", container_name="Cursor", wrap="impl<'a> Cursor<'a>",
             clauses=[("ensures", "same_text", "item_text(r) == token.data@ && (r is Ok ==> r->Ok_0 == token)"),
                      ("ensures", "ok_only_without_recorded_error", "r is Ok <==> old(self).err is None", ["C03"]),
                      ("ensures", "frame", "final(self).m == old(self).m && final(self).source == old(self).source")],
             rewrites=[("token.data.to_string()", "str_to_string(token.data)", 1)], props=["C03", "C01", "C02"]),
    
        dict(file=LX, kind="fn", name="unterminated_spread_operator", container=r"Cursor<'a>", container_name="Cursor", wrap="impl<'a> Cursor<'a>",
             clauses=[("requires", "wf", "old(self).m@.wf() && old(self).m@.index_ok && old(self).m@.chars.len() >= 1"),
                      ("ensures", "is_error", "r is Err"),
                      ("ensures", "idle_again", "final(self).idle() && final(self).m@.chars == old(self).m@.chars && final(self).source == old(self).source"),
                      ("ensures", "item_is_next_piece_of_input", "final(self).m@.start >= old(self).m@.eff() && item_text(r) =~= final(self).emitted(old(self))")],
             rewrites=[("data.to_string()", "str_to_string(data)", 1)], props=["C03", "C01", "C02"]),
        dict(file=LX, kind="fn", name="eof", container=r"Cursor<'a>", container_name="Cursor", wrap="impl<'a> Cursor<'a>",
             clauses=[("requires", "wf", "old(self).m@.wf() && !old(self).m@.pending && old(self).m@.read == old(self).m@.chars.len()"),
                      ("requires", "start_state_has_consumed_nothing", "state is Start ==> old(self).m@.start == old(self).m@.read && token.kind is Eof && token.data@ =~= Seq::<char>::empty()"),
                      ("requires", "other_states_have_consumed_something", "!(state is Start) ==> old(self).m@.start < old(self).m@.read && !(token.kind is Eof) && old(self).m@.index_ok"),
                      ("requires", "grammar_state", "state_inv(state, consumed(&*old(self)), token.kind, old(self).err is None)", ["C03"]),
                      ] + ADV_POST + [KIND_POST],
             hints=[("body_start", None, "proof { lemma_step(consumed(&*self), 'x'); }")],
             rewrites=[(".to_string()", ".to_string_shim()", None)], props=["C03", "C01", "C02"]),
    
        dict(file=LX, kind="fn", name="advance", container=r"Cursor<'a>", container_name="Cursor", wrap="impl<'a> Cursor<'a>",
             n_loops=1,
             clauses=ADV_REQ + ADV_POST + [KIND_POST],
             rewrites=[("&self.source[hex_start..hex_end]", "str_slice(self.source, hex_start, hex_end)", 1),
                       ("&self.source[escape_sequence_start..hex_end]", "str_slice(self.source, escape_sequence_start, hex_end)", 1),
                       (".to_string()", ".to_string_shim()", None)],
             loops=[dict(invariant=[
                 ("wf", "self.m@.wf(), self.m@.chars == old(self).m@.chars, self.source == old(self).source, self.m@.start == old(self).m@.start"),
                 ("start_state", "state is Start ==> self.m@.eff() == self.m@.start && token.kind is Eof && token.data@ =~= Seq::<char>::empty()"),
                 ("other_states", "!(state is Start) ==> self.m@.start < self.m@.eff() && !(token.kind is Eof) && self.m@.index_ok"),
                 ("grammar_state", "state_inv(state, consumed(&*self), token.kind, self.err is None)", ["C03"]),
                 ("source_is_the_model", "self.source@ == self.m@.chars && byte_off(self.m@.chars, self.m@.chars.len() as int) <= usize::MAX"),
                 ("no_pushback_inside_escape", "state is StringLiteralEscapedUnicode ==> !self.m@.pending"),
             ], decreases="self.m@.measure()")],
             hints=[("body_start", None, "proof { reveal_strlit(\"\"); }"),
                    ("before", "match state {", "proof { let s0 = self.m@.chars.subrange(self.m@.start as int, self.m@.read - 1); lemma_step(s0, c); lemma_escape_step(s0, c); lemma_string_step(s0, c); assert(consumed(&*self) =~= s0.push(c)); }"),
                    ("before", "let hex_end = self.offset + 1;", "proof { lemma_escape_bytes(self.m@.chars, self.m@.start as int, self.m@.read as int); }"),
                    ("after", "let hex = str_slice(self.source, hex_start, hex_end);", "proof { assert(hex@ =~= self.m@.chars.subrange(self.m@.read - 4, self.m@.read as int)); let t = consumed(&*self); reveal(escape_complete); assert(hex@ =~= t.subrange(t.len() - 4, t.len() as int)); lemma_hex4(t, hex@); }")],
             props=["C03", "C01", "C02"]),
    ],
}
