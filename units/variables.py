"""Unit `variables` -- C28, KERNEL: `coerce_variable_values` (resolvers/input_coercion.rs), the per-variable half of CoerceVariableValues: "the result contains
exactly the provided or defaulted variables".

Extracted verbatim: coerce_variable_values; enum Type, Type::is_non_null; enum InputCoercionError.
`coerce_variable_value` (the per-value half, unit `variable_value`) enters as a FUNCTION of schema, type and value named `variable_coerced` (it is a pure function:
no `&mut`, no interior mutability); `graphql_value_to_json` (default values) likewise as `default_as_json`.

Specification (https://spec.graphql.org/October2021/#CoerceVariableValues()), per variable definition, in order:
  * a value is provided (also an explicit null): it is coerced to the variable's type; a failure fails the request; the entry is stored under the provided key;
  * otherwise the default value, if there is one;
  * otherwise a request error if the type is non-null; otherwise NO entry (apollo-compiler: absent stays absent).
Listed rewrites: `for variable_def in &operation.variables {` -> an index loop; `format!(..)` / `format_args!(..)` -> opaque.
Shims (trusted): serde_json's Map: `get_key_value` as a lookup by key, `insert` as an uninterpreted `map_insert` on the entries in order.
"""
IC = "crates/apollo-compiler/src/resolvers/input_coercion.rs"
AST = "crates/apollo-compiler/src/ast/mod.rs"

PRELUDE = r'''
// ---------------- shims (trusted) ----------------
pub struct SourceSpan { pub x: u64 }
pub struct Name { pub text: String }
impl Name {
    #[verifier::external_body]
    pub fn as_str(&self) -> (r: &str) ensures r@ == self.text@ { unimplemented!() }
}
pub type NamedType = Name;
pub struct Node<T>(pub Box<T>);
impl<T> core::ops::Deref for Node<T> {
    type Target = T;
    fn deref(&self) -> (r: &T) ensures *r == *self.0 { &*self.0 }
}
impl<T> Node<T> {
    #[verifier::external_body]
    pub fn location(&self) -> Option<SourceSpan> { unimplemented!() }
}
pub struct Valid<T>(pub T);
pub enum JsonValue { Null, Other(u64) }
pub type Entries = Seq<(Seq<char>, JsonValue)>;
/// serde_json::Map::insert on the entries in order: uninterpreted
pub uninterp spec fn map_insert(m: Entries, k: Seq<char>, v: JsonValue) -> Entries;
pub trait KeyText { spec fn key_text(&self) -> Seq<char>; }
impl KeyText for String { open spec fn key_text(&self) -> Seq<char> { self@ } }
impl KeyText for &str { open spec fn key_text(&self) -> Seq<char> { self@ } }
#[verifier::external_body]
pub fn string_clone(s: &String) -> (r: String) ensures r@ == s@ { unimplemented!() }
#[verifier::external_body]
pub struct JsonMap { x: u8 }
impl JsonMap {
    pub uninterp spec fn view(&self) -> Entries;
    pub uninterp spec fn table(&self) -> Map<Seq<char>, JsonValue>;
    #[verifier::external_body]
    pub fn new() -> (r: JsonMap) ensures r@.len() == 0 { unimplemented!() }
    #[verifier::external_body]
    pub fn insert<K: KeyText>(&mut self, k: K, v: JsonValue) -> (r: Option<JsonValue>) ensures final(self)@ == map_insert(old(self)@, k.key_text(), v) { unimplemented!() }
    #[verifier::external_body]
    pub fn get_key_value(&self, k: &str) -> (r: Option<(&String, &JsonValue)>)
        ensures match r { Some(p) => self.table().dom().contains(k@) && p.0@ == k@ && *p.1 == self.table()[k@], None => !self.table().dom().contains(k@) }
    { unimplemented!() }
}
pub enum Value { Null, Other(u64) }
pub struct VariableDefinition { pub name: Name, pub ty: Node<Type>, pub default_value: Option<Node<Value>> }
pub struct Operation { pub variables: Vec<Node<VariableDefinition>> }
pub struct Schema { pub x: u64 }
pub struct SuspectedValidationBug { pub message: String, pub location: Option<SourceSpan> }
#[verifier::external_body]
pub fn fmt_opaque() -> String { unimplemented!() }
pub struct FmtArgs { pub x: u8 }
#[verifier::external_body]
pub fn fmt_args_opaque() -> FmtArgs { unimplemented!() }
pub type Coerced = Result<JsonValue, InputCoercionError>;
/// unit `variable_value` proves what this is (for scalars, enums, null and non-input types)
pub uninterp spec fn variable_coerced(schema: &Schema, ty: Type, value: JsonValue) -> Coerced;
#[verifier::external_body]
pub fn coerce_variable_value(schema: &Valid<Schema>, description: &FmtArgs, ty: &Type, value: &JsonValue) -> (r: Coerced) ensures r == variable_coerced(&schema.0, *ty, *value) { unimplemented!() }
pub uninterp spec fn default_as_json(value: Value) -> Coerced;
#[verifier::external_body]
pub fn graphql_value_to_json(description: &FmtArgs, value: &Node<Value>) -> (r: Coerced) ensures r == default_as_json(*value.0) { unimplemented!() }

// ---------------- specification: CoerceVariableValues ----------------
pub open spec fn non_null(t: Type) -> bool { t is NonNullNamed || t is NonNullList }
pub enum Step { Insert(JsonValue), Skip, RequestError }
pub open spec fn step(schema: &Schema, d: VariableDefinition, provided: Map<Seq<char>, JsonValue>) -> Step {
    if provided.dom().contains(d.name.text@) {
        match variable_coerced(schema, *d.ty.0, provided[d.name.text@]) { Ok(v) => Step::Insert(v), Err(_) => Step::RequestError }
    } else { match d.default_value {
        Some(dv) => match default_as_json(*dv.0) { Ok(v) => Step::Insert(v), Err(_) => Step::RequestError },
        None => if non_null(*d.ty.0) { Step::RequestError } else { Step::Skip },
    } }
}
pub open spec fn vars_outcome(schema: &Schema, defs: Seq<Node<VariableDefinition>>, provided: Map<Seq<char>, JsonValue>, i: int, out: Entries) -> Option<Entries>
    decreases defs.len() - i
{
    if i < 0 || i >= defs.len() { Some(out) }
    else { match step(schema, *defs[i].0, provided) {
        Step::RequestError => None,
        Step::Skip => vars_outcome(schema, defs, provided, i + 1, out),
        Step::Insert(v) => vars_outcome(schema, defs, provided, i + 1, map_insert(out, defs[i].0.name.text@, v)),
    } }
}
'''

FMT = (r'format!\((?:[^()]|\([^()]*\))*\)(?=,\n)', "fmt_opaque()", None, "re")
FMTA = (r'format_args!\("[^"]*"\)', "fmt_args_opaque()", None, "re")
ARGS = "&schema.0, operation.variables@, values.table()"

UNIT = {
    "name": "variables",
    "properties": ["C28"],
    "parts": [
        PRELUDE,
        dict(file=AST, kind="enum", name="Type", props=["C28"]),
        dict(file="crates/apollo-compiler/src/ast/impls.rs", kind="fn", name="is_non_null", container="Type", container_name="Type", wrap="impl Type", props=["C28"],
             clauses=[("ensures", "NonNull", "r == non_null(*self)")]),
        dict(file=IC, kind="enum", name="InputCoercionError", props=["C28"]),
        dict(file=IC, kind="fn", name="coerce_variable_values", props=["C28"], n_loops=1,
             rewrites=[("for variable_def in &operation.variables {",
                        "let mut __i: usize = 0; while __i < operation.variables.len() { let variable_def = &operation.variables[__i]; __i += 1;", 1),
                       ("key.clone()", "string_clone(key)", "*"), FMT, FMTA],
             clauses=[("ensures", "CoerceVariableValues",
                       "match vars_outcome(%s, 0, Seq::<(Seq<char>, JsonValue)>::empty()) { Some(m) => r matches Ok(map) && map.0@ == m, None => r is Err }" % ARGS)],
             loops=[dict(invariant=[("bounds", "__i <= operation.variables@.len()"),
                                    ("coerced_so_far", "vars_outcome(%s, __i as int, coerced_values@) == vars_outcome(%s, 0, Seq::<(Seq<char>, JsonValue)>::empty())" % (ARGS, ARGS))],
                         decreases="operation.variables@.len() - __i")],
             hints=[("after", "let mut coerced_values = JsonMap::new();", "proof { assert(coerced_values@ =~= Seq::<(Seq<char>, JsonValue)>::empty()); }")]),
    ],
}
