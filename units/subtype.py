"""Unit `subtype` -- C29 (and the kernels of C14 / C15 that rest on it): `Schema::is_subtype`, the relation that unit `types` ASSUMED
("Schema::is_subtype is the schema's subtype relation") when it proved `is_valid_implementation_field_type == IsValidImplementationFieldType`.

Extracted verbatim from crates/apollo-compiler/src/schema/mod.rs: Schema::is_subtype, Schema::is_input_type, Schema::is_output_type
(the latter two against IsInputType / IsOutputType of the spec: wrappers looked through, Scalar / Enum / InputObject resp. everything but InputObject;
they are what the field / argument / variable validators ask to decide "the referenced type has the right kind", C15).

Specification (https://spec.graphql.org/October2021/#IsValidImplementationFieldType(), steps 4.a / 4.b, "possible type"):
`maybe_subtype` is a subtype of `abstract_type` iff abstract_type is defined and is
  * a union type and maybe_subtype is one of its members, or
  * an interface type and maybe_subtype is a defined object or interface type that declares it implements abstract_type.

Unit `types` keeps its relation uninterpreted (its proofs hold for every relation); this unit shows that the relation the real function
computes is the one above, for every schema and every pair of names.

Listed rewrites: the two closures passed to `Option::is_some_and` get their parameter type and a postcondition spelled out (Verus needs a closure's
contract; the BODIES are kept verbatim and are checked against it); the expression-bodied outer closure gets braces.
Shims (trusted): IndexMap::get finds the entry keyed by the text; IndexSet<ComponentName>::contains(&str) is membership of the text;
`Option::is_some_and(f)` is `Some(x) => f(x), None => false` (std documentation).
"""
import importlib.util as _ilu
import os as _os
_spec = _ilu.spec_from_file_location("verif_unit_types", _os.path.join(_os.path.dirname(_os.path.abspath(__file__)), "types.py"))   # not `import types`: that is the stdlib module
TY = _ilu.module_from_spec(_spec)
_spec.loader.exec_module(TY)
_a = TY.PRELUDE.index("// ---------------- specification (from the spec text) ----------------")
_b = TY.PRELUDE.index("// https://spec.graphql.org/October2021/#AreTypesCompatible()")
TYPE_SPEC = TY.PRELUDE[_a:_b]      # spec_non_null .. spec_inner_name, size: the text of unit `types`

SM = "crates/apollo-compiler/src/schema/mod.rs"

PRELUDE = TYPE_SPEC + r'''
// ---------------- shims (trusted) ----------------
pub struct Name { pub text: String }
pub type NamedType = Name;
pub assume_specification<T, F: FnOnce(T) -> bool>[Option::<T>::is_some_and](o: Option<T>, f: F) -> (r: bool)
    requires o is Some ==> f.requires((o->0,))
    ensures match o { Some(x) => f.ensures((x,), r), None => !r };
pub struct Node<T>(pub Box<T>);
impl<T> core::ops::Deref for Node<T> {
    type Target = T;
    fn deref(&self) -> (r: &T) ensures *r == *self.0 { &*self.0 }
}
#[verifier::external_body]
pub struct NameSet { x: u8 }
impl NameSet {
    pub uninterp spec fn view(&self) -> Set<Seq<char>>;
    #[verifier::external_body]
    pub fn contains(&self, k: &str) -> (r: bool) ensures r == self@.contains(k@) { unimplemented!() }
}
pub struct ImplT { pub implements_interfaces: NameSet }
pub struct UnionT { pub members: NameSet }
pub struct OtherT { pub x: u64 }
pub enum ExtendedType { Scalar(Node<OtherT>), Object(Node<ImplT>), Interface(Node<ImplT>), Union(Node<UnionT>), Enum(Node<OtherT>), InputObject(Node<OtherT>) }
#[verifier::external_body]
pub struct TypeMap { x: u8 }
impl TypeMap {
    pub uninterp spec fn view(&self) -> Map<Seq<char>, ExtendedType>;
    #[verifier::external_body]
    pub fn get(&self, k: &str) -> (r: Option<&ExtendedType>)
        ensures match r { Some(v) => self@.dom().contains(k@) && *v == self@[k@], None => !self@.dom().contains(k@) }
    { unimplemented!() }
}
impl TypeMap {
    // the same lookup with a Name as the key (IndexMap<Name, _>::get accepts both; a Name compares as its text)
    #[verifier::external_body]
    pub fn get_name(&self, k: &Name) -> (r: Option<&ExtendedType>)
        ensures match r { Some(v) => self@.dom().contains(k.text@) && *v == self@[k.text@], None => !self@.dom().contains(k.text@) }
    { unimplemented!() }
}
pub struct Schema { pub types: TypeMap }

// ---------------- specification ----------------
/// the type declares that it implements interface `a`
pub open spec fn declares_implements(t: ExtendedType, a: Seq<char>) -> bool {
    match t { ExtendedType::Object(d) => d.0.implements_interfaces@.contains(a), ExtendedType::Interface(d) => d.0.implements_interfaces@.contains(a), _ => false }
}
/// given the definition of the abstract type
pub open spec fn possible_type_of(s: &Schema, abstract_def: ExtendedType, a: Seq<char>, m: Seq<char>) -> bool {
    match abstract_def {
        ExtendedType::Interface(_) => s.types@.dom().contains(m) && declares_implements(s.types@[m], a),
        ExtendedType::Union(d) => d.0.members@.contains(m),
        _ => false,
    }
}
/// https://spec.graphql.org/October2021/#IsInputType() / #IsOutputType(): List and Non-Null wrappers are looked through; an undefined name is neither
pub open spec fn spec_is_input_type(s: &Schema, t: Type) -> bool {
    let n = spec_inner_name(t).text@;
    s.types@.dom().contains(n) && (s.types@[n] is Scalar || s.types@[n] is Enum || s.types@[n] is InputObject)
}
pub open spec fn spec_is_output_type(s: &Schema, t: Type) -> bool {
    let n = spec_inner_name(t).text@;
    s.types@.dom().contains(n) && (s.types@[n] is Scalar || s.types@[n] is Object || s.types@[n] is Interface || s.types@[n] is Union || s.types@[n] is Enum)
}
pub open spec fn spec_is_subtype(s: &Schema, a: Seq<char>, m: Seq<char>) -> bool { s.types@.dom().contains(a) && possible_type_of(s, s.types@[a], a, m) }
'''

UNIT = {
    "name": "subtype",
    "properties": ["C29", "C14", "C15"],
    "parts": [
        PRELUDE,
        dict(file=SM, kind="fn", name="is_subtype", container="Schema", container_name="Schema", wrap="impl Schema", props=["C29", "C14", "C15"],
             rewrites=[("is_some_and(|ty| match ty {", "is_some_and(|ty: &ExtendedType| -> (x: bool) ensures x == possible_type_of(self, *ty, abstract_type@, maybe_subtype@) { match ty {", 1),
                       ("is_some_and(|ty2| {", "is_some_and(|ty2: &ExtendedType| -> (y: bool) ensures y == declares_implements(*ty2, abstract_type@) {", 1),
                       (r"(?s)\n        \}\)\n    \}\s*$", "\n        }})\n    }\n", 1, "re")],
             clauses=[("ensures", "IsSubType", "r == spec_is_subtype(self, abstract_type@, maybe_subtype@)")]),
        dict(file="crates/apollo-compiler/src/ast/mod.rs", kind="enum", name="Type", props=["C15"]),
    ] + [dict(p, props=["C15"]) for p in TY.UNIT["parts"] if isinstance(p, dict) and p.get("container_name") == "Type" and p.get("name") == "inner_named_type"] + [
        dict(file=SM, kind="fn", name="is_input_type", container="Schema", container_name="Schema", wrap="impl Schema", props=["C15"],
             rewrites=[("self.types.get(ty.inner_named_type())", "self.types.get_name(ty.inner_named_type())", 1)],
             clauses=[("ensures", "IsInputType", "r == spec_is_input_type(self, *ty)")]),
        dict(file=SM, kind="fn", name="is_output_type", container="Schema", container_name="Schema", wrap="impl Schema", props=["C15"],
             rewrites=[("self.types.get(ty.inner_named_type())", "self.types.get_name(ty.inner_named_type())", 1)],
             clauses=[("ensures", "IsOutputType", "r == spec_is_output_type(self, *ty)")]),
    ],
}
