"""Unit `lexer_strings` -- C03, the CONVERSE direction for quoted strings: an error item that starts with a quote is reported only when it
has to be.  A third, light pass over the same extracted state machine (`Cursor::advance`, `Cursor::eof`, crates/apollo-parser/src/lexer/mod.rs),
built like unit `lexer_numbers`: the loop invariant keeps, in the quoted-string states, the string prefix grammar while no error has been recorded
for the token, `dead(s)` (some prefix of the consumed text is no prefix of any quoted string) once one has, and `no_complete_prefix(s)`; for
every other state only "the token does not start with a quote" / "starts with three quotes" (block strings).

Postcondition (advance and eof): an error item whose text starts with `"` has NO prefix (the whole text included) that is a complete quoted
StringValue of the grammar -- so a valid literal such as `"a\\u00e9\\n"` can never be rejected, for any surrounding input, and the lexer never runs
past the closing quote of a valid literal (except that `""` followed by a third quote opens a block string: maximal munch).  Together with unit `lexer` (every StringValue token returned without error IS a literal of the grammar)
this is the property's "exactly when" for quoted strings.  Block strings: not decided (only `is_quoted_string` excludes them: lemma_second_quote).

The grammar facts are lemmas over the SHARED string grammar text of unit `lexer`: the five prefix classes (q_open, q_body, q_backslash,
q_unicode(rem), is_quoted_string) are pairwise disjoint (`lemma_exclusive`: the automaton is deterministic), viability is prefix-closed, and each
error site of the state machine leaves the grammar (`lemma_string_error_step`).
"""
import lexer as LX
import lexer_numbers as LN

STRINGS_PRELUDE = r'''// ================= the converse direction for quoted strings =================
/// s is a prefix of some quoted string literal (in one of the five left-linear classes)
#[verifier::opaque]
pub open spec fn viable_string(s: Seq<char>) -> bool {
    q_open(s) || q_body(s) || q_backslash(s) || (exists|rem: int| q_unicode(s, rem)) || is_quoted_string(s)
}
/// some non-empty prefix of s is no prefix of any quoted string literal: s cannot be continued to (or be) one
#[verifier::opaque]
pub open spec fn dead(s: Seq<char>) -> bool { exists|k: int| 1 <= k <= s.len() && !viable_string(#[trigger] s.take(k)) }
/// no prefix of s, s included, is a complete quoted string literal
#[verifier::opaque]
pub open spec fn no_complete_prefix(s: Seq<char>) -> bool { forall|k: int| 1 <= k <= s.len() ==> !is_quoted_string(#[trigger] s.take(k)) }

/// the automaton is deterministic: a text is in at most one class (and q_unicode's counter is determined)
pub proof fn lemma_exclusive(s: Seq<char>)
    ensures
        !(q_open(s) && q_body(s)), !(q_open(s) && q_backslash(s)), !(q_open(s) && is_quoted_string(s)),
        !(q_body(s) && q_backslash(s)), !(q_body(s) && is_quoted_string(s)), !(q_backslash(s) && is_quoted_string(s)),
        forall|rem: int| #[trigger] q_unicode(s, rem) ==> 1 <= rem <= 4 && !q_open(s) && !q_body(s) && !q_backslash(s) && !is_quoted_string(s),
        forall|r1: int, r2: int| #[trigger] q_unicode(s, r1) && #[trigger] q_unicode(s, r2) ==> r1 == r2,
    decreases s.len()
{
    reveal(q_open); reveal(is_quoted_string); reveal_with_fuel(q_body, 2); reveal_with_fuel(q_backslash, 2); reveal_with_fuel(q_unicode, 2);
    if s.len() >= 2 {
        let d = s.drop_last();
        lemma_exclusive(d);
        assert forall|rem: int| #[trigger] q_unicode(s, rem) implies 1 <= rem <= 4 && !q_open(s) && !q_body(s) && !q_backslash(s) && !is_quoted_string(s) by {
            let l = s.last();
            if rem == 4 { assert(q_backslash(d)); assert(l == 'u'); assert(!hexdigit(l) && !escaped_character(l)); }
            else { assert(q_unicode(d, rem + 1)); assert(hexdigit(l)); assert(l != '"' && l != '\\');
                   if q_body(s) { if hexdigit(l) && q_unicode(d, 1) { assert(rem + 1 == 1); } } }
        }
        assert forall|r1: int, r2: int| #[trigger] q_unicode(s, r1) && #[trigger] q_unicode(s, r2) implies r1 == r2 by {
            if r1 != 4 { assert(q_unicode(d, r1 + 1)); }
            if r2 != 4 { assert(q_unicode(d, r2 + 1)); }
        }
    }
}
/// viability is prefix-closed
pub proof fn lemma_viable_prefix(s: Seq<char>)
    requires viable_string(s), s.len() >= 2
    ensures viable_string(s.drop_last())
{
    reveal(viable_string); reveal(q_open); reveal(is_quoted_string); reveal_with_fuel(q_body, 2); reveal_with_fuel(q_backslash, 2); reveal_with_fuel(q_unicode, 2);
    let d = s.drop_last();
    if exists|rem: int| q_unicode(s, rem) {
        let rem = choose|rem: int| q_unicode(s, rem);
        if rem == 4 { assert(q_backslash(d)); } else { assert(q_unicode(d, rem + 1)); assert(exists|r: int| q_unicode(d, r)); }
    } else if q_body(s) {
        if hexdigit(s.last()) && q_unicode(d, 1) { assert(exists|r: int| q_unicode(d, r)); }
        assert(q_open(d) || q_body(d) || q_backslash(d) || q_unicode(d, 1));
    } else if q_backslash(s) { assert(q_open(d) || q_body(d)); }
    else if is_quoted_string(s) { assert(q_open(d) || q_body(d)); }
    else { assert(q_open(s)); }
}
pub proof fn lemma_viable_prefixes(s: Seq<char>, k: int)
    requires viable_string(s), 1 <= k <= s.len()
    ensures viable_string(s.take(k))
    decreases s.len() - k
{
    if k == s.len() { assert(s.take(k) =~= s); } else {
        lemma_viable_prefix(s);
        lemma_viable_prefixes(s.drop_last(), k);
        assert(s.drop_last().take(k) =~= s.take(k));
    }
}
pub proof fn lemma_dead_not_viable(s: Seq<char>)
    requires dead(s)
    ensures !viable_string(s), !q_open(s), !q_body(s), !q_backslash(s), !is_quoted_string(s), forall|rem: int| !q_unicode(s, rem)
{
    reveal(dead);
    let k = choose|k: int| 1 <= k <= s.len() && !viable_string(#[trigger] s.take(k));
    if viable_string(s) { lemma_viable_prefixes(s, k); }
    reveal(viable_string);
}
pub proof fn lemma_dead_push(s: Seq<char>, c: char)
    ensures dead(s) ==> dead(s.push(c)), !viable_string(s.push(c)) ==> dead(s.push(c))
{
    reveal(dead);
    let t = s.push(c);
    if dead(s) {
        let k = choose|k: int| 1 <= k <= s.len() && !viable_string(#[trigger] s.take(k));
        assert(t.take(k) =~= s.take(k));
    }
    if !viable_string(t) { assert(t.take(t.len() as int) =~= t); }
}
pub proof fn lemma_ncp_push(s: Seq<char>, c: char)
    requires no_complete_prefix(s), !is_quoted_string(s.push(c))
    ensures no_complete_prefix(s.push(c))
{
    reveal(no_complete_prefix);
    let t = s.push(c);
    assert forall|k: int| 1 <= k <= t.len() implies !is_quoted_string(#[trigger] t.take(k)) by {
        if k <= s.len() { assert(t.take(k) =~= s.take(k)); } else { assert(t.take(k) =~= t); }
    }
}
pub proof fn lemma_ncp_whole(s: Seq<char>)
    requires no_complete_prefix(s), s.len() >= 1
    ensures !is_quoted_string(s)
{
    reveal(no_complete_prefix);
    assert(s.take(s.len() as int) =~= s);
}
pub proof fn lemma_ncp_open(s: Seq<char>)
    requires q_open(s)
    ensures no_complete_prefix(s)
{
    reveal(no_complete_prefix); reveal(q_open); reveal(is_quoted_string);
    assert forall|k: int| 1 <= k <= s.len() implies !is_quoted_string(#[trigger] s.take(k)) by { assert(s.take(k).len() == 1); }
}
/// each place where the state machine records an error for a quoted string leaves the grammar; and a complete literal is only reached by the closing quote
pub proof fn lemma_string_error_step(s: Seq<char>, c: char)
    ensures
        // unexpected line terminator
        ((q_open(s) || q_body(s)) && line_term(c)) ==> !viable_string(s.push(c)),
        // invalid escape character
        (q_backslash(s) && !escaped_character(c) && c != 'u') ==> !viable_string(s.push(c)),
        // a character that is no hex digit inside \uXXXX (the closing quote included)
        forall|rem: int| (#[trigger] q_unicode(s, rem) && !hexdigit(c)) ==> !viable_string(s.push(c)),
        // the fourth hex digit completes a surrogate value
        (q_unicode(s, 1) && hexdigit(c) && surrogate(hex4(s.push(c)))) ==> !viable_string(s.push(c)),
        // a literal is complete only right after its closing quote
        is_quoted_string(s.push(c)) ==> c == '"' && (q_open(s) || q_body(s)),
        (q_body(s) || q_backslash(s) || q_open(s)) ==> !is_quoted_string(s),
        forall|rem: int| #[trigger] q_unicode(s, rem) ==> !is_quoted_string(s),
{
    reveal(viable_string); reveal(q_open); reveal(is_quoted_string); reveal_with_fuel(q_body, 2); reveal_with_fuel(q_backslash, 2); reveal_with_fuel(q_unicode, 2);
    let t = s.push(c);
    assert(t.drop_last() =~= s);
    lemma_exclusive(s);
    lemma_quoted_prefix_starts_with_quote(s);
    assert forall|rem: int| (#[trigger] q_unicode(s, rem) && !hexdigit(c)) implies !viable_string(t) by {
        lemma_unicode_prefix_starts_with_quote(s, rem);
        if exists|r2: int| q_unicode(t, r2) { let r2 = choose|r2: int| q_unicode(t, r2); if r2 == 4 { assert(q_backslash(s)); } }
    }
    if q_unicode(s, 1) && hexdigit(c) && surrogate(hex4(t)) {
        lemma_unicode_prefix_starts_with_quote(s, 1);
        if exists|r2: int| q_unicode(t, r2) { let r2 = choose|r2: int| q_unicode(t, r2); if r2 == 4 { assert(c == 'u'); } else { assert(q_unicode(s, r2 + 1)); } }
    }
    if q_backslash(s) && !escaped_character(c) && c != 'u' {
        if exists|r2: int| q_unicode(t, r2) { let r2 = choose|r2: int| q_unicode(t, r2); if r2 != 4 { assert(q_unicode(s, r2 + 1)); } }
    }
    if (q_open(s) || q_body(s)) && line_term(c) {
        if exists|r2: int| q_unicode(t, r2) { let r2 = choose|r2: int| q_unicode(t, r2); }
    }
}
/// a quoted literal does not start with two quotes unless it is `""`: so text that starts with three quotes (block strings) is never one
pub proof fn lemma_second_quote(s: Seq<char>)
    ensures (q_body(s) || q_backslash(s) || is_quoted_string(s)) && s.len() >= 3 ==> s[1] != '"',
            forall|rem: int| #[trigger] q_unicode(s, rem) ==> s.len() >= 3 && s[1] != '"',
    decreases s.len()
{
    reveal(q_open); reveal(is_quoted_string); reveal_with_fuel(q_body, 2); reveal_with_fuel(q_backslash, 2); reveal_with_fuel(q_unicode, 2);
    if s.len() >= 2 {
        let d = s.drop_last();
        lemma_second_quote(d);
        lemma_quoted_prefix_starts_with_quote(d);
        if d.len() >= 2 { assert(d[1] == s[1]); }
        if s.len() >= 3 && (q_body(s) || q_backslash(s) || is_quoted_string(s)) {
            // d has at least two chars, so it is not q_open: it is in a class whose second char is no quote
            assert(!q_open(d));
            if q_body(s) && hexdigit(s.last()) && q_unicode(d, 1) { } else { assert(q_body(d) || q_backslash(d)); }
        }
        assert forall|rem: int| #[trigger] q_unicode(s, rem) implies s.len() >= 3 && s[1] != '"' by {
            if rem == 4 { assert(q_backslash(d)); if d.len() == 2 { assert(q_open(d.drop_last())); assert(d[1] == '\\'); } } else { assert(q_unicode(d, rem + 1)); }
        }
    }
}
/// text that starts with three quotes is no quoted literal
pub broadcast proof fn lemma_block_not_quoted(s: Seq<char>)
    requires b_open(s)
    ensures !#[trigger] is_quoted_string(s)
{
    lemma_second_quote(s);
}

pub open spec fn starts_quote(s: Seq<char>) -> bool { s.len() > 0 && s[0] == '"' }
/// what this third pass tracks
pub open spec fn state_strings(state: State, s: Seq<char>, err_free: bool) -> bool {
    match state {
        State::Start => s.len() == 0,
        State::StringLiteralStart => q_open(s) && err_free,
        State::StringLiteral => starts_quote(s) && no_complete_prefix(s) && (err_free ==> q_body(s)) && (!err_free ==> dead(s)),
        State::StringLiteralBackslash => starts_quote(s) && no_complete_prefix(s) && ends_with_backslash(s) && (err_free ==> q_backslash(s)) && (!err_free ==> dead(s)),
        State::StringLiteralEscapedUnicode(rem) => starts_quote(s) && no_complete_prefix(s) && in_escape(s, rem as int) && (err_free ==> q_unicode(s, rem as int)) && (!err_free ==> dead(s)),
        State::BlockStringLiteral => b_open(s),
        State::BlockStringLiteralBackslash => b_open(s),
        _ => s.len() >= 1 && s[0] != '"',
    }
}
pub proof fn lemma_strings_step(s: Seq<char>, c: char)
    ensures s.len() >= 1 ==> s.push(c)[0] == s[0], s.len() == 0 ==> s.push(c)[0] == c, s.push(c).len() == s.len() + 1,
        b_open(s) ==> b_open(s.push(c)),
        (s.len() == 2 && s[0] == '"' && s[1] == '"' && c == '"') ==> b_open(s.push(c)),
{ }
'''

STRERR_POST = ("ensures", "errors_on_quoted_strings_are_justified",
               "(r is Err && starts_quote(item_text(r))) ==> !is_quoted_string(item_text(r)) && (!b_open(item_text(r)) ==> no_complete_prefix(item_text(r)))", ["C03"])


def part(name):
    return LN.part(name)


STEP_HINT = ("proof { let s0 = self.m@.chars.subrange(self.m@.start as int, self.m@.read - 1); lemma_step(s0, c); lemma_escape_step(s0, c); lemma_string_step(s0, c); "
             "lemma_string_error_step(s0, c); lemma_exclusive(s0); lemma_dead_push(s0, c); lemma_strings_step(s0, c); "
             "if dead(s0) { lemma_dead_not_viable(s0); } "
             "if no_complete_prefix(s0) && !is_quoted_string(s0.push(c)) { lemma_ncp_push(s0, c); } "
             "if q_open(s0) { lemma_ncp_open(s0); } if q_open(s0.push(c)) { lemma_ncp_open(s0.push(c)); } "
             "if b_open(s0.push(c)) { lemma_block_not_quoted(s0.push(c)); } "
             "if s0.push(c).len() >= 1 && no_complete_prefix(s0.push(c)) { lemma_ncp_whole(s0.push(c)); } "
             "assert(consumed(&*self) =~= s0.push(c)); "
             "if b_open(s0.push(c)) { let cs = self.m@.chars; let st = self.m@.start as int; let e = self.m@.eff() as int; "
             "assert forall|e2: int| e <= e2 <= cs.len() implies b_open(#[trigger] cs.subrange(st, e2)) && !is_quoted_string(cs.subrange(st, e2)) by { let u = cs.subrange(st, e2); let v = cs.subrange(st, e); assert(v =~= s0.push(c)); assert(u[0] == v[0] && u[1] == v[1] && u[2] == v[2]); lemma_block_not_quoted(u); } } }")

adv = part("advance")
adv["clauses"] = LX.ADV_REQ + [LN.STALE_REQ, LN.IDLE_POST, LN.TEXT_POST, LN.STALE_POST, STRERR_POST, LX.NO_LIMIT_POST]
adv["loops"] = [dict(invariant=[
    ("wf", "self.m@.wf(), self.m@.chars == old(self).m@.chars, self.source == old(self).source, self.m@.start == old(self).m@.start"),
    ("start_state", "state is Start ==> self.m@.eff() == self.m@.start && token.data@ =~= Seq::<char>::empty()"),
    ("other_states", "!(state is Start) ==> self.m@.start < self.m@.eff() && self.m@.index_ok"),
    ("string_prefix_grammar", "state_strings(state, consumed(&*self), self.err is None)", ["C03"]),
    ("source_is_the_model", "self.source@ == self.m@.chars && byte_off(self.m@.chars, self.m@.chars.len() as int) <= usize::MAX"),
    ("no_pushback_inside_escape", "state is StringLiteralEscapedUnicode ==> !self.m@.pending"),
    ("no_stale_error", "(!string_state(state) && !(state is Start)) ==> self.err is None, state is Start ==> (self.err is None || self.m@.start == self.m@.chars.len())", ["C03"]),
], decreases="self.m@.measure()")]
adv["hints"] = [("body_start", None, "broadcast use lemma_block_not_quoted; proof { reveal_strlit(\"\"); }"),
                ("before", "match state {", STEP_HINT),
                ("before", "let hex_end = self.offset + 1;", "proof { lemma_escape_bytes(self.m@.chars, self.m@.start as int, self.m@.read as int); }"),
                ("after", "let hex = str_slice(self.source, hex_start, hex_end);", "proof { assert(hex@ =~= self.m@.chars.subrange(self.m@.read - 4, self.m@.read as int)); let t = consumed(&*self); reveal(escape_complete); assert(hex@ =~= t.subrange(t.len() - 4, t.len() as int)); lemma_hex4(t, hex@); }")]
adv["props"] = ["C03"]
eof = part("eof")
eof["clauses"] = [("requires", "wf", "old(self).m@.wf() && !old(self).m@.pending && old(self).m@.read == old(self).m@.chars.len()"),
                  ("requires", "start_state_has_consumed_nothing", "state is Start ==> old(self).m@.start == old(self).m@.read && token.data@ =~= Seq::<char>::empty()"),
                  ("requires", "other_states_have_consumed_something", "!(state is Start) ==> old(self).m@.start < old(self).m@.read && old(self).m@.index_ok"),
                  ("requires", "string_prefix_grammar", "state_strings(state, consumed(&*old(self)), old(self).err is None)", ["C03"]),
                  ("requires", "no_stale_error", "(!string_state(state) && !(state is Start)) ==> old(self).err is None"),
                  LN.IDLE_POST, LN.TEXT_POST, LN.STALE_POST, STRERR_POST, LX.NO_LIMIT_POST]
eof["hints"] = [("body_start", None, "proof { let s = consumed(&*self); lemma_string_error_step(s, 'x'); if dead(s) { lemma_dead_not_viable(s); } if q_open(s) { lemma_ncp_open(s); } if b_open(s) { lemma_block_not_quoted(s); } if s.len() >= 1 && no_complete_prefix(s) { lemma_ncp_whole(s); } }")]
eof["props"] = ["C03"]
done = part("done")
done["props"] = ["C03"]
done["clauses"] = done["clauses"] + [("ensures", "recorded_error_is_cleared", "final(self).err is None", ["C03"]), LX.NO_LIMIT_POST]
usp = part("unterminated_spread_operator")
usp["props"] = ["C03"]
usp["clauses"] = usp["clauses"] + [("ensures", "recorded_error_untouched", "final(self).err == old(self).err"), LX.NO_LIMIT_POST]

_i = LN.NUMBERS_PRELUDE.index("/// the states in which an error may be recorded on the cursor while lexing goes on")
_j = LN.NUMBERS_PRELUDE.index("/// what this second, lighter pass over the state machine tracks")
STRING_STATE = LN.NUMBERS_PRELUDE[_i:_j]      # spec fn string_state (text of unit lexer_numbers)

UNIT = {
    "name": "lexer_strings",
    "properties": ["C03", "C04", "C01"],
    "rlimit": 600,
    "rlimit_retry": [],
    "parts": [
        part("TokenKind"), part("Token"), LX.PRELUDE, part("State"), STRING_STATE, STRINGS_PRELUDE,
        part("is_whitespace_assimilated"), part("is_name_continue"), part("is_line_terminator"), part("is_escaped_char"),
        done, usp, eof, adv,
    ],
}
