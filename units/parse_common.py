"""Unit `parse_common` -- C04 (last sentence) and the compiler half of C07.

Extracted verbatim: apollo_compiler::parser::Parser::parse_common (crates/apollo-compiler/src/parser.rs), the one
function through which every compiler parse entry point (parse_ast, parse_schema, parse_executable, parse_field_set,
parse_type, ...) drives apollo-parser.

Contract:
  * the apollo-parser `Parser` handed to the `parse` closure is built from exactly the source text, with exactly the
    configured recursion / token limits (`configured`);
  * C04: after the call `recursion_reached` / `tokens_reached` ARE the high-water marks of the returned tree
    (whatever an earlier call left there);
  * C07 / C01: every parser error whose offset and length fit 32 bits becomes exactly one diagnostic, in order, at that
    offset, `ParserLimit` for limit errors and `SyntaxError` otherwise (so a syntax error can never be dropped, which is
    what `parse_type` / `parse_field_set` turn into `Err`); diagnostics that were there before are kept;
  * C11: the source file is registered under the file id with the text that was parsed.

apollo-parser's `Parser` / `SyntaxTree` / `Error`, rowan's `TextSize` / `TextRange`, `DiagnosticList` and the source map
are shims (trusted, listed).  `parse` is an arbitrary closure: its own requires/ensures are quantified over
(`parse.requires` / `parse.ensures`).
"""
PARSER = "crates/apollo-compiler/src/parser.rs"
OUTER = "use vstd::std_specs::convert::*;"

PRELUDE = r'''
// ---------------- shims (trusted) ----------------
pub struct PathBuf { pub x: u8 }
#[derive(Clone, Copy)]
pub struct FileId { pub id: u64 }
pub mod rowan {
    use super::*;
    // rowan::TextSize is a u32 newtype; `usize: TryInto<TextSize>` succeeds iff the value fits 32 bits
    pub struct TextSize { pub raw: u32 }
    pub struct TooBig;
    impl TryFrom<usize> for TextSize {
        type Error = TooBig;
        #[verifier::external_body]
        fn try_from(v: usize) -> (r: Result<TextSize, TooBig>) { unimplemented!() }
    }
    impl TryFromSpecImpl<usize> for TextSize {
        open spec fn obeys_try_from_spec() -> bool { true }
        open spec fn try_from_spec(v: usize) -> Result<Self, Self::Error> {
            if v <= u32::MAX { Ok(TextSize { raw: v as u32 }) } else { Err(TooBig) }
        }
    }
    pub struct TextRange { pub start: u32, pub len: u32 }
    impl TextRange {
        #[verifier::external_body]
        pub fn at(offset: TextSize, len: TextSize) -> (r: TextRange) ensures r.start == offset.raw, r.len == len.raw { unimplemented!() }
    }
}
pub struct SourceSpan { pub file_id: FileId, pub text_range: rowan::TextRange }
pub enum Details { ParserLimit { message: String }, SyntaxError { message: String }, Other }
pub struct DiagnosticData { pub location: Option<SourceSpan>, pub details: Details }
pub struct OnceLock { pub x: u8 }
impl OnceLock { pub fn new() -> OnceLock { OnceLock { x: 0 } } }
pub struct SourceFile { pub path: PathBuf, pub source_text: String, pub source: OnceLock }
// Arc<IndexMap<FileId, Arc<SourceFile>>> as a map from the id to the file
#[verifier::external_body]
pub struct SourceMap { x: u8 }
impl SourceMap {
    pub uninterp spec fn view(&self) -> Map<u64, SourceFile>;
}
pub struct DiagnosticList { pub sources: SourceMap, pub diagnostics_data: Vec<DiagnosticData> }
impl DiagnosticList {
    // validation/mod.rs: `self.diagnostics_data.push(DiagnosticData { location, details: details.into() })`
    pub fn push(&mut self, location: Option<SourceSpan>, details: Details)
        ensures final(self).diagnostics_data@ == old(self).diagnostics_data@.push(DiagnosticData { location, details }), final(self).sources == old(self).sources
    { self.diagnostics_data.push(DiagnosticData { location, details }) }
}
// `Arc::make_mut(&mut errors.sources).insert(file_id, source_file)` (rewrite listed)
#[verifier::external_body]
pub fn sources_insert(sources: &mut SourceMap, file_id: FileId, file: SourceFile)
    ensures final(sources)@ == old(sources)@.insert(file_id.id, file)
{ unimplemented!() }

pub mod apollo_parser {
    use super::*;
    pub mod cst { pub trait CstNode {} }
    // apollo_parser::LimitTracker (proved in units `limits` / `parser_core`)
    #[derive(Clone, Copy)]
    pub struct LimitTracker { pub current: usize, pub high: usize, pub limit: usize }
    // what `Error::data()` returns: only its byte length is used here
    pub struct StrShim { pub bytes: Ghost<Seq<u8>> }
    impl StrShim { #[verifier::external_body] pub fn len(&self) -> (r: usize) ensures r == self.bytes@.len() { unimplemented!() } }
    pub struct Error { pub message: String, pub data_bytes: Ghost<Seq<u8>>, pub index: usize, pub is_limit: bool }
    impl Error {
        pub fn index(&self) -> (r: usize) ensures r == self.index { self.index }
        #[verifier::external_body]
        pub fn data(&self) -> (r: &StrShim) ensures r.bytes@ == self.data_bytes@ { unimplemented!() }
        pub fn message(&self) -> (r: &str) ensures r@ == self.message@ { self.message.as_str() }
        pub fn is_limit(&self) -> (r: bool) ensures r == self.is_limit { self.is_limit }
    }
    // apollo_parser::Parser seen from outside: the input and the two configured limits
    pub struct Parser { pub input: Ghost<Seq<char>>, pub recursion_limit: Ghost<Option<usize>>, pub token_limit: Ghost<Option<usize>> }
    impl Parser {
        #[verifier::external_body]
        pub fn new(input: &str) -> (r: Parser) ensures r.input@ == input@, r.recursion_limit@ is None, r.token_limit@ is None { unimplemented!() }
        #[verifier::external_body]
        pub fn recursion_limit(self, v: usize) -> (r: Parser) ensures r.input@ == self.input@, r.recursion_limit@ == Some(v), r.token_limit@ == self.token_limit@ { unimplemented!() }
        #[verifier::external_body]
        pub fn token_limit(self, v: usize) -> (r: Parser) ensures r.input@ == self.input@, r.token_limit@ == Some(v), r.recursion_limit@ == self.recursion_limit@ { unimplemented!() }
    }
    pub struct SyntaxTree<T> { pub errors: Vec<Error>, pub recursion_limit: LimitTracker, pub token_limit: LimitTracker, pub t: core::marker::PhantomData<T> }
    impl<T> SyntaxTree<T> {
        pub fn recursion_limit(&self) -> (r: LimitTracker) ensures r == self.recursion_limit { self.recursion_limit }
        pub fn token_limit(&self) -> (r: LimitTracker) ensures r == self.token_limit { self.token_limit }
        // `for e in tree.errors()` (a slice iterator) is desugared to an indexed loop over this (rewrite listed)
        pub fn errors_slice(&self) -> (r: &Vec<Error>) ensures r == &self.errors { &self.errors }
    }
}
// the compiler's parser configuration: field names and types as in /repo
pub struct Parser { pub recursion_limit: Option<usize>, pub token_limit: Option<usize>, pub recursion_reached: usize, pub tokens_reached: usize }

// ---------------- specification ----------------
pub open spec fn configured(p: apollo_parser::Parser, src: Seq<char>, rl: Option<usize>, tl: Option<usize>) -> bool {
    p.input@ == src && p.recursion_limit@ == rl && p.token_limit@ == tl
}
/// offset and length fit rowan's 32-bit text positions (the documented exception: errors beyond 4 GiB are skipped)
pub open spec fn fits(e: apollo_parser::Error) -> bool { e.index <= u32::MAX && e.data_bytes@.len() <= u32::MAX }
pub open spec fn diag_of(file_id: FileId, e: apollo_parser::Error, d: DiagnosticData) -> bool {
    d.location is Some && d.location->0.file_id == file_id && d.location->0.text_range.start == e.index && d.location->0.text_range.len == e.data_bytes@.len()
    && (e.is_limit ==> d.details is ParserLimit && d.details->ParserLimit_message@ == e.message@)
    && (!e.is_limit ==> d.details is SyntaxError && d.details->SyntaxError_message@ == e.message@)
}
/// `d` is, in order, exactly one diagnostic for each of the first `n` errors that fit
pub open spec fn reported(file_id: FileId, errs: Seq<apollo_parser::Error>, n: int, d: Seq<DiagnosticData>) -> bool decreases n {
    if n <= 0 { d.len() == 0 }
    else if fits(errs[n - 1]) { d.len() > 0 && diag_of(file_id, errs[n - 1], d.last()) && reported(file_id, errs, n - 1, d.drop_last()) }
    else { reported(file_id, errs, n - 1, d) }
}
// a syntax error is never lost: if some error fits, at least one diagnostic is produced
pub proof fn lemma_error_means_diagnostic(file_id: FileId, errs: Seq<apollo_parser::Error>, n: int, d: Seq<DiagnosticData>, i: int)
    requires reported(file_id, errs, n, d), 0 <= i < n <= errs.len(), fits(errs[i])
    ensures d.len() > 0
    decreases n
{
    if i == n - 1 { } else if fits(errs[n - 1]) { } else { lemma_error_means_diagnostic(file_id, errs, n - 1, d, i); }
}
'''

UNIT = {
    "name": "parse_common",
    "properties": ["C04", "C07"],
    "outer": OUTER,
    "parts": [
        PRELUDE,
        dict(file=PARSER, kind="fn", name="parse_common", container="Parser", container_name="Parser", wrap="impl Parser",
             props=["C04", "C07"], ret="tree", n_loops=1,
             clauses=[
                 ("requires", "closure_accepts_the_configured_parser",
                  "forall|p: apollo_parser::Parser| #[trigger] configured(p, source_text@, old(self).recursion_limit, old(self).token_limit) ==> parse.requires((p,))"),
                 ("ensures", "parser_configured_from_source_and_limits",
                  "exists|p: apollo_parser::Parser| #[trigger] configured(p, source_text@, old(self).recursion_limit, old(self).token_limit) && parse.ensures((p,), tree)", ["C04"]),
                 ("ensures", "recursion_reached_is_the_trees_high_water_mark", "final(self).recursion_reached == tree.recursion_limit.high", ["C04"]),
                 ("ensures", "tokens_reached_is_the_trees_high_water_mark", "final(self).tokens_reached == tree.token_limit.high", ["C04"]),
                 ("ensures", "configuration_kept", "final(self).recursion_limit == old(self).recursion_limit && final(self).token_limit == old(self).token_limit", ["C04"]),
                 ("ensures", "source_registered", "final(errors).sources@ == old(errors).sources@.insert(file_id.id, final(errors).sources@[file_id.id]) && final(errors).sources@[file_id.id].source_text@ == source_text@", ["C07"]),
                 ("ensures", "earlier_diagnostics_kept", "final(errors).diagnostics_data@.len() >= old(errors).diagnostics_data@.len() && final(errors).diagnostics_data@.take(old(errors).diagnostics_data@.len() as int) =~= old(errors).diagnostics_data@", ["C07"]),
                 ("ensures", "every_parser_error_reported_once_in_order",
                  "reported(file_id, tree.errors@, tree.errors@.len() as int, final(errors).diagnostics_data@.skip(old(errors).diagnostics_data@.len() as int))", ["C07"]),
             ],
             rewrites=[
                 # the language's own desugaring of `for x in slice_iter { B }` with `continue` in B (Verus: for-loops do not support continue)
                 ("for parser_error in tree.errors() {", "let __errs = tree.errors_slice(); let mut __i: usize = 0; while __i < __errs.len() { let parser_error = &__errs[__i]; __i += 1;", 1),
                 ("let source_file = Arc::new(SourceFile {", "let source_file = (SourceFile {", 1),
                 ("Arc::make_mut(&mut errors.sources).insert(file_id, source_file);", "let ghost sf = source_file; sources_insert(&mut errors.sources, file_id, source_file);", 1),
                 ("            errors.push(location, details)\n", "            errors.push(location, details);\n", 1),
             ],
             loops=[dict(invariant=[
                 ("bounds", "__i <= __errs.len(), __errs@ == tree.errors@"),
                 ("source_registered", "errors.sources@ == old(errors).sources@.insert(file_id.id, sf)"),
                 ("earlier_diagnostics_kept", "errors.diagnostics_data@.len() >= old(errors).diagnostics_data@.len(), errors.diagnostics_data@.take(old(errors).diagnostics_data@.len() as int) =~= old(errors).diagnostics_data@"),
                 ("every_parser_error_reported_once_in_order", "reported(file_id, tree.errors@, __i as int, errors.diagnostics_data@.skip(old(errors).diagnostics_data@.len() as int))"),
             ], decreases="__errs.len() - __i")],
             hints=[
                 ("before", "let tree = parse(parser);", "proof { assert(configured(parser, source_text@, old(self).recursion_limit, old(self).token_limit)); }"),
                 ("after", "let parser_error = &__errs[__i]; __i += 1;", "let ghost d0 = errors.diagnostics_data@; let ghost n0 = old(errors).diagnostics_data@.len() as int;"),
                 ("after", "            errors.push(location, details);",
                  "proof { let d1 = errors.diagnostics_data@; assert(d1.skip(n0).drop_last() =~= d0.skip(n0)); assert(d1.skip(n0).last() == d1.last()); assert(d1.take(n0) =~= d0.take(n0)); }"),
             ]),
    ],
}
