"""Unit `complete_list` -- C26: CompleteValue for LIST types with the null-propagation rules, and the response path of field errors.

Extracted verbatim from crates/apollo-compiler/src:
  resolvers/result_coercion.rs : complete_list_value
  resolvers/execution.rs       : struct LinkedPathElement, path_to_vec, GraphQLError::field_error
  response.rs                  : enum ResponseDataPathSegment
  ast/mod.rs                   : enum Type

Specification (https://spec.graphql.org/October2021/#CompleteValue() step 3, and #sec-Handling-Field-Errors):
  * the result for a list is the list of CompleteValue(innerType, fields, item) in order;
  * a field error on an item of NULLABLE type makes that item null;
  * a field error on an item of NON-NULL type makes the whole list null if the list type is nullable, and keeps propagating otherwise;
  * a list where a non-null type is expected is a field error.
apollo-compiler's choices taken from the code (shape only): an item that completes to `Ok(None)` (`SkipForPartialExecution`) is left out; when the
resolver's iterator itself yields `Err(FieldError)` for an item, a field error with that item's path is recorded and -- all this contract demands -- the
result is not a list if the item type is non-null.
Error paths ("every field error carries the path of its position"): `path_to_vec` gives the root-first path; `field_error` stores it; every error
added while completing the list lies at or below the list's own path, the resolver-error of item i at exactly `path + [i]`, and item i is completed at
`path + [i]` (the assumed contract of `complete_value` is a function of that path, so a wrong path changes the specified result).

Listed rewrites:
  * `async fn` -> `fn`, `.await` dropped: await points become plain calls (scheduling is not modelled; the executor awaits each item in order);
  * the stream parameter `Pin<&mut dyn Stream<Item = ..>>` becomes the shim `ItemStream` = the FINITE sequence of items the resolver yields
    (assumption: finite, fewer than usize::MAX items); `enumerate` / `next` have their std meaning on that sequence;
  * `x.map_err(|err| { B; E })?` is desugared to `match x { Ok(v) => v, Err(err) => { B; return Err(E); } }` (the closure captures `ctx` mutably, which
    Verus closures cannot);
  * `format!(..)` -> `fmt_opaque()`: WHAT a message says is not decided;
  * `completed_list.into()` -> `json_array(completed_list)` (serde_json's `From<Vec<Value>>` = `Value::Array`);
  * `path.reverse()` -> `vec_reverse(&mut path)` (std meaning).
Shims (trusted): ExecutionContext with `errors` held as the Vec itself (real: `&mut Vec`); complete_value (assumed: result is a function of its
arguments, errors only added, all at or below its path -- the same contract this unit proves for the list case); try_nullify (contract text imported
from unit `execution`, where the real function is proved against it); Field::name.location(); JsonValue with Null / Array / other.
"""
import importlib.util
import os

_here = os.path.dirname(os.path.abspath(__file__))
_spec = importlib.util.spec_from_file_location("execution_unit", os.path.join(_here, "execution.py"))
EX = importlib.util.module_from_spec(_spec)
_spec.loader.exec_module(EX)

RC = "crates/apollo-compiler/src/resolvers/result_coercion.rs"
EXE = "crates/apollo-compiler/src/resolvers/execution.rs"
RESP = "crates/apollo-compiler/src/response.rs"
AST = "crates/apollo-compiler/src/ast/mod.rs"

_tn = [p for p in EX.UNIT["parts"] if isinstance(p, dict) and p.get("name") == "try_nullify"][0]
TRY_NULLIFY_ENSURES = ",\n        ".join(c[2] for c in _tn["clauses"] if c[0] == "ensures")

PRELUDE = r'''
// ---------------- shims (trusted) ----------------
pub struct Name { pub id: u64 }
pub type NamedType = Name;
pub struct Node<T>(pub Box<T>);
pub enum JsonValue { Null, Array(Vec<JsonValue>), Other(u64) }
#[verifier::external_body]
pub fn json_array(v: Vec<JsonValue>) -> (r: JsonValue) ensures r == JsonValue::Array(v) { unimplemented!() }
pub struct PropagateNull;
pub struct FieldError { pub message: String }
pub struct SourceSpan { pub x: u64 }
pub struct SourceMap { pub x: u64 }
pub struct NameWithLoc { pub x: u64 }
impl NameWithLoc {
    #[verifier::external_body]
    pub fn location(&self) -> Option<SourceSpan> { unimplemented!() }
}
pub struct FieldDefinition { pub ty: Type }
impl<T> core::ops::Deref for Node<T> {
    type Target = T;
    fn deref(&self) -> (r: &T) ensures *r == *self.0 { &*self.0 }
}
pub struct Field { pub name: NameWithLoc, pub definition: Node<FieldDefinition> }
pub struct ObjectType { pub name: Name }
#[derive(Clone, Copy)]
pub struct MaybeAsyncObject<'o> { pub x: &'o u64 }
pub struct JsonMap { pub x: u64 }
pub struct Document { pub sources: SourceMap }
#[derive(Clone, Copy)]
pub enum ExecutionMode { Normal, Sequential }
pub struct GraphQLError { pub path: Vec<ResponseDataPathSegment>, pub rest: u64 }
impl GraphQLError {
    #[verifier::external_body]
    pub fn new(message: String, location: Option<SourceSpan>, sources: &SourceMap) -> GraphQLError { unimplemented!() }
}
/// real: `errors: &'a mut Vec<GraphQLError>`; held here as the Vec itself
pub struct ExecutionContext<'a> { pub schema: &'a Valid<Schema>, pub document: &'a Document, pub errors: Vec<GraphQLError> }
pub struct Valid<T>(pub T);
impl<T> core::ops::Deref for Valid<T> {
    type Target = T;
    fn deref(&self) -> (r: &T) ensures *r == self.0 { &self.0 }
}
pub struct FieldLookupError { pub x: u8 }
pub struct Schema { pub x: u64 }
impl Schema {
    /// schema/mod.rs: the definition of a type's explicit field or meta-field (proved in unit schema_lookup for C18); here a partial function of the two names
    pub uninterp spec fn spec_type_field(&self, type_name: Name, field_name: NameWithLoc) -> Option<FieldDefinition>;
    #[verifier::external_body]
    pub fn type_field(&self, type_name: &Name, field_name: &NameWithLoc) -> (r: Result<&FieldDefinition, FieldLookupError>)
        ensures match r { Ok(d) => self.spec_type_field(*type_name, *field_name) == Some(*d), Err(_) => self.spec_type_field(*type_name, *field_name) is None }
    { unimplemented!() }
}
#[verifier::external_body]
pub fn fmt_opaque() -> String { unimplemented!() }
impl Clone for ResponseDataPathSegment {
    #[verifier::external_body]
    fn clone(&self) -> (r: Self) ensures r == *self { unimplemented!() }
}
#[verifier::external_body]
pub fn vec_reverse<T>(v: &mut Vec<T>) ensures final(v)@ == old(v)@.reverse() { unimplemented!() }
pub type LinkedPath<'a> = Option<&'a LinkedPathElement<'a>>;

/// a resolved value (leaf / object / list of resolved values); opaque here
#[verifier::external_body]
pub struct MaybeAsyncResolved<'b> { x: core::marker::PhantomData<&'b u8> }
pub type ItemResult<'b> = Result<MaybeAsyncResolved<'b>, FieldError>;

/// the resolver's list of items: a FINITE sequence (assumption) of fewer than usize::MAX items
#[verifier::external_body]
pub struct ItemStream<'b> { x: core::marker::PhantomData<&'b u8> }
impl<'b> ItemStream<'b> {
    pub uninterp spec fn items(&self) -> Seq<ItemResult<'b>>;
    #[verifier::external_body]
    pub fn size_hint(&self) -> (usize, Option<usize>) { unimplemented!() }
    #[verifier::external_body]
    pub fn enumerate(self) -> (r: Enumerate<'b>) ensures r.rest() == self.items(), r.count() == 0, self.items().len() < usize::MAX { unimplemented!() }
}
#[verifier::external_body]
pub struct Enumerate<'b> { x: core::marker::PhantomData<&'b u8> }
impl<'b> Enumerate<'b> {
    pub uninterp spec fn rest(&self) -> Seq<ItemResult<'b>>;
    pub uninterp spec fn count(&self) -> nat;
    #[verifier::external_body]
    pub fn next(&mut self) -> (r: Option<(usize, ItemResult<'b>)>)
        ensures match r {
            None => old(self).rest().len() == 0 && final(self).rest() == old(self).rest() && final(self).count() == old(self).count(),
            Some(p) => old(self).rest().len() > 0 && p.1 == old(self).rest()[0] && p.0 as nat == old(self).count()
                       && final(self).rest() == old(self).rest().skip(1) && final(self).count() == old(self).count() + 1,
        }
    { unimplemented!() }
}

// ---------------- specification: response paths ----------------
/// the root-first path of a position
pub open spec fn path_seq(p: LinkedPath<'_>) -> Seq<ResponseDataPathSegment> decreases p {
    match p { None => Seq::<ResponseDataPathSegment>::empty(), Some(e) => path_seq(e.next).push(e.element) }
}
pub open spec fn is_prefix(a: Seq<ResponseDataPathSegment>, b: Seq<ResponseDataPathSegment>) -> bool {
    a.len() <= b.len() && b.subrange(0, a.len() as int) == a
}
/// errors are only added, and every added error lies at or below `at`
pub open spec fn errors_added_below(before: Seq<GraphQLError>, after: Seq<GraphQLError>, at: Seq<ResponseDataPathSegment>) -> bool {
    before.len() <= after.len() && after.subrange(0, before.len() as int) == before
    && forall|k: int| before.len() <= k < after.len() ==> is_prefix(at, #[trigger] after[k].path@)
}
pub proof fn lemma_prefix_push(a: Seq<ResponseDataPathSegment>, x: ResponseDataPathSegment, b: Seq<ResponseDataPathSegment>)
    requires is_prefix(a.push(x), b) ensures is_prefix(a, b)
{
    assert(b.subrange(0, a.len() as int) =~= b.subrange(0, a.len() as int + 1).subrange(0, a.len() as int));
    assert(a.push(x).subrange(0, a.len() as int) =~= a);
}
pub broadcast proof fn lemma_prefix_self(a: Seq<ResponseDataPathSegment>)
    ensures #[trigger] is_prefix(a, a)
{ assert(a.subrange(0, a.len() as int) =~= a); }
pub broadcast proof fn lemma_prefix_child(a: Seq<ResponseDataPathSegment>, x: ResponseDataPathSegment)
    ensures #[trigger] is_prefix(a, a.push(x))
{ assert(a.push(x).subrange(0, a.len() as int) =~= a); }
pub broadcast proof fn lemma_added_refl(e0: Seq<GraphQLError>, at: Seq<ResponseDataPathSegment>)
    ensures #[trigger] errors_added_below(e0, e0, at)
{ assert(e0.subrange(0, e0.len() as int) =~= e0); }
pub broadcast proof fn lemma_added_push(e0: Seq<GraphQLError>, e1: Seq<GraphQLError>, e: GraphQLError, at: Seq<ResponseDataPathSegment>)
    requires errors_added_below(e0, e1, at), is_prefix(at, e.path@) ensures #[trigger] errors_added_below(e0, e1.push(e), at)
{
    assert(e1.push(e).subrange(0, e0.len() as int) =~= e1.subrange(0, e0.len() as int));
    assert forall|k: int| e0.len() <= k < e1.push(e).len() implies is_prefix(at, #[trigger] e1.push(e)[k].path@) by {
        if k < e1.len() { assert(e1.push(e)[k] == e1[k]); assert(is_prefix(at, e1[k].path@)); } else { assert(e1.push(e)[k] == e); }
    }
}
pub broadcast proof fn lemma_added_trans(e0: Seq<GraphQLError>, e1: Seq<GraphQLError>, e2: Seq<GraphQLError>, at: Seq<ResponseDataPathSegment>, x: ResponseDataPathSegment)
    requires errors_added_below(e0, e1, at), #[trigger] errors_added_below(e1, e2, at.push(x)) ensures #[trigger] errors_added_below(e0, e2, at)
{
    assert(e2.subrange(0, e0.len() as int) =~= e2.subrange(0, e1.len() as int).subrange(0, e0.len() as int));
    assert forall|k: int| e0.len() <= k < e2.len() implies is_prefix(at, #[trigger] e2[k].path@) by {
        if k < e1.len() { assert(e2[k] == e2.subrange(0, e1.len() as int)[k]); assert(e2[k] == e1[k]); assert(is_prefix(at, e1[k].path@)); }
        else { assert(is_prefix(at.push(x), e2[k].path@)); lemma_prefix_push(at, x, e2[k].path@); }
    }
}
pub broadcast proof fn lemma_added_trans_same(e0: Seq<GraphQLError>, e1: Seq<GraphQLError>, e2: Seq<GraphQLError>, at: Seq<ResponseDataPathSegment>)
    requires #[trigger] errors_added_below(e0, e1, at), #[trigger] errors_added_below(e1, e2, at) ensures errors_added_below(e0, e2, at)
{
    assert(e2.subrange(0, e0.len() as int) =~= e2.subrange(0, e1.len() as int).subrange(0, e0.len() as int));
    assert forall|k: int| e0.len() <= k < e2.len() implies is_prefix(at, #[trigger] e2[k].path@) by {
        if k < e1.len() { assert(e2[k] == e2.subrange(0, e1.len() as int)[k]); assert(e2[k] == e1[k]); assert(is_prefix(at, e1[k].path@)); }
    }
}
pub broadcast group paths { lemma_prefix_self, lemma_prefix_child, lemma_added_refl, lemma_added_push, lemma_added_trans, lemma_added_trans_same }
pub proof fn lemma_rev_push<A>(s: Seq<A>, x: A) ensures s.push(x).reverse() =~= seq![x] + s.reverse() {}

// ---------------- specification: CompleteValue for lists + Handling Field Errors ----------------
pub type Completed = Result<Option<JsonValue>, PropagateNull>;
pub open spec fn non_null(t: Type) -> bool { t is NonNullNamed || t is NonNullList }
/// CompleteValue(innerType, fields, item) at a position: ASSUMED to be a function of its arguments (the schema and document are fixed during a request)
pub uninterp spec fn completed(at: Seq<ResponseDataPathSegment>, mode: ExecutionMode, ty: Type, resolved: MaybeAsyncResolved<'_>, fields: Seq<&Field>) -> Completed;
pub enum Outcome { List(Seq<JsonValue>), Null, Propagate, IteratorError(int) }
pub open spec fn list_outcome(ty: Type, inner: Type, at: Seq<ResponseDataPathSegment>, mode: ExecutionMode, fields: Seq<&Field>,
                              items: Seq<ItemResult<'_>>, i: int, out: Seq<JsonValue>) -> Outcome
    decreases items.len() - i
{
    if i < 0 || i >= items.len() { Outcome::List(out) }
    else {
        match items[i] {
            Err(_) => Outcome::IteratorError(i),
            Ok(resolved) => match completed(at.push(ResponseDataPathSegment::ListIndex(i as usize)), mode, inner, resolved, fields) {
                Ok(Some(v)) => list_outcome(ty, inner, at, mode, fields, items, i + 1, out.push(v)),
                Ok(None) => list_outcome(ty, inner, at, mode, fields, items, i + 1, out),                       // left out (partial execution)
                Err(_) => if non_null(inner) { if non_null(ty) { Outcome::Propagate } else { Outcome::Null } } // the list cannot hold a null there
                          else { list_outcome(ty, inner, at, mode, fields, items, i + 1, out.push(JsonValue::Null)) },
            },
        }
    }
}
pub open spec fn is_array(r: Completed) -> bool { r matches Ok(Some(JsonValue::Array(_))) }
pub open spec fn agrees(r: Completed, o: Outcome, inner: Type, e0: Seq<GraphQLError>, e1: Seq<GraphQLError>, at: Seq<ResponseDataPathSegment>) -> bool {
    match o {
        Outcome::List(s) => r matches Ok(Some(JsonValue::Array(v))) && v@ == s,
        Outcome::Null => r == Ok::<Option<JsonValue>, PropagateNull>(Some(JsonValue::Null)),
        Outcome::Propagate => r is Err,
        Outcome::IteratorError(i) => (non_null(inner) ==> !is_array(r))
            && e1.len() > e0.len() && e1.last().path@ == at.push(ResponseDataPathSegment::ListIndex(i as usize)),
    }
}

/// resolvers/input_coercion.rs: CoerceArgumentValues; ASSUMED to be a function of the field and its definition, with errors only added at or below the field
pub uninterp spec fn coerced_arguments(field_def: &FieldDefinition, field: &Field) -> Result<JsonMap, PropagateNull>;
#[verifier::external_body]
pub fn coerce_argument_values(ctx: &mut ExecutionContext<'_>, path: LinkedPath<'_>, field_def: &FieldDefinition, field: &Field) -> (r: Result<JsonMap, PropagateNull>)
    ensures r == coerced_arguments(field_def, field),
            errors_added_below(old(ctx).errors@, final(ctx).errors@, path_seq(path)),
            final(ctx).document == old(ctx).document, final(ctx).schema == old(ctx).schema,
{ unimplemented!() }
/// the resolver's answer for a field (`__typename`, `__schema`, `__type` or `resolve_field` of the object value): opaque, no errors recorded by it
pub uninterp spec fn resolved_field<'r>(object_type: &ObjectType, object_value: MaybeAsyncObject<'_>, fields: Seq<&Field>, arguments: &JsonMap) -> Result<MaybeAsyncResolved<'r>, FieldError>;
#[verifier::external_body]
pub fn resolve_field_opaque<'a, 'r>(ctx: &ExecutionContext<'a>, object_type: &ObjectType, object_value: MaybeAsyncObject<'_>, fields: &[&'a Field], arguments: &JsonMap)
    -> (r: Result<MaybeAsyncResolved<'r>, FieldError>)
    ensures r == resolved_field::<'r>(object_type, object_value, fields@, arguments)
{ unimplemented!() }
/// equal results (all propagated nulls are alike)
pub open spec fn same_completed(a: Completed, b: Completed) -> bool {
    match a { Ok(x) => b == Ok::<Option<JsonValue>, PropagateNull>(x), Err(_) => b is Err }
}
/// Handling Field Errors at one position
pub open spec fn nullified(ty: Type, c: Completed) -> Completed {
    match c { Ok(v) => c, Err(_) => if non_null(ty) { c } else { Ok(Some(JsonValue::Null)) } }
}
/// ExecuteField: coerce the arguments, resolve, complete at the field's position, then handle a field error
pub open spec fn field_outcome(at: Seq<ResponseDataPathSegment>, mode: ExecutionMode, object_type: &ObjectType, object_value: MaybeAsyncObject<'_>,
                               field_def: &FieldDefinition, fields: Seq<&Field>) -> Completed {
    match coerced_arguments(field_def, fields[0]) {
        Err(e) => nullified(field_def.ty, Err(e)),
        Ok(arguments) => match resolved_field(object_type, object_value, fields, &arguments) {
            Err(_) => nullified(field_def.ty, Err(PropagateNull)),
            Ok(resolved) => nullified(field_def.ty, completed(at, mode, field_def.ty, resolved, fields)),
        },
    }
}
pub open spec fn no_null_items(s: Seq<JsonValue>) -> bool { forall|k: int| 0 <= k < s.len() ==> #[trigger] s[k] != JsonValue::Null }
pub proof fn lemma_non_null_items(ty: Type, inner: Type, at: Seq<ResponseDataPathSegment>, mode: ExecutionMode, fields: Seq<&Field>,
                                  items: Seq<ItemResult<'_>>, i: int, out: Seq<JsonValue>)
    requires non_null(inner), no_null_items(out),
             forall|p: Seq<ResponseDataPathSegment>, r: MaybeAsyncResolved<'_>| #[trigger] completed(p, mode, inner, r, fields) != Ok::<Option<JsonValue>, PropagateNull>(Some(JsonValue::Null)),
    ensures match list_outcome(ty, inner, at, mode, fields, items, i, out) { Outcome::List(s) => no_null_items(s), _ => true }
    decreases items.len() - i
{
    if 0 <= i < items.len() {
        match items[i] {
            Err(_) => {}
            Ok(resolved) => match completed(at.push(ResponseDataPathSegment::ListIndex(i as usize)), mode, inner, resolved, fields) {
                Ok(Some(v)) => { lemma_non_null_items(ty, inner, at, mode, fields, items, i + 1, out.push(v)); }
                Ok(None) => { lemma_non_null_items(ty, inner, at, mode, fields, items, i + 1, out); }
                Err(_) => {}
            },
        }
    }
}

/// ASSUMED for every type (this unit proves the same contract for the list case and for ExecuteField)
pub broadcast axiom fn completed_non_null_is_never_null(at: Seq<ResponseDataPathSegment>, mode: ExecutionMode, ty: Type, resolved: MaybeAsyncResolved<'_>, fields: Seq<&Field>)
    requires non_null(ty)
    ensures #[trigger] completed(at, mode, ty, resolved, fields) != Ok::<Option<JsonValue>, PropagateNull>(Some(JsonValue::Null));

#[verifier::external_body]
pub fn complete_value<'a, 'b>(ctx: &mut ExecutionContext<'a>, path: LinkedPath<'_>, mode: ExecutionMode, ty: &'a Type,
                          resolved: MaybeAsyncResolved<'b>, fields: &[&'a Field]) -> (r: Completed)
    ensures r == completed(path_seq(path), mode, *ty, resolved, fields@),
            errors_added_below(old(ctx).errors@, final(ctx).errors@, path_seq(path)),
            final(ctx).document == old(ctx).document, final(ctx).schema == old(ctx).schema,
{ unimplemented!() }
/// proved for the real function in unit `execution`; the clause text is imported from there
#[verifier::external_body]
pub fn try_nullify(ty: &Type, result: Completed) -> (r: Completed)
    ensures
        ''' + TRY_NULLIFY_ENSURES + r''',
{ unimplemented!() }
'''

DESUGAR_MAP_ERR = (r"(?s)(\w+)\.map_err\(\|(\w+)\| \{(.*?)\n\s*(\w+)\n\s*\}\)\?",
                   r"match \1 { Ok(__v) => __v, Err(\2) => {\3\n return Err(\4); } }", 1, "re")
FMT = (r'format!\("[^"]*"(?:,[^;]*?)?\)(?=,\n)', "fmt_opaque()", None, "re")

UNIT = {
    "name": "complete_list",
    "properties": ["C26"],
    "parts": [
        PRELUDE,
        dict(file=AST, kind="enum", name="Type", props=["C26"]),
        dict(file=RESP, kind="enum", name="ResponseDataPathSegment", props=["C26"], rewrites=[("crate::Name", "Name", 1)]),
        dict(file=EXE, kind="struct", name="LinkedPathElement", props=["C26"]),
        dict(file=EXE, kind="fn", name="path_to_vec", props=["C26"], n_loops=1,
             rewrites=[("path.reverse();", "vec_reverse(&mut path);", "*")],
             clauses=[("ensures", "root_first_path", "r@ == path_seq(link)")],
             loops=[dict(invariant=[("collected_leaf_first", "path_seq(link) + path@.reverse() =~= path_seq(link0)")],
                         ensures=[("whole_path_collected", "path@.reverse() =~= path_seq(link0)")],
                         decreases="link")],
             hints=[("body_start", None, "let ghost link0 = link;"),
                    ("loop_body_start", 0, "let ghost p0 = path@; let ghost l0 = link;"),
                    ("loop_body_end", 0, "proof { let e0 = l0->Some_0; lemma_rev_push(p0, e0.element); assert(path_seq(l0) =~= path_seq(e0.next).push(e0.element)); }"),
]),
        dict(file=EXE, kind="fn", name="field_error", container="GraphQLError", container_name="GraphQLError", wrap="impl GraphQLError", props=["C26"],
             rewrites=[("message: impl Into<String>", "message: String", 1)],
             clauses=[("ensures", "error_carries_the_path_of_its_position", "r.path@ == path_seq(path)")]),
        dict(file=RC, kind="fn", name="complete_list_value", props=["C26"], n_loops=1, loops_see_context=True,
             rewrites=[("async fn", "fn", 1), (".await", "", None),
                       (r"(?s)stream: Pin<&mut dyn Stream<.*?>>>,", "stream: ItemStream<'b>,", 1, "re"),
                       DESUGAR_MAP_ERR, FMT,
                       ("completed_list.into()", "json_array(completed_list)", 1)],
             clauses=[("requires", "at_least_one_field", "fields@.len() > 0"),
                      ("ensures", "context_unchanged", "final(ctx).document == old(ctx).document, final(ctx).schema == old(ctx).schema"),
                      ("ensures", "errors_lie_at_or_below_the_list", "errors_added_below(old(ctx).errors@, final(ctx).errors@, path_seq(path))"),
                      ("ensures", "a_list_for_a_non_list_type_is_a_field_error",
                       "(*ty is Named || *ty is NonNullNamed) ==> r is Err && final(ctx).errors@.len() > old(ctx).errors@.len()"),
                      ("ensures", "non_null_positions_are_never_null",
                       "non_null(*ty) ==> r != Ok::<Option<JsonValue>, PropagateNull>(Some(JsonValue::Null)), "
                       "match *ty { Type::List(inner) | Type::NonNullList(inner) => non_null(*inner) ==> (r matches Ok(Some(JsonValue::Array(v))) ==> no_null_items(v@)), _ => true }"),
                      ("ensures", "CompleteValue_list_with_null_propagation",
                       "match *ty { Type::List(inner) | Type::NonNullList(inner) => agrees(r, list_outcome(*ty, *inner, path_seq(path), mode, fields@, stream.items(), 0, Seq::<JsonValue>::empty()), *inner, old(ctx).errors@, final(ctx).errors@, path_seq(path)), _ => true }")],
             loops=[dict(invariant=[("fields", "fields@.len() > 0"),
                                    ("inner_type", "match *ty { Type::List(t) | Type::NonNullList(t) => **inner_ty == *t, _ => false }"),
                                    ("position_in_the_list", "stream.rest() == items0.skip(stream.count() as int), stream.count() <= items0.len(), items0.len() < usize::MAX"),
                                    ("errors_so_far", "errors_added_below(errs0, ctx.errors@, path_seq(path))"),
                                    ("context_unchanged", "ctx.document == old(ctx).document, ctx.schema == old(ctx).schema"),
                                    ("list_so_far", "list_outcome(*ty, **inner_ty, path_seq(path), mode, fields@, items0, stream.count() as int, completed_list@) == list_outcome(*ty, **inner_ty, path_seq(path), mode, fields@, items0, 0, Seq::<JsonValue>::empty())")],
                         ensures=[("iterator_exhausted", "stream.rest().len() == 0")],
                         decreases="stream.rest().len()")],
             hints=[("body_start", None, "broadcast use paths; broadcast use completed_non_null_is_never_null; let ghost items0 = stream.items(); let ghost errs0 = ctx.errors@;"),
                    ("loop_body_start", 0, "broadcast use paths; proof { assert(items0.skip(index as int)[0] == items0[index as int]); }"),
                    ("after_loop", 0, "proof { if non_null(**inner_ty) { lemma_non_null_items(*ty, **inner_ty, path_seq(path), mode, fields@, items0, 0, Seq::<JsonValue>::empty()); } }")]),
        dict(file="crates/apollo-compiler/src/ast/impls.rs", kind="fn", name="is_non_null", container="Type", container_name="Type", wrap="impl Type", props=["C26"],
             clauses=[("ensures", "NonNull", "r == non_null(*self)")]),
        dict(file="crates/apollo-compiler/src/executable/mod.rs", kind="fn", name="ty", container="Field", container_name="Field", wrap="impl Field", props=["C26"],
             clauses=[("ensures", "type_from_the_field_definition", "*r == self.definition.0.ty")]),
        dict(file=EXE, kind="fn", name="execute_field", props=["C26"],
             rewrites=[("async fn", "fn", 1), (".await", "", None), FMT,
                       (r"(?s)    let is_field_of_root_query = \|\| \{.*?\n    \};\n", "", 1, "re"),
                       (r"(?s)    let info = ResolveInfo \{.*?\n    \};\n", "", 1, "re"),
                       (r"(?s)let resolved_result = match field\.name\.as_str\(\) \{.*?\n    \};\n", "let resolved_result = resolve_field_opaque(ctx, object_type, object_value, fields, &argument_values);\n", 1, "re")],
             clauses=[("requires", "at_least_one_field", "fields@.len() > 0"),
                      ("ensures", "context_unchanged", "final(ctx).document == old(ctx).document, final(ctx).schema == old(ctx).schema"),
                      ("ensures", "errors_lie_at_or_below_the_field", "errors_added_below(old(ctx).errors@, final(ctx).errors@, path_seq(path))"),
                      ("ensures", "non_null_positions_are_never_null", "non_null(field_def.ty) ==> r != Ok::<Option<JsonValue>, PropagateNull>(Some(JsonValue::Null))"),
                      ("ensures", "ExecuteField_with_null_propagation", "same_completed(r, field_outcome(path_seq(path), mode, object_type, object_value, field_def, fields@))"),
                      ("ensures", "a_resolver_error_carries_the_path_of_the_field",
                       "(coerced_arguments(field_def, fields@[0]) matches Ok(a) && resolved_field(object_type, object_value, fields@, &a) is Err) ==> "
                       "final(ctx).errors@.len() > 0 && final(ctx).errors@.last().path@ == path_seq(path)")],
             hints=[("body_start", None, "broadcast use paths; broadcast use completed_non_null_is_never_null;")]),
    ],
}
