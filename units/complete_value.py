"""Unit `complete_value` -- C26: CompleteValue itself (resolvers/result_coercion.rs: complete_value), proved against the contract that unit
`complete_list` ASSUMES for it, with `complete_list_value` entering by the contract text that unit proves (assume / guarantee by shared text).

Extracted verbatim from crates/apollo-compiler/src:
  resolvers/result_coercion.rs : enum LeafOrObject, complete_value, complete_leaf_value
  resolvers/mod.rs             : enum MaybeAsync
  schema/mod.rs                : Schema::get_object
  ast/mod.rs                   : enum Type;   ast/impls.rs: Type::is_non_null
  response.rs                  : enum ResponseDataPathSegment;   resolvers/execution.rs: struct LinkedPathElement

Specification (https://spec.graphql.org/October2021/#CompleteValue(), #ResolveAbstractType(), #sec-Handling-Field-Errors), per case of what the
resolver returned:
  * null: a field error if the type is non-null, else null;
  * a list: CompleteValue for lists (unit complete_list), with the same type, path, mode and fields;
  * a leaf or an object where the type is a list type: a field error;
  * a leaf: result coercion (complete_leaf_value, extracted too) for the NAMED type's definition: an enum value must be a string naming a value of the enum; Int an
    integer in the 32-bit range; Float / String / Boolean a JSON value of that kind; ID a string or an integer; a custom scalar anything; a composite type never;
  * an object whose `type_name()` is T: a field error unless T is an object type of the schema that IS the named type / implements the named
    interface / is a member of the named union; otherwise ExecuteSelectionSet(T, object, merged sub-selections of the fields), at the same path;
  * (apollo-compiler) `SkipForPartialExecution` is `Ok(None)`; an undefined or input-object named type is a "suspected validation bug" field error.
Every field error is recorded AT the position's path (exactly one error, at `path`), errors are only added, and a non-null type never completes to null.

Listed rewrites:
  * `async fn` -> `fn`, `.await` dropped, `Box::pin(x)` -> `x` (boxing a future);
  * the local macro `field_error!` is expanded at each use with the body found in the source (and `format!(..)` -> `fmt_opaque()`);
  * `dyn AsyncObjectValue + 'a` / `dyn ObjectValue + 'a` -> opaque structs with a `type_name()`;
  * the two list arms (`pin!(stream.map(..))` / `futures::stream::iter(iter)`) pass the stream on through the opaque `async_items` / `sync_items`;
  * `fields.iter().flat_map(|field| &field.selection_set.selections)` -> `merged_selections(fields)` (opaque);
  * `x.map(|map| Some(JsonValue::Object(map)))` -> the match it stands for;
  * complete_leaf_value: the match on the scalar's name (string literals, some arms guarded) is written as the if / else-if chain it stands for (Verus loses the
    state behind `&mut` when a guarded arm assigns through it); the local `int` is renamed `int_v` (a reserved word of Verus); the `is_some_and` closure gets its parameter type and postcondition.
Shims (trusted): Schema.types as a map keyed by the name's text; IndexSet::contains; serde_json's as_str / as_i64 / is_* predicates on a Value split by kind;
Option::is_some_and (std meaning); &str values with equal characters are equal (axiom); execute_selection_set (opaque results; errors
only added at or below the path); SuspectedValidationBug::into_field_error and GraphQLError::field_error record `path` (the latter proved in unit complete_list).
"""
import importlib.util
import os
import re

_here = os.path.dirname(os.path.abspath(__file__))
_spec = importlib.util.spec_from_file_location("complete_list_unit", os.path.join(_here, "complete_list.py"))
CL = importlib.util.module_from_spec(_spec)
_spec.loader.exec_module(CL)

RC = "crates/apollo-compiler/src/resolvers/result_coercion.rs"
EXE = "crates/apollo-compiler/src/resolvers/execution.rs"
RESP = "crates/apollo-compiler/src/response.rs"
AST = "crates/apollo-compiler/src/ast/mod.rs"
RMOD = "crates/apollo-compiler/src/resolvers/mod.rs"
SCH = "crates/apollo-compiler/src/schema/mod.rs"

_clv = [p for p in CL.UNIT["parts"] if isinstance(p, dict) and p.get("name") == "complete_list_value"][0]
# what unit complete_list proves about complete_list_value and this unit relies on
CLV_ENSURES = ",\n        ".join(c[2] for c in _clv["clauses"] if c[0] == "ensures" and c[1] in ("errors_lie_at_or_below_the_list", "non_null_positions_are_never_null", "context_unchanged"))
_paths = CL.PRELUDE[CL.PRELUDE.index("// ---------------- specification: response paths"):CL.PRELUDE.index("// ---------------- specification: CompleteValue for lists")]

PRELUDE = r'''
// ---------------- shims (trusted) ----------------
pub struct Name { pub text: String }
impl Name {
    pub open spec fn key(&self) -> Seq<char> { self.text@ }
    #[verifier::external_body]
    pub fn as_str(&self) -> (r: &str) ensures r@ == self.text@ { unimplemented!() }
}
pub type NamedType = Name;
pub struct Node<T>(pub Box<T>);
impl<T> core::ops::Deref for Node<T> {
    type Target = T;
    fn deref(&self) -> (r: &T) ensures *r == *self.0 { &*self.0 }
}
pub struct Valid<T>(pub T);
impl<T> core::ops::Deref for Valid<T> {
    type Target = T;
    fn deref(&self) -> (r: &T) ensures *r == self.0 { &self.0 }
}
pub struct JsonMap { pub x: u64 }
/// serde_json::Value; numbers split the way serde_json::Number answers as_i64 / is_i64 / is_f64
pub enum JsonValue { Null, Bool(bool), Int(i64), BigUint(u64), Float(u64), String(String), Array(Vec<JsonValue>), Object(JsonMap) }
impl JsonValue {
    pub fn as_str(&self) -> (r: Option<&str>) ensures match r { Some(s) => *self matches JsonValue::String(t) && s@ == t@, None => !(*self is String) }
    { match self { JsonValue::String(s) => Some(s.as_str()), _ => None } }
    pub fn as_i64(&self) -> (r: Option<i64>) ensures r == (match *self { JsonValue::Int(i) => Some(i), _ => None::<i64> })
    { match self { JsonValue::Int(i) => Some(*i), _ => None } }
    pub fn is_i64(&self) -> (r: bool) ensures r == (*self is Int) { match self { JsonValue::Int(_) => true, _ => false } }
    pub fn is_f64(&self) -> (r: bool) ensures r == (*self is Float) { match self { JsonValue::Float(_) => true, _ => false } }
    pub fn is_string(&self) -> (r: bool) ensures r == (*self is String) { match self { JsonValue::String(_) => true, _ => false } }
    pub fn is_boolean(&self) -> (r: bool) ensures r == (*self is Bool) { match self { JsonValue::Bool(_) => true, _ => false } }
}
pub assume_specification<T, F: FnOnce(T) -> bool>[Option::<T>::is_some_and](o: Option<T>, f: F) -> (r: bool)
    requires o is Some ==> f.requires((o->0,))
    ensures match o { Some(x) => f.ensures((x,), r), None => !r };
/// std: the absolute value of an i64 as a u64 (no overflow: |i64::MIN| fits)
pub assume_specification[i64::unsigned_abs](x: i64) -> (r: u64) ensures r as int == (if x < 0 { -(x as int) } else { x as int });
// &str values with the same characters are equal (what a string-literal pattern compares) -- assumed axiom, as in unit coordinate
#[verifier::external_body]
pub proof fn axiom_str_ext() ensures forall|a: &str, b: &str| #![trigger a@, b@] a@ =~= b@ ==> a == b { }
#[verifier::external_body]
pub struct EnumValues { x: u8 }
impl EnumValues {
    pub uninterp spec fn view(&self) -> Set<Seq<char>>;
    #[verifier::external_body]
    pub fn contains_key(&self, k: &str) -> (r: bool) ensures r == self@.contains(k@) { unimplemented!() }
}
pub struct EnumType { pub values: EnumValues }
pub struct PropagateNull;
pub struct SourceSpan { pub x: u64 }
pub struct SourceMap { pub x: u64 }
pub struct NameWithLoc { pub x: u64 }
impl NameWithLoc {
    #[verifier::external_body]
    pub fn location(&self) -> Option<SourceSpan> { unimplemented!() }
}
pub struct Field { pub name: NameWithLoc }
pub struct Selection { pub x: u64 }
pub struct Document { pub sources: SourceMap }
#[derive(Clone, Copy)]
pub enum ExecutionMode { Normal, Sequential }
pub struct GraphQLError { pub path: Vec<ResponseDataPathSegment>, pub rest: u64 }
pub type LinkedPath<'a> = Option<&'a LinkedPathElement<'a>>;
''' + _paths + r'''
impl GraphQLError {
    /// proved for the real function in unit `complete_list`
    #[verifier::external_body]
    pub fn field_error(message: String, path: LinkedPath<'_>, location: Option<SourceSpan>, sources: &SourceMap) -> (r: GraphQLError)
        ensures r.path@ == path_seq(path)
    { unimplemented!() }
}
pub struct SuspectedValidationBug { pub message: String, pub location: Option<SourceSpan> }
impl SuspectedValidationBug {
    /// resolvers/execution.rs: `GraphQLError::field_error(message, path, location, sources)` plus an extension entry
    #[verifier::external_body]
    pub fn into_field_error(self, sources: &SourceMap, path: LinkedPath<'_>) -> (r: GraphQLError)
        ensures r.path@ == path_seq(path)
    { unimplemented!() }
}
#[verifier::external_body]
pub fn fmt_opaque() -> String { unimplemented!() }

// the schema: only what CompleteValue looks at
pub struct ComponentName { pub name: Name }
#[verifier::external_body]
#[verifier::reject_recursive_types(K)]
pub struct IndexSet<K> { k: core::marker::PhantomData<K> }
pub trait SetKey { spec fn set_key(&self) -> Seq<char>; }
impl SetKey for Name { open spec fn set_key(&self) -> Seq<char> { self.text@ } }
impl SetKey for str { open spec fn set_key(&self) -> Seq<char> { self@ } }
impl IndexSet<ComponentName> {
    pub uninterp spec fn view(&self) -> Set<Seq<char>>;
    /// IndexSet<ComponentName>::contains(&Name / &str): ComponentName hashes and compares as its name's text
    #[verifier::external_body]
    pub fn contains<Q: SetKey + ?Sized>(&self, k: &Q) -> (r: bool) ensures r == self@.contains(k.set_key()) { unimplemented!() }
}
pub struct ObjectType { pub name: Name, pub implements_interfaces: IndexSet<ComponentName> }
pub struct InterfaceType { pub x: u64 }
pub struct UnionType { pub members: IndexSet<ComponentName> }
pub struct OtherType { pub x: u64 }
pub enum ExtendedType {
    Scalar(Node<OtherType>), Object(Node<ObjectType>), Interface(Node<InterfaceType>), Union(Node<UnionType>), Enum(Node<EnumType>), InputObject(Node<OtherType>),
}
#[verifier::external_body]
#[verifier::reject_recursive_types(V)]
pub struct TypeMap<V> { v: core::marker::PhantomData<V> }
impl<V> TypeMap<V> {
    pub uninterp spec fn view(&self) -> Map<Seq<char>, V>;
    #[verifier::external_body]
    pub fn get<Q: SetKey + ?Sized>(&self, k: &Q) -> (r: Option<&V>)
        ensures match r { Some(v) => self@.dom().contains(k.set_key()) && *v == self@[k.set_key()], None => !self@.dom().contains(k.set_key()) }
    { unimplemented!() }
}
pub struct Schema { pub types: TypeMap<ExtendedType> }
/// real: `errors: &'a mut Vec<GraphQLError>`; held here as the Vec itself
pub struct ExecutionContext<'a> { pub schema: &'a Valid<Schema>, pub document: &'a Document, pub errors: Vec<GraphQLError> }

// what a resolver returns
pub struct AsyncObjectValueDyn<'a> { pub type_name: &'a str }
pub struct ObjectValueDyn<'a> { pub type_name: &'a str }
#[verifier::external_body]
pub struct AsyncItems<'a> { x: core::marker::PhantomData<&'a u8> }
#[verifier::external_body]
pub struct SyncItems<'a> { x: core::marker::PhantomData<&'a u8> }
pub enum AsyncResolvedValue<'a> { SkipForPartialExecution, Leaf(JsonValue), Object(Box<AsyncObjectValueDyn<'a>>), List(AsyncItems<'a>) }
pub enum ResolvedValue<'a> { SkipForPartialExecution, Leaf(JsonValue), Object(Box<ObjectValueDyn<'a>>), List(SyncItems<'a>) }
pub type MaybeAsyncResolved<'a> = MaybeAsync<AsyncResolvedValue<'a>, ResolvedValue<'a>>;
pub type MaybeAsyncObject<'a> = MaybeAsync<&'a AsyncObjectValueDyn<'a>, &'a ObjectValueDyn<'a>>;
/// resolvers/mod.rs: `impl MaybeAsync<Box<dyn AsyncObjectValue + '_>, Box<dyn ObjectValue + '_>> { fn type_name }` = the object's own `type_name()`
impl<'a> MaybeAsync<Box<AsyncObjectValueDyn<'a>>, Box<ObjectValueDyn<'a>>> {
    pub open spec fn spec_type_name(&self) -> Seq<char> { match self { MaybeAsync::Async(o) => o.type_name@, MaybeAsync::Sync(o) => o.type_name@ } }
    #[verifier::external_body]
    pub fn type_name(&self) -> (r: &str) ensures r@ == self.spec_type_name() { unimplemented!() }
}
#[verifier::external_body]
pub struct ItemStream<'b> { x: core::marker::PhantomData<&'b u8> }
pub uninterp spec fn spec_async_items<'b>(s: AsyncItems<'b>) -> ItemStream<'b>;
pub uninterp spec fn spec_sync_items<'b>(s: SyncItems<'b>) -> ItemStream<'b>;
#[verifier::external_body]
pub fn async_items<'b>(s: AsyncItems<'b>) -> (r: ItemStream<'b>) ensures r == spec_async_items(s) { unimplemented!() }
#[verifier::external_body]
pub fn sync_items<'b>(s: SyncItems<'b>) -> (r: ItemStream<'b>) ensures r == spec_sync_items(s) { unimplemented!() }
/// CompleteValue for lists, as a function of its arguments (unit complete_list proves what it is)
pub uninterp spec fn list_completed(at: Seq<ResponseDataPathSegment>, mode: ExecutionMode, ty: Type, fields: Seq<&Field>, items: ItemStream<'_>) -> Completed;
pub open spec fn items_of<'b>(r: MaybeAsyncResolved<'b>) -> ItemStream<'b> {
    match r { MaybeAsync::Async(AsyncResolvedValue::List(s)) => spec_async_items(s), MaybeAsync::Sync(ResolvedValue::List(i)) => spec_sync_items(i), _ => arbitrary() }
}
#[verifier::external_body]
pub struct Selections<'a> { x: core::marker::PhantomData<&'a u8> }
pub uninterp spec fn spec_merged_selections<'a>(fields: Seq<&'a Field>) -> Selections<'a>;
#[verifier::external_body]
pub fn merged_selections<'a>(fields: &[&'a Field]) -> (r: Selections<'a>) ensures r == spec_merged_selections(fields@) { unimplemented!() }

pub type Completed = Result<Option<JsonValue>, PropagateNull>;
pub open spec fn non_null(t: Type) -> bool { t is NonNullNamed || t is NonNullList }
pub open spec fn no_null_items(s: Seq<JsonValue>) -> bool { forall|k: int| 0 <= k < s.len() ==> #[trigger] s[k] != JsonValue::Null }
pub open spec fn named(t: Type) -> Option<Seq<char>> { match t { Type::Named(n) => Some(n.text@), Type::NonNullNamed(n) => Some(n.text@), _ => None } }

/// proved for the real function in unit `complete_list`; the clause text is imported from there
#[verifier::external_body]
pub fn complete_list_value<'a, 'b>(ctx: &mut ExecutionContext<'a>, path: LinkedPath<'_>, mode: ExecutionMode, ty: &'a Type, fields: &[&'a Field], stream: ItemStream<'b>) -> (r: Completed)
    ensures
        ''' + CLV_ENSURES + r''',
        r == list_completed(path_seq(path), mode, *ty, fields@, stream),
{ unimplemented!() }
/// Result Coercion (https://spec.graphql.org/October2021/#sec-Scalars, #sec-Enums.Result-Coercion) at the level of serde_json's value kinds;
/// apollo-compiler's documented choices: no coercion between kinds (an integer is not a Float), ID is a string or an integer, a custom scalar accepts anything
pub open spec fn leaf_acceptable(def: ExtendedType, name: Seq<char>, v: JsonValue) -> bool {
    match def {
        ExtendedType::Enum(e) => v matches JsonValue::String(s) && e.0.values@.contains(s@),
        ExtendedType::Scalar(_) =>
            if name == "Int"@ { v matches JsonValue::Int(i) && i32::MIN <= i <= i32::MAX }
            else if name == "Float"@ { v is Float }
            else if name == "String"@ { v is String }
            else if name == "Boolean"@ { v is Bool }
            else if name == "ID"@ { v is String || v is Int }
            else { true },
        _ => false,
    }
}
pub uninterp spec fn selection_set_result(at: Seq<ResponseDataPathSegment>, mode: ExecutionMode, object_type: &ObjectType, object_value: MaybeAsyncObject<'_>, selections: Selections<'_>) -> Result<JsonMap, PropagateNull>;
#[verifier::external_body]
pub fn execute_selection_set<'a>(ctx: &mut ExecutionContext<'a>, path: LinkedPath<'_>, mode: ExecutionMode, object_type: &ObjectType, object_value: MaybeAsyncObject<'_>, selections: Selections<'a>)
    -> (r: Result<JsonMap, PropagateNull>)
    ensures r == selection_set_result(path_seq(path), mode, object_type, object_value, selections),
            errors_added_below(old(ctx).errors@, final(ctx).errors@, path_seq(path)),
            final(ctx).document == old(ctx).document, final(ctx).schema == old(ctx).schema,
{ unimplemented!() }

// ---------------- specification: ResolveAbstractType + the object case of CompleteValue ----------------
/// the object type to execute the sub-selections on, if the resolved object's type is acceptable for the named type `ty_name`
pub open spec fn object_type_for(schema: &Schema, ty_name: Seq<char>, resolved_type_name: Seq<char>) -> Option<Node<ObjectType>> {
    if !schema.types@.dom().contains(ty_name) { None } else {
        match schema.types@[ty_name] {
            ExtendedType::Object(def) => if resolved_type_name == ty_name { Some(def) } else { None },
            ExtendedType::Interface(_) => if schema.types@.dom().contains(resolved_type_name) {
                match schema.types@[resolved_type_name] { ExtendedType::Object(o) => if o.0.implements_interfaces@.contains(ty_name) { Some(o) } else { None }, _ => None } } else { None },
            ExtendedType::Union(u) => if schema.types@.dom().contains(resolved_type_name) {
                match schema.types@[resolved_type_name] { ExtendedType::Object(o) => if u.0.members@.contains(resolved_type_name) { Some(o) } else { None }, _ => None } } else { None },
            _ => None,
        }
    }
}
pub open spec fn exactly_one_error_at(e0: Seq<GraphQLError>, e1: Seq<GraphQLError>, at: Seq<ResponseDataPathSegment>) -> bool {
    e1.len() == e0.len() + 1 && e1.drop_last() =~= e0 && e1.last().path@ == at
}
pub open spec fn resolved_null(r: MaybeAsyncResolved<'_>) -> bool {
    r == MaybeAsyncResolved::Async(AsyncResolvedValue::Leaf(JsonValue::Null)) || r == MaybeAsyncResolved::Sync(ResolvedValue::Leaf(JsonValue::Null))
}
pub open spec fn resolved_skip(r: MaybeAsyncResolved<'_>) -> bool {
    r == MaybeAsyncResolved::Async(AsyncResolvedValue::SkipForPartialExecution) || r == MaybeAsyncResolved::Sync(ResolvedValue::SkipForPartialExecution)
}
pub open spec fn resolved_object_type_name(r: MaybeAsyncResolved<'_>) -> Option<Seq<char>> {
    match r { MaybeAsync::Async(AsyncResolvedValue::Object(o)) => Some(o.type_name@), MaybeAsync::Sync(ResolvedValue::Object(o)) => Some(o.type_name@), _ => None }
}
pub open spec fn object_of<'a>(r: MaybeAsyncResolved<'a>) -> MaybeAsyncObject<'a> {
    match r { MaybeAsync::Async(AsyncResolvedValue::Object(o)) => MaybeAsync::Async(&*o), MaybeAsync::Sync(ResolvedValue::Object(o)) => MaybeAsync::Sync(&*o), _ => arbitrary() }
}
pub open spec fn resolved_list(r: MaybeAsyncResolved<'_>) -> bool {
    r matches MaybeAsync::Async(AsyncResolvedValue::List(_)) || r matches MaybeAsync::Sync(ResolvedValue::List(_))
}
'''


def _expand_field_error(m):
    """the local macro `field_error!` is dropped and expanded at each use with the body found in the source (`format!(..)` -> `fmt_opaque()`)"""
    body = re.sub(r"format!\(\$\(\$arg\)\+\)", "fmt_opaque()", m.group(1))
    rest = re.sub(r"field_error!\((?:[^()]|\((?:[^()]|\([^()]*\))*\))*\)", lambda _m: "{" + body + "\n}", m.group(2))
    return rest


def _match_to_if_chain(m):
    """`match <scrutinee> { "Lit" [if guard] => { .. } .. _ => { .. } }` on string literals is written as the if / else-if chain it stands for
    (Verus loses the state behind a `&mut` parameter when a GUARDED arm assigns through it); comments are dropped"""
    scrut, body = m.group(1), m.group(2)
    body = re.sub(r"//[^\n]*", "", body)
    i, n, arms = 0, len(body), []
    while True:
        while i < n and body[i] in " \t\n,":
            i += 1
        if i >= n:
            break
        k = body.index("=>", i)
        head = body[i:k].strip()
        j = k + 2
        while body[j] in " \t\n":
            j += 1
        if body[j] != "{":
            raise ValueError("arm body is not a block")
        depth, e = 0, j
        while True:
            if body[e] == "{":
                depth += 1
            elif body[e] == "}":
                depth -= 1
                if depth == 0:
                    break
            e += 1
        arms.append((head, body[j:e + 1]))
        i = e + 1
    out, first = [], True
    for head, blk in arms:
        if head == "_":
            out.append(" else " + blk)
            break
        hm = re.match(r'("[^"]*")\s*(?:if\s+(.*))?$', head, re.S)
        if not hm:
            raise ValueError("unexpected arm " + head[:40])
        cond = "%s == %s" % (scrut, hm.group(1)) + (" && (%s)" % hm.group(2).strip() if hm.group(2) else "")
        out.append(("if " if first else " else if ") + cond + " " + blk)
        first = False
    return "".join(out)


STR_MATCH = (r"(?s)match (ty_name\.as_str\(\)) \{\n(.*?)\n        \},", _match_to_if_chain, 1, "re")

MACRO = (r"(?s)    macro_rules! field_error \{\s*\(\$\(\$arg: tt\)\+\) => \{\s*\{(.*?)\n            \}\n        \};\n    \}\n(.*)$", _expand_field_error, 1, "re")
LIST_ASYNC = (r"(?s)let stream = pin!\(stream\.map\(\|result\| result\.map\(MaybeAsync::Async\)\)\);", "let stream = async_items(stream);", 1, "re")
LIST_SYNC = (r"(?s)let stream = futures::stream::iter\(iter\);\s*let stream = pin!\(stream\.map\(\|result\| result\.map\(MaybeAsync::Sync\)\)\);", "let stream = sync_items(iter);", 1, "re")
FMT = (r'format!\("[^"]*"(?:,[^;]*?)?\)(?=,\n)', "fmt_opaque()", None, "re")
TAIL = (r"(?s)Box::pin\(execute_selection_set\((.*?)fields\s*\.iter\(\)\s*\.flat_map\(\|field\| &field\.selection_set\.selections\),\s*\)\)\s*\.map\(\|map\| Some\(JsonValue::Object\(map\)\)\)",
        r"match execute_selection_set(\1merged_selections(fields)) { Ok(map) => Ok(Some(JsonValue::Object(map))), Err(e) => Err(e) }", 1, "re")

UNIT = {
    "name": "complete_value",
    "properties": ["C26"],
    "parts": [
        PRELUDE,
        dict(file=AST, kind="enum", name="Type", props=["C26"]),
        dict(file=RESP, kind="enum", name="ResponseDataPathSegment", props=["C26"], rewrites=[("crate::Name", "Name", 1)]),
        dict(file=EXE, kind="struct", name="LinkedPathElement", props=["C26"]),
        dict(file=RMOD, kind="enum", name="MaybeAsync", props=["C26"]),
        dict(file=RC, kind="enum", name="LeafOrObject", props=["C26"],
             rewrites=[("dyn AsyncObjectValue + 'a", "AsyncObjectValueDyn<'a>", 1), ("dyn ObjectValue + 'a", "ObjectValueDyn<'a>", 1)]),
        dict(file="crates/apollo-compiler/src/ast/impls.rs", kind="fn", name="is_non_null", container="Type", container_name="Type", wrap="impl Type", props=["C26"],
             clauses=[("ensures", "NonNull", "r == non_null(*self)")]),
        dict(file=SCH, kind="fn", name="get_object", container="Schema", container_name="Schema", wrap="impl Schema", props=["C26"],
             clauses=[("ensures", "the_object_type_with_that_name",
                       "match r { Some(o) => self.types@.dom().contains(name@) && self.types@[name@] == ExtendedType::Object(*o), None => !(self.types@.dom().contains(name@) && self.types@[name@] is Object) }")]),
        dict(file=RC, kind="fn", name="complete_leaf_value", props=["C26"],
             rewrites=[MACRO, STR_MATCH, ("ty_name: &crate::Name", "ty_name: &Name", 1), (r"\bint\b", "int_v", None, "re"),
                       ("is_some_and(|str| enum_def.values.contains_key(str))", "is_some_and(|str: &str| -> (x: bool) ensures x == enum_def.0.values@.contains(str@) { enum_def.values.contains_key(str) })", 1)],
             clauses=[("requires", "at_least_one_field", "fields@.len() > 0"),
                      ("requires", "not_an_input_object_and_not_null", "!(*ty_def is InputObject), json_value != JsonValue::Null"),
                      ("ensures", "errors_lie_at_or_below_the_position", "errors_added_below(old(ctx).errors@, final(ctx).errors@, path_seq(path))"),
                      ("ensures", "never_null", "r != Ok::<Option<JsonValue>, PropagateNull>(Some(JsonValue::Null))"),
                      ("ensures", "context_unchanged", "final(ctx).document == old(ctx).document, final(ctx).schema == old(ctx).schema"),
                      ("ensures", "ResultCoercion",
                       "if leaf_acceptable(*ty_def, ty_name.text@, json_value) { r == Ok::<Option<JsonValue>, PropagateNull>(Some(json_value)) && final(ctx).errors@ == old(ctx).errors@ } "
                       "else { r is Err && exactly_one_error_at(old(ctx).errors@, final(ctx).errors@, path_seq(path)) }")],
             hints=[("body_start", None, 'broadcast use paths; proof { axiom_str_ext(); reveal_strlit("Int"); reveal_strlit("Float"); reveal_strlit("String"); reveal_strlit("Boolean"); reveal_strlit("ID"); }')]),
        dict(file=RC, kind="fn", name="complete_value", props=["C26"],
             rewrites=[("async fn", "fn", 1), (".await", "", None), MACRO, LIST_SYNC, LIST_ASYNC, TAIL, FMT,
                       (r"Box::pin\((complete_list_value\([^()]*\))\)", r"\1", None, "re")],
             clauses=[("requires", "at_least_one_field", "fields@.len() > 0"),
                      ("ensures", "errors_lie_at_or_below_the_position", "errors_added_below(old(ctx).errors@, final(ctx).errors@, path_seq(path))"),
                      ("ensures", "non_null_positions_are_never_null", "non_null(*ty) ==> r != Ok::<Option<JsonValue>, PropagateNull>(Some(JsonValue::Null))"),
                      ("ensures", "context_unchanged", "final(ctx).document == old(ctx).document, final(ctx).schema == old(ctx).schema"),
                      ("ensures", "skipped_for_partial_execution", "resolved_skip(resolved) ==> r == Ok::<Option<JsonValue>, PropagateNull>(None) && final(ctx).errors@ == old(ctx).errors@"),
                      ("ensures", "null_is_an_error_for_a_non_null_type_and_null_otherwise",
                       "resolved_null(resolved) ==> if non_null(*ty) { r is Err && exactly_one_error_at(old(ctx).errors@, final(ctx).errors@, path_seq(path)) } "
                       "else { r == Ok::<Option<JsonValue>, PropagateNull>(Some(JsonValue::Null)) && final(ctx).errors@ == old(ctx).errors@ }"),
                      ("ensures", "a_list_is_completed_as_a_list_of_the_same_type_at_the_same_position",
                       "resolved_list(resolved) ==> r == list_completed(path_seq(path), mode, *ty, fields@, items_of(resolved))"),
                      ("ensures", "a_leaf_or_object_for_a_list_type_is_a_field_error",
                       "(!resolved_skip(resolved) && !resolved_null(resolved) && !resolved_list(resolved) && named(*ty) is None) ==> r is Err && exactly_one_error_at(old(ctx).errors@, final(ctx).errors@, path_seq(path))"),
                      ("ensures", "a_leaf_is_coerced_for_the_named_types_definition",
                       "match (resolved, named(*ty)) { (MaybeAsync::Async(AsyncResolvedValue::Leaf(v)), Some(n)) | (MaybeAsync::Sync(ResolvedValue::Leaf(v)), Some(n)) => "
                       "v != JsonValue::Null && old(ctx).schema.0.types@.dom().contains(n) && !(old(ctx).schema.0.types@[n] is InputObject) ==> "
                       "if leaf_acceptable(old(ctx).schema.0.types@[n], n, v) { r == Ok::<Option<JsonValue>, PropagateNull>(Some(v)) && final(ctx).errors@ == old(ctx).errors@ } "
                       "else { r is Err && exactly_one_error_at(old(ctx).errors@, final(ctx).errors@, path_seq(path)) }, _ => true }"),
                      ("ensures", "an_object_is_executed_as_its_object_type_if_that_type_is_acceptable_and_is_a_field_error_otherwise",
                       "match (resolved_object_type_name(resolved), named(*ty)) { (Some(t), Some(n)) => match object_type_for(&old(ctx).schema.0, n, t) { "
                       "None => r is Err && exactly_one_error_at(old(ctx).errors@, final(ctx).errors@, path_seq(path)), "
                       "Some(o) => match selection_set_result(path_seq(path), mode, &*o.0, object_of(resolved), spec_merged_selections(fields@)) { Ok(map) => r == Ok::<Option<JsonValue>, PropagateNull>(Some(JsonValue::Object(map))), Err(_) => r is Err } }, "
                       "_ => true }")],
             hints=[("body_start", None, "broadcast use paths;")]),
    ],
}
