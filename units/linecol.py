"""Unit `linecol` -- C11: byte offset -> (line, column).

Extracted verbatim: SourceFile::get_line_column (crates/apollo-compiler/src/parser.rs).
Spec: line = 1 + number of GraphQL LineTerminators ("\\n", "\\r\\n" as one, "\\r" alone) that end at or before
the offset; column = 1 + number of UTF-8 leading bytes between the start of that line and the offset
(= number of Unicode scalar values for offsets on a char boundary of valid UTF-8: the encoding's definition,
listed as an assumption); None iff offset > len.
"""
PARSER = "crates/apollo-compiler/src/parser.rs"
OUTER = "use vstd::string::StringSliceAdditionalSpecFns;\nuse vstd::std_specs::convert::*;"
PRELUDE = r'''
pub assume_specification[ String::as_bytes ](s: &String) -> (r: &[u8])
    ensures r@ == vstd::utf8::encode_utf8(s@);

pub struct LineColumn { pub line: usize, pub column: usize }
// shim: only the field the body reads
pub struct SourceFile { pub source_text: String }
pub open spec fn B(s: &SourceFile) -> Seq<u8> { vstd::utf8::encode_utf8(s.source_text@) }

// ---- specification (GraphQL LineTerminator: "\n", "\r\n", "\r") ----
/// a line terminator ends exactly at position `i` (exclusive end) of `b`
pub open spec fn terminator_ends_at(b: Seq<u8>, i: int) -> bool {
    0 < i <= b.len() && (b[i - 1] == 0x0Au8 || (b[i - 1] == 0x0Du8 && !(i < b.len() && b[i] == 0x0Au8)))
}
/// number of line terminators that end at or before `n`
pub open spec fn terminators_before(b: Seq<u8>, n: int) -> nat decreases n {
    if n <= 0 { 0 } else { terminators_before(b, n - 1) + (if terminator_ends_at(b, n) { 1nat } else { 0nat }) }
}
/// start of the line containing offset `n`: end of the last terminator ending at or before n
pub open spec fn line_start(b: Seq<u8>, n: int) -> int decreases n {
    if n <= 0 { 0 } else if terminator_ends_at(b, n) { n } else { line_start(b, n - 1) }
}
pub open spec fn is_leading(x: u8) -> bool { x & 0xC0u8 != 0x80u8 }
/// number of UTF-8 leading bytes in b[lo..hi)
pub open spec fn leading_between(b: Seq<u8>, lo: int, hi: int) -> nat decreases hi - lo {
    if hi <= lo { 0 } else { leading_between(b, lo, hi - 1) + (if is_leading(b[hi - 1]) { 1nat } else { 0nat }) }
}

'''

LC_IS = r'''
// ---- SourceSpan and the source map (shims: rowan's TextSize / TextRange are u32 offsets; the map is Arc<IndexMap<FileId, Arc<SourceFile>>>) ----
#[derive(Clone, Copy)]
pub struct FileId { pub id: u64 }
#[derive(Clone, Copy)]
pub struct TextSize { pub raw: u32 }
impl From<TextSize> for usize {
    #[verifier::external_body]
    fn from(v: TextSize) -> (r: usize) { unimplemented!() }
}
impl FromSpecImpl<TextSize> for usize {
    open spec fn obeys_from_spec() -> bool { true }
    open spec fn from_spec(v: TextSize) -> usize { v.raw as usize }
}
#[derive(Clone, Copy)]
pub struct TextRange { pub lo: u32, pub hi: u32 }
impl TextRange {
    pub fn start(self) -> (r: TextSize) ensures r.raw == self.lo { TextSize { raw: self.lo } }
    pub fn end(self) -> (r: TextSize) ensures r.raw == self.hi { TextSize { raw: self.hi } }
}
#[derive(Clone, Copy)]
pub struct SourceSpan { pub file_id: FileId, pub text_range: TextRange }
#[verifier::external_body]
pub struct SourceMap { x: u8 }
impl SourceMap {
    pub uninterp spec fn view(&self) -> Map<u64, SourceFile>;
    #[verifier::external_body]
    pub fn get(&self, k: &FileId) -> (r: Option<&SourceFile>)
        ensures match r { Some(f) => self@.dom().contains(k.id) && *f == self@[k.id], None => !self@.dom().contains(k.id) }
    { unimplemented!() }
}

pub open spec fn lc_is(lc: LineColumn, b: Seq<u8>, offset: int) -> bool {
    lc.line == 1 + terminators_before(b, offset) && lc.column == 1 + leading_between(b, line_start(b, offset), offset)
}
'''
INV_COMMON = "bytes@ == B(self), offset <= bytes@.len(), bytes@.len() < usize::MAX"

UNIT = {
    "name": "linecol",
    "properties": ["C11", "C21"],
    "outer": OUTER,
    "parts": [
        PRELUDE, LC_IS,
        dict(file=PARSER, kind="fn", name="get_line_column", container="SourceFile", container_name="SourceFile", wrap="impl SourceFile",
             n_loops=2,
             clauses=[
                 ("requires", "text_shorter_than_usize_max", "B(self).len() < usize::MAX"),
                 ("ensures", "none_iff_out_of_bounds", "r is None <==> offset > B(self).len()"),
                 ("ensures", "line_by_LineTerminator_rule", "r is Some ==> r->0.line == 1 + terminators_before(B(self), offset as int)"),
                 ("ensures", "column_counts_scalar_values", "r is Some ==> r->0.column == 1 + leading_between(B(self), line_start(B(self), offset as int), offset as int)"),
             ],
             loops=[
                 dict(invariant=[
                     ("frame", INV_COMMON + ", 0 <= i <= offset"),
                     ("line_count", "line == 1 + terminators_before(bytes@, i as int), line <= 1 + i"),
                     ("line_start", "line_start as int == crate::line_start(bytes@, i as int), 0 <= line_start <= i"),
                 ], decreases="offset - i"),
                 dict(invariant=[
                     ("frame", INV_COMMON + ", line_start <= j <= offset"),
                     ("column_count", "column == 1 + leading_between(bytes@, line_start as int, j as int), column <= 1 + j"),
                 ], decreases="offset - j"),
             ],
             props=["C11", "C21"]),
        dict(file=PARSER, kind="fn", name="get_line_column_range", container="SourceFile", container_name="SourceFile", wrap="impl SourceFile",
             rewrites=[("range: Range<usize>", "range: core::ops::Range<usize>", 1), ("Option<Range<LineColumn>>", "Option<core::ops::Range<LineColumn>>", 1)],
             clauses=[
                 ("requires", "text_shorter_than_usize_max", "B(self).len() < usize::MAX"),
                 ("ensures", "none_iff_either_out_of_bounds", "r is None <==> (range.start > B(self).len() || range.end > B(self).len())"),
                 ("ensures", "both_ends_by_the_same_rule", "r is Some ==> lc_is(r->0.start, B(self), range.start as int) && lc_is(r->0.end, B(self), range.end as int)"),
             ],
             props=["C11", "C21"]),

        dict(file=PARSER, kind="fn", name="offset", container="SourceSpan", container_name="SourceSpan", wrap="impl SourceSpan", props=["C11", "C21"],
             clauses=[("ensures", "start_of_the_range", "r == self.text_range.lo")]),
        dict(file=PARSER, kind="fn", name="end_offset", container="SourceSpan", container_name="SourceSpan", wrap="impl SourceSpan", props=["C11", "C21"],
             clauses=[("ensures", "end_of_the_range", "r == self.text_range.hi")]),
        dict(file=PARSER, kind="fn", name="line_column", container="SourceSpan", container_name="SourceSpan", wrap="impl SourceSpan", props=["C11", "C21"],
             clauses=[("requires", "texts_shorter_than_usize_max", "forall|k: u64| #[trigger] sources@.dom().contains(k) ==> B(&sources@[k]).len() < usize::MAX"),
                      ("ensures", "position_of_the_start_offset_in_the_spans_own_file",
                       "r is Some <==> (sources@.dom().contains(self.file_id.id) && self.text_range.lo <= B(&sources@[self.file_id.id]).len())"),
                      ("ensures", "by_the_LineTerminator_rule", "r is Some ==> lc_is(r->0, B(&sources@[self.file_id.id]), self.text_range.lo as int)")]),
        dict(file=PARSER, kind="fn", name="line_column_range", container="SourceSpan", container_name="SourceSpan", wrap="impl SourceSpan", props=["C11", "C21"],
             rewrites=[("Option<Range<LineColumn>>", "Option<core::ops::Range<LineColumn>>", 1)],
             clauses=[("requires", "texts_shorter_than_usize_max", "forall|k: u64| #[trigger] sources@.dom().contains(k) ==> B(&sources@[k]).len() < usize::MAX"),
                      ("ensures", "positions_of_both_ends_in_the_spans_own_file",
                       "r is Some <==> (sources@.dom().contains(self.file_id.id) && self.text_range.lo <= B(&sources@[self.file_id.id]).len() && self.text_range.hi <= B(&sources@[self.file_id.id]).len())"),
                      ("ensures", "by_the_LineTerminator_rule", "r is Some ==> lc_is(r->0.start, B(&sources@[self.file_id.id]), self.text_range.lo as int) && lc_is(r->0.end, B(&sources@[self.file_id.id]), self.text_range.hi as int)")]),
        r'''
// ---------------- sanity of the specification ----------------
proof fn linecol_spec_examples()
{
    // "a\r\nb": CR LF is ONE terminator, ending at 3
    let s = seq![0x61u8, 0x0Du8, 0x0Au8, 0x62u8];
    reveal_with_fuel(terminators_before, 6);
    reveal_with_fuel(line_start, 6);
    assert(!terminator_ends_at(s, 2));
    assert(terminator_ends_at(s, 3));
    assert(terminators_before(s, 4) == 1);
    assert(line_start(s, 4) == 3);
    // form feed / vertical tab are not line terminators
    let t = seq![0x61u8, 0x0Cu8, 0x0Bu8, 0x62u8];
    assert(terminators_before(t, 4) == 0);
    // a lone CR at the end of input is a terminator
    let u = seq![0x61u8, 0x0Du8];
    assert(terminators_before(u, 2) == 1);
    // a 2-byte scalar value (C3 A9) counts as one column
    let v = seq![0xC3u8, 0xA9u8, 0x78u8];
    reveal_with_fuel(leading_between, 6);
    assert(is_leading(0xC3u8) && !is_leading(0xA9u8) && is_leading(0x78u8)) by (bit_vector);
    assert(leading_between(v, 0, 2) == 1);
}
''',
    ],
}
