"""Unit `fragment_cycles` -- C21, KERNEL: `detect_fragment_cycles` (nested in validation/fragment.rs `validate_fragment_cycles`), the search for
fragments that spread themselves: for every document -- cyclic fragments, spreads of undefined fragments, any nesting -- it never pushes a
fragment name that is already on the path (RecursionGuard::push's debug_assert) and its recursion terminates: through fields and inline fragments
the selection set gets structurally smaller, through a fragment spread the path grows and `push` fails beyond the limit (100).

Extracted verbatim: detect_fragment_cycles.  RecursionGuard is the MODEL of unit input_cycles (shared text).
Listed rewrites: `for selection in &selection_set.selections` -> the index loop it desugars to; `path_from_root.first() == Some(&spread.fragment_name)`
-> `first_is(path_from_root, &spread.fragment_name)`; `.map_err(|error| error.trace(spread))` gets its parameter and result types spelled out.
Shims (trusted): the fragment map returns the fragment stored under that name, whose `name` is that name; HashSet::insert; Node / Name as elsewhere.
NOT decided: that a cycle is reported exactly when there is one (C18-1 is therefore missed).
"""
import input_cycles as IC

FR = "crates/apollo-compiler/src/validation/fragment.rs"

_a = IC.PRELUDE.index("pub struct RecursionLimitError {}")
_b = IC.PRELUDE.index("// ---------------- specification: Circular References")
GUARD_MODEL = IC.PRELUDE[_a:_b]      # CycleError, RecursionStack / RecursionGuard model, first_is: the text of unit input_cycles

PRELUDE = r'''
// ---------------- shims (trusted) ----------------
#[derive(PartialEq, Eq, Structural)]
pub struct Name { pub id: u64 }
impl Clone for Name { fn clone(&self) -> (r: Self) ensures r == *self { Name { id: self.id } } }
pub struct Node<T>(pub Box<T>);
impl<T> core::ops::Deref for Node<T> {
    type Target = T;
    fn deref(&self) -> (r: &T) ensures *r == *self.0 { &*self.0 }
}
impl<T> Clone for Node<T> {
    #[verifier::external_body]
    fn clone(&self) -> (r: Self) ensures r == *self { unimplemented!() }
}
pub mod executable {
    pub use super::{Selection, SelectionSet, FragmentSpread};
}
pub struct SelectionSet { pub selections: Vec<Selection> }
pub enum Selection { Field(Node<Field>), FragmentSpread(Node<FragmentSpread>), InlineFragment(Node<InlineFragment>) }
pub struct Field { pub selection_set: SelectionSet }
pub struct FragmentSpread { pub fragment_name: Name }
pub struct InlineFragment { pub selection_set: SelectionSet }
pub struct Fragment { pub name: Name, pub selection_set: SelectionSet }
#[verifier::external_body]
pub struct FragmentMap { x: u8 }
impl FragmentMap {
    // IndexMap<Name, Node<Fragment>>::get: the fragment stored under that name carries that name (ExecutableDocument's invariant)
    #[verifier::external_body]
    pub fn get(&self, k: &Name) -> (r: Option<&Node<Fragment>>) ensures r is Some ==> (*r->0).0.name == *k { unimplemented!() }
}
pub struct ExecutableDocument { pub fragments: FragmentMap }
#[verifier::external_body]
#[verifier::reject_recursive_types(K)]
pub struct HashSet<K> { k: core::marker::PhantomData<K> }
impl<'a> HashSet<&'a Name> {
    #[verifier::external_body]
    pub fn insert(&mut self, k: &'a Name) -> (r: bool) { unimplemented!() }
}
''' + GUARD_MODEL

UNIT = {
    "name": "fragment_cycles",
    "properties": ["C21"],
    "parts": [
        PRELUDE,
        dict(file=FR, kind="fn", name="detect_fragment_cycles", inside_fn="validate_fragment_cycles", props=["C21"], n_loops=1,
             rewrites=[("for selection in &selection_set.selections {", "let mut __i: usize = 0; while __i < selection_set.selections.len() { let selection = &selection_set.selections[__i]; __i += 1;", 1),
                       ("path_from_root.first() == Some(&spread.fragment_name)", "first_is(path_from_root, &spread.fragment_name)", 1),
                       (".map_err(|error| error.trace(spread))", ".map_err(|error: CycleError<executable::FragmentSpread>| -> (r: CycleError<executable::FragmentSpread>) { error.trace(spread) })", "*")],
             clauses=[("requires", "within_the_limit", "old(path_from_root).path@.len() <= old(path_from_root).limit@"),
                      ("ensures", "path_restored", "final(path_from_root).path@ == old(path_from_root).path@ && final(path_from_root).limit@ == old(path_from_root).limit@"),
                      ("decreases", None, "old(path_from_root).limit@ + 1 - old(path_from_root).path@.len(), selection_set")],
             loops=[dict(invariant=[("bounds", "__i <= selection_set.selections@.len()"),
                                    ("path_kept", "path_from_root.path@ == old(path_from_root).path@ && path_from_root.limit@ == old(path_from_root).limit@ && path_from_root.path@.len() <= path_from_root.limit@")],
                         decreases="selection_set.selections@.len() - __i")]),
    ],
}
