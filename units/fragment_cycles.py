"""Unit `fragment_cycles` -- C21, KERNEL: `detect_fragment_cycles` (nested in validation/fragment.rs `validate_fragment_cycles`), the search for
fragments that spread themselves: for every document -- cyclic fragments, spreads of undefined fragments, any nesting -- it never pushes a
fragment name that is already on the path (RecursionGuard::push's debug_assert) and its recursion terminates: through fields and inline fragments
the selection set gets structurally smaller, through a fragment spread the path grows and `push` fails beyond the limit (100).

Extracted verbatim: detect_fragment_cycles.  RecursionGuard is the MODEL of unit input_cycles (shared text).
Listed rewrites: `for selection in &selection_set.selections` -> the index loop it desugars to; `path_from_root.first() == Some(&spread.fragment_name)`
-> `first_is(path_from_root, &spread.fragment_name)`; `.map_err(|error| error.trace(spread))` gets its parameter and result types spelled out.
Shims (trusted): the fragment map returns the fragment stored under that name, whose `name` is that name; HashSet::insert; Node / Name as elsewhere.
NOT decided: that a cycle is reported exactly when there is one (C18-1 is therefore missed).
"""
import input_cycles as IC

FR = "crates/apollo-compiler/src/validation/fragment.rs"

_a = IC.PRELUDE.index("pub struct RecursionLimitError {}")
_b = IC.PRELUDE.index("// ---------------- specification: Circular References")
GUARD_MODEL = IC.PRELUDE[_a:_b]      # CycleError, RecursionStack / RecursionGuard model, first_is: the text of unit input_cycles

PRELUDE = r'''
// ---------------- shims (trusted) ----------------
#[derive(PartialEq, Eq, Structural)]
pub struct Name { pub id: u64 }
impl Clone for Name { fn clone(&self) -> (r: Self) ensures r == *self { Name { id: self.id } } }
pub struct Node<T>(pub Box<T>);
impl<T> core::ops::Deref for Node<T> {
    type Target = T;
    fn deref(&self) -> (r: &T) ensures *r == *self.0 { &*self.0 }
}
impl<T> Clone for Node<T> {
    #[verifier::external_body]
    fn clone(&self) -> (r: Self) ensures r == *self { unimplemented!() }
}
pub mod executable {
    pub use super::{Selection, SelectionSet, FragmentSpread, Fragment};
}
pub struct SelectionSet { pub selections: Vec<Selection> }
pub enum Selection { Field(Node<Field>), FragmentSpread(Node<FragmentSpread>), InlineFragment(Node<InlineFragment>) }
pub struct Field { pub selection_set: SelectionSet }
pub struct FragmentSpread { pub fragment_name: Name }
pub struct InlineFragment { pub selection_set: SelectionSet }
pub struct Fragment { pub name: Name, pub selection_set: SelectionSet }
#[verifier::external_body]
pub struct FragmentMap { x: u8 }
impl FragmentMap {
    // IndexMap<Name, Node<Fragment>>::get: the fragment stored under that name carries that name (ExecutableDocument's invariant)
    pub uninterp spec fn view(&self) -> Map<Name, Node<Fragment>>;
    #[verifier::external_body]
    pub fn get(&self, k: &Name) -> (r: Option<&Node<Fragment>>)
        ensures match r { Some(f) => self@.dom().contains(*k) && *f == self@[*k] && f.0.name == *k, None => !self@.dom().contains(*k) }
    { unimplemented!() }
}
pub struct ExecutableDocument { pub fragments: FragmentMap }
pub struct SourceSpan { pub x: u64 }
impl SourceSpan {
    #[verifier::external_body]
    pub fn recompose(a: Option<SourceSpan>, b: Option<SourceSpan>) -> Option<SourceSpan> { unimplemented!() }
}
impl<T> Node<T> {
    #[verifier::external_body]
    pub fn location(&self) -> Option<SourceSpan> { unimplemented!() }
}
impl Name {
    #[verifier::external_body]
    pub fn location(&self) -> Option<SourceSpan> { unimplemented!() }
}
pub enum DiagnosticData {
    RecursiveFragmentDefinition { head_location: Option<SourceSpan>, name: Name, trace: Vec<Node<FragmentSpread>> },
    DeeplyNestedType { name: Name, describe_type: &'static str },
}
pub struct DiagnosticEntry { pub location: Option<SourceSpan>, pub data: DiagnosticData }
pub struct DiagnosticList { pub entries: Vec<DiagnosticEntry> }
impl DiagnosticList {
    pub fn push(&mut self, location: Option<SourceSpan>, data: DiagnosticData)
        ensures final(self).entries@ == old(self).entries@.push(DiagnosticEntry { location, data })
    { self.entries.push(DiagnosticEntry { location, data }) }
}
#[verifier::external_body]
#[verifier::reject_recursive_types(K)]
pub struct HashSet<K> { k: core::marker::PhantomData<K> }
impl<'a> HashSet<&'a Name> {
    pub uninterp spec fn view(&self) -> Set<Name>;
    #[verifier::external_body]
    pub fn insert(&mut self, k: &'a Name) -> (r: bool) ensures final(self)@ == old(self)@.insert(*k), r == !old(self)@.contains(*k) { unimplemented!() }
    #[verifier::external_body]
    pub fn default() -> (r: Self) ensures r@ == Set::<Name>::empty() { unimplemented!() }
}
// the same set with owned names (present so that a variant of the code that stores clones is judged, not rejected)
impl HashSet<Name> {
    pub uninterp spec fn view(&self) -> Set<Name>;
    #[verifier::external_body]
    pub fn insert(&mut self, k: Name) -> (r: bool) ensures final(self)@ == old(self)@.insert(k), r == !old(self)@.contains(k) { unimplemented!() }
}
''' + GUARD_MODEL

SPEC = r'''
// ---------------- specification: "fragment spreads must not form cycles" (https://spec.graphql.org/October2021/#sec-Fragment-spreads-must-not-form-cycles) ----------------
/// every fragment spread anywhere in the first n selections (through fields and inline fragments) names a member of `s`
pub open spec fn spreads_in(v: Seq<Selection>, n: int, s: Set<Name>) -> bool decreases v, n {
    if n <= 0 || n > v.len() { true } else {
        spreads_in(v, n - 1, s) && match v[n - 1] {
            Selection::Field(f) => spreads_in(f.0.selection_set.selections@, f.0.selection_set.selections@.len() as int, s),
            Selection::InlineFragment(i) => spreads_in(i.0.selection_set.selections@, i.0.selection_set.selections@.len() as int, s),
            Selection::FragmentSpread(sp) => s.contains(sp.0.fragment_name),
        }
    }
}
pub open spec fn all_spreads_in(ss: &SelectionSet, s: Set<Name>) -> bool { spreads_in(ss.selections@, ss.selections@.len() as int, s) }
/// every member of `s` outside `grey` that is a defined fragment spreads only members of `s`: nothing leads out of `s`
pub open spec fn closed(doc: &ExecutableDocument, s: Set<Name>, grey: Set<Name>) -> bool {
    forall|b: Name| #![trigger s.contains(b)] s.contains(b) && !grey.contains(b) && doc.fragments@.dom().contains(b) ==> all_spreads_in(&doc.fragments@[b].0.selection_set, s)
}
pub proof fn lemma_spreads_in_mono(v: Seq<Selection>, n: int, s: Set<Name>, t: Set<Name>)
    requires spreads_in(v, n, s), s.subset_of(t)
    ensures spreads_in(v, n, t)
    decreases v, n
{
    if n <= 0 || n > v.len() { } else {
        lemma_spreads_in_mono(v, n - 1, s, t);
        match v[n - 1] {
            Selection::Field(f) => lemma_spreads_in_mono(f.0.selection_set.selections@, f.0.selection_set.selections@.len() as int, s, t),
            Selection::InlineFragment(i) => lemma_spreads_in_mono(i.0.selection_set.selections@, i.0.selection_set.selections@.len() as int, s, t),
            Selection::FragmentSpread(sp) => { },
        }
    }
}
pub proof fn lemma_closed_mono(doc: &ExecutableDocument, s: Set<Name>, t: Set<Name>, grey: Set<Name>)
    requires closed(doc, s, grey), s.subset_of(t),
             forall|b: Name| #![trigger t.contains(b)] t.contains(b) && !s.contains(b) && !grey.contains(b) && doc.fragments@.dom().contains(b) ==> all_spreads_in(&doc.fragments@[b].0.selection_set, t)
    ensures closed(doc, t, grey)
{
    assert forall|b: Name| #![trigger t.contains(b)] t.contains(b) && !grey.contains(b) && doc.fragments@.dom().contains(b) implies all_spreads_in(&doc.fragments@[b].0.selection_set, t) by {
        if s.contains(b) { let ss = doc.fragments@[b].0.selection_set; lemma_spreads_in_mono(ss.selections@, ss.selections@.len() as int, s, t); }
    }
}
pub proof fn lemma_push_to_set(p: Seq<Name>, n: Name)
    ensures p.push(n).to_set() =~= p.to_set().insert(n)
{
    let q = p.push(n);
    assert forall|x: Name| q.to_set().contains(x) <==> p.to_set().insert(n).contains(x) by {
        if q.contains(x) { let i = choose|i: int| 0 <= i < q.len() && q[i] == x; if i < p.len() { assert(p[i] == x); assert(p.contains(x)); } }
        if p.contains(x) { let i = choose|i: int| 0 <= i < p.len() && p[i] == x; assert(q[i] == x); assert(q.contains(x)); }
        if x == n { assert(q[p.len() as int] == x); assert(q.contains(x)); }
    }
}
/// the state of the search: the root is never marked; everything on the path below the root is; nothing leads out of the marked set except through the path
pub open spec fn search_inv(doc: &ExecutableDocument, path: Seq<Name>, seen: Set<Name>) -> bool {
    path.len() >= 1 && !seen.contains(path[0]) && (forall|k: int| 1 <= k < path.len() ==> seen.contains(#[trigger] path[k])) && closed(doc, seen, path.to_set())
}

// ---- what "no cycle through the root" means, and why the final state of a search that reported nothing implies it ----
/// a fragment spread named b occurs somewhere in the first n selections (through fields and inline fragments)
pub open spec fn occurs(v: Seq<Selection>, n: int, b: Name) -> bool decreases v, n {
    if n <= 0 || n > v.len() { false } else {
        occurs(v, n - 1, b) || match v[n - 1] {
            Selection::Field(f) => occurs(f.0.selection_set.selections@, f.0.selection_set.selections@.len() as int, b),
            Selection::InlineFragment(i) => occurs(i.0.selection_set.selections@, i.0.selection_set.selections@.len() as int, b),
            Selection::FragmentSpread(sp) => sp.0.fragment_name == b,
        }
    }
}
/// fragment a (defined) spreads fragment b somewhere in its selection set
pub open spec fn spreads(doc: &ExecutableDocument, a: Name, b: Name) -> bool {
    doc.fragments@.dom().contains(a) && occurs(doc.fragments@[a].0.selection_set.selections@, doc.fragments@[a].0.selection_set.selections@.len() as int, b)
}
/// w is a chain of spreads from root back to root
pub open spec fn cycle_through(doc: &ExecutableDocument, root: Name, w: Seq<Name>) -> bool {
    w.len() >= 2 && w[0] == root && w.last() == root && forall|k: int| 0 <= k < w.len() - 1 ==> spreads(doc, #[trigger] w[k], w[k + 1])
}
pub proof fn lemma_occurs_marked(v: Seq<Selection>, n: int, b: Name, s: Set<Name>)
    requires occurs(v, n, b), spreads_in(v, n, s)
    ensures s.contains(b)
    decreases v, n
{
    if n <= 0 || n > v.len() { } else {
        if occurs(v, n - 1, b) { lemma_occurs_marked(v, n - 1, b, s); } else {
            match v[n - 1] {
                Selection::Field(f) => lemma_occurs_marked(f.0.selection_set.selections@, f.0.selection_set.selections@.len() as int, b, s),
                Selection::InlineFragment(i) => lemma_occurs_marked(i.0.selection_set.selections@, i.0.selection_set.selections@.len() as int, b, s),
                Selection::FragmentSpread(sp) => { },
            }
        }
    }
}
/// every fragment on a chain of spreads that starts at the root is marked
pub proof fn lemma_chain_stays_marked(doc: &ExecutableDocument, root: Name, s: Set<Name>, w: Seq<Name>, k: int)
    requires search_inv(doc, seq![root], s), doc.fragments@.dom().contains(root), all_spreads_in(&doc.fragments@[root].0.selection_set, s),
             w.len() >= 2, w[0] == root, forall|j: int| 0 <= j < w.len() - 1 ==> spreads(doc, #[trigger] w[j], w[j + 1]), 1 <= k < w.len()
    ensures s.contains(w[k])
    decreases k
{
    let a = w[k - 1];
    assert(spreads(doc, w[k - 1], w[k - 1 + 1]));
    let ss = doc.fragments@[a].0.selection_set;
    if k == 1 { lemma_occurs_marked(ss.selections@, ss.selections@.len() as int, w[k], s); }
    else {
        lemma_chain_stays_marked(doc, root, s, w, k - 1);
        assert(s.contains(a));
        assert(seq![root].to_set().contains(a) ==> a == root) by { if seq![root].contains(a) { let i = choose|i: int| 0 <= i < seq![root].len() && seq![root][i] == a; } }
        assert(a != root);
        assert(all_spreads_in(&ss, s));
        lemma_occurs_marked(ss.selections@, ss.selections@.len() as int, w[k], s);
    }
}
/// C18: if the search from `root` reports nothing, `root` is on no cycle of fragment spreads
pub proof fn lemma_nothing_reported_means_no_cycle(doc: &ExecutableDocument, root: Name, s: Set<Name>)
    requires search_inv(doc, seq![root], s), doc.fragments@.dom().contains(root), all_spreads_in(&doc.fragments@[root].0.selection_set, s)
    ensures forall|w: Seq<Name>| !cycle_through(doc, root, w)
{
    assert forall|w: Seq<Name>| !cycle_through(doc, root, w) by {
        if cycle_through(doc, root, w) { lemma_chain_stays_marked(doc, root, s, w, w.len() - 1); assert(seq![root][0] == root); }
    }
}
'''

UNIT = {
    "name": "fragment_cycles",
    "properties": ["C21", "C18"],
    "parts": [
        PRELUDE, SPEC,
        dict(file=FR, kind="fn", name="detect_fragment_cycles", inside_fn="validate_fragment_cycles", props=["C21"], n_loops=1,
             rewrites=[("for selection in &selection_set.selections {", "let mut __i: usize = 0; while __i < selection_set.selections.len() { let selection = &selection_set.selections[__i]; __i += 1;", 1),
                       ("path_from_root.first() == Some(&spread.fragment_name)", "first_is(path_from_root, &spread.fragment_name)", 1),
                       (".map_err(|error| error.trace(spread))", ".map_err(|error: CycleError<executable::FragmentSpread>| -> (r: CycleError<executable::FragmentSpread>) { error.trace(spread) })", "*")],
             clauses=[("requires", "within_the_limit", "old(path_from_root).path@.len() <= old(path_from_root).limit@"),
                      ("requires", "search_state", "search_inv(document, old(path_from_root).path@, old(seen)@)", ["C18"]),
                      ("ensures", "path_restored", "final(path_from_root).path@ == old(path_from_root).path@ && final(path_from_root).limit@ == old(path_from_root).limit@"),
                      ("ensures", "no_error_means_every_spread_below_is_marked_and_nothing_leads_out_of_the_marked_set",
                       "r is Ok ==> search_inv(document, old(path_from_root).path@, final(seen)@) && old(seen)@.subset_of(final(seen)@) && all_spreads_in(selection_set, final(seen)@)", ["C18"]),
                      ("ensures", "at_the_root_no_error_means_no_cycle_through_the_root",
                       "(r is Ok && old(path_from_root).path@.len() == 1 && document.fragments@.dom().contains(old(path_from_root).path@[0]) && document.fragments@[old(path_from_root).path@[0]].0.selection_set == *selection_set) "
                       "==> forall|w: Seq<Name>| !cycle_through(document, old(path_from_root).path@[0], w)", ["C18"]),
                      ("decreases", None, "old(path_from_root).limit@ + 1 - old(path_from_root).path@.len(), selection_set")],
             loops=[dict(invariant=[("bounds", "__i <= selection_set.selections@.len()"),
                                    ("path_kept", "path_from_root.path@ == old(path_from_root).path@ && path_from_root.limit@ == old(path_from_root).limit@ && path_from_root.path@.len() <= path_from_root.limit@"),
                                    ("search_state", "search_inv(document, path_from_root.path@, seen@) && old(seen)@.subset_of(seen@)", ["C18"]),
                                    ("spreads_so_far_are_marked", "spreads_in(selection_set.selections@, __i as int, seen@)", ["C18"])],
                         decreases="selection_set.selections@.len() - __i")],
             hints=[("loop_body_start", 0, "let ghost seen0 = seen@; proof { assert forall|n: Name| seen0.contains(n) implies #[trigger] seen0.insert(n) == seen0 by { assert(seen0.insert(n) =~= seen0); } }"),
                    ("before", "if let Some(fragment) = document.fragments.get(&spread.fragment_name) {",
                     "proof { let name = spread.0.fragment_name; let p = path_from_root.path@; lemma_push_to_set(p, name); lemma_closed_mono(document, seen0, seen@, p.push(name).to_set()); }"),
                    ("loop_body_end", 0, "proof { let v = selection_set.selections@; lemma_spreads_in_mono(v, __i - 1, seen0, seen@); }"),
                    ("after_loop", 0, "proof { let p = path_from_root.path@; if p.len() == 1 && document.fragments@.dom().contains(p[0]) && document.fragments@[p[0]].0.selection_set == *selection_set { assert(p =~= seq![p[0]]); lemma_nothing_reported_means_no_cycle(document, p[0], seen@); } }")]),
        dict(file=FR, kind="fn", name="validate_fragment_cycles", props=["C18"],
             rewrites=[(r"(?s)    fn detect_fragment_cycles<'doc>\(.*?\n    \}\n\n(?=    let mut visited)", "", 1, "re")],      # the nested function is extracted on its own (above); here its definition is cut out of the enclosing body
             clauses=[("requires", "def_is_a_fragment_of_the_document", "document.fragments@.dom().contains(def.0.name) && document.fragments@[def.0.name] == *def"),
                      ("ensures", "nothing_reported_means_no_cycle_through_this_fragment",
                       "final(diagnostics).entries@.len() == old(diagnostics).entries@.len() ==> forall|w: Seq<Name>| !cycle_through(document, def.0.name, w)", ["C18"])],
             ),
    ],
}
