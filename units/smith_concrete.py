"""Unit `smith_concrete` -- C33, KERNEL ONLY: `ResponseBuilder::concrete_type` (apollo-smith/src/response.rs), which chooses the object type a generated object
gets: for a union one of its members; for an interface an OBJECT type of the schema that implements it (the interface itself only if there is none); otherwise
the type itself.  This is what unit smith_response's precondition ("`concrete` names an object type") rests on for abstract types.

Extracted verbatim: ResponseBuilder::concrete_type.
Listed rewrites:
  * `self.schema.types.values().filter(|t| P).count()` -> `count_values(&self.schema.types, closure)` and
    `self.schema.types.iter().filter_map(|(name, t)| M).nth(idx)` -> `nth_filter_map(&self.schema.types, closure, idx)`: the closures keep P / M verbatim as their
    bodies (the tuple pattern becomes two parameters) and get their types and postconditions spelled out;
  * `.expect("idx came from counting the same filter")` -> `.expect_counted()`: ASSUMED to be Some (that the two scans count the same entries is not proved);
  * the impl header's generics are dropped; `self.rng` is a shim whose `choose_index(n)` returns an index below n (random.rs documents it so) or an error.
Shims (trusted): as in unit execution (IndexMap / IndexSet by the name's text), plus IndexSet::len / get_index (entries in order).
NOT decided: that a union's members are object types (schema validity), randomness, everything else of C33.
"""
import importlib.util
import os
_here = os.path.dirname(os.path.abspath(__file__))
_spec = importlib.util.spec_from_file_location("execution_unit", os.path.join(_here, "execution.py"))
EX = importlib.util.module_from_spec(_spec)
_spec.loader.exec_module(EX)

RESP = "crates/apollo-smith/src/response.rs"

PRELUDE = EX.PRELUDE + r'''
pub struct ResponseError { pub x: u8 }
pub struct Rng { pub x: u64 }
impl Rng {
    /// random.rs: "choose an index in 0..len"
    #[verifier::external_body]
    pub fn choose_index(&mut self, len: usize) -> (r: Result<usize, ResponseError>) ensures r matches Ok(i) ==> i < len { unimplemented!() }
}
pub struct ResponseBuilder<'schema> { pub schema: &'schema Valid<Schema>, pub rng: Rng }
impl IndexSet<ComponentName> {
    pub uninterp spec fn entries(&self) -> Seq<ComponentName>;
    #[verifier::external_body]
    pub proof fn entries_are_members(&self) ensures forall|i: int| 0 <= i < self.entries().len() ==> self@.contains((#[trigger] self.entries()[i]).name.key()) { }
    #[verifier::external_body]
    pub fn len(&self) -> (r: usize) ensures r == self.entries().len() { unimplemented!() }
    #[verifier::external_body]
    pub fn get_index(&self, i: usize) -> (r: Option<&ComponentName>) ensures match r { Some(c) => i < self.entries().len() && *c == self.entries()[i as int] && self@.contains(c.name.key()), None => i >= self.entries().len() } { unimplemented!() }
}
impl<V> IndexMap<Name, V> {
    /// the entries in order: keys and values (`get` finds the entry whose key has that text)
    pub uninterp spec fn keys(&self) -> Seq<Name>;
    pub uninterp spec fn vals(&self) -> Seq<V>;
    #[verifier::external_body]
    pub proof fn entries_are_in_the_map(&self)
        ensures self.keys().len() == self.vals().len(), forall|i: int| 0 <= i < self.keys().len() ==> self@.dom().contains((#[trigger] self.keys()[i]).key()) && self@[self.keys()[i].key()] == self.vals()[i] { }
}
#[verifier::external_body]
pub fn count_values<V, F: Fn(&V) -> bool>(m: &IndexMap<Name, V>, f: F) -> (r: usize)
    requires forall|x: &V| f.requires((x,))
    ensures r == 0 ==> forall|i: int| 0 <= i < m.vals().len() ==> f.ensures((&#[trigger] m.vals()[i],), false)
{ unimplemented!() }
#[verifier::external_body]
pub fn nth_filter_map<'m, V, F: Fn(&'m Name, &'m V) -> Option<&'m Name>>(m: &'m IndexMap<Name, V>, f: F, n: usize) -> (r: Option<&'m Name>)
    requires forall|k: &Name, x: &V| f.requires((k, x))
    ensures r matches Some(x) ==> exists|i: int| 0 <= i < m.keys().len() && f.ensures((&#[trigger] m.keys()[i], &m.vals()[i]), Some(x))
{ unimplemented!() }
pub trait ExpectCounted<T> { fn expect_counted(self) -> T; }
impl<T> ExpectCounted<T> for Option<T> {
    /// ASSUMED (not proved): the value is there -- "idx came from counting the same filter"
    #[verifier::external_body]
    fn expect_counted(self) -> (r: T) ensures self == Some(r) { unimplemented!() }
}
pub open spec fn object_implementing(t: ExtendedType, iface: Seq<char>) -> bool { t matches ExtendedType::Object(o) && o.0.implements_interfaces@.contains(iface) }
'''

COUNT = (r"(?s)self\s*\.schema\s*\.types\s*\.values\(\)\s*\.filter\(\|t\| \{(.*?)\n\s*\}\)\s*\.count\(\)",
         r"count_values(&self.schema.types, |t: &ExtendedType| -> (b: bool) ensures b == object_implementing(*t, ty.key()) {\1\n })", 1, "re")
NTH = (r"(?s)self\s*\.schema\s*\.types\s*\.iter\(\)\s*\.filter_map\(\|\(name, t\)\| (match t \{.*?\n\s*\})\)\s*\.nth\(idx\)\s*\.expect\(\"idx came from counting the same filter\"\)",
       r"nth_filter_map(&self.schema.types, |name: &'schema Name, t: &'schema ExtendedType| -> (o: Option<&'schema Name>) ensures o matches Some(x) ==> x == name && object_implementing(*t, ty.key()) { \1 }, idx).expect_counted()", 1, "re")

UNIT = {
    "name": "smith_concrete",
    "properties": ["C33"],
    "parts": [
        PRELUDE,
        dict(file=RESP, kind="fn", name="concrete_type", container="ResponseBuilder<'a, 'doc, 'schema, R>", container_name="ResponseBuilder", wrap="impl<'schema> ResponseBuilder<'schema>", props=["C33"],
             rewrites=[COUNT, NTH],
             clauses=[("ensures", "schema_untouched", "final(self).schema == old(self).schema"),
                      ("ensures", "the_concrete_type_is_a_possible_type",
                       "r matches Ok(n) ==> (if !old(self).schema.0.types@.dom().contains(ty.key()) { n == ty } else { match old(self).schema.0.types@[ty.key()] { "
                       "ExtendedType::Union(u) => u.0.members@.contains(n.key()), "
                       "ExtendedType::Interface(_) => n == ty || (old(self).schema.0.types@.dom().contains(n.key()) && object_implementing(old(self).schema.0.types@[n.key()], ty.key())), "
                       "_ => n == ty } })")],
             hints=[("body_start", None, "proof { self.schema.0.types.entries_are_in_the_map(); }")]),
    ],
}
