"""Unit `smith_response` -- C33, KERNEL ONLY: `ResponseBuilder::type_condition_matches` (apollo-smith/src/response.rs), the test that decides which
fragments contribute fields to the object being generated: it must be the spec's DoesFragmentTypeApply for the chosen concrete object type --
the same specification function (shared text of unit `execution`, C26) that the executor's `does_fragment_type_apply` is proved against, so the
generator and the executor agree on which fragments apply ("executing the operation ... reproduces it").

Extracted verbatim: ResponseBuilder::type_condition_matches.
Precondition (what `concrete_type` hands over): `concrete` names an object type of the schema, stored under its own name.
Listed rewrites: `union_ty.members.iter().any(|m| m.name == *concrete)` -> `union_ty.members.contains(concrete)` (a search by name over an IndexSet
of component names IS membership); `cond == concrete` on two `&Name` -> `*cond == *concrete`; the impl header's generics (randomness source,
lifetimes) are dropped, `self.schema` is the only field the body reads.
Shims (trusted): as in unit execution (Name equality is equality of the text; IndexMap / IndexSet lookups by text); Valid<T> derefs to T.
"""
import execution as EX

RESP = "crates/apollo-smith/src/response.rs"

PRELUDE = EX.PRELUDE + r'''
pub struct ResponseBuilder<'schema> { pub schema: &'schema Valid<Schema> }
'''

UNIT = {
    "name": "smith_response",
    "properties": ["C33"],
    "parts": [
        PRELUDE,
        dict(file=RESP, kind="fn", name="type_condition_matches", container="ResponseBuilder<'a, 'doc, 'schema, R>", container_name="ResponseBuilder", wrap="impl<'schema> ResponseBuilder<'schema>", props=["C33"],
             rewrites=[("union_ty.members.iter().any(|m| m.name == *concrete)", "union_ty.members.contains(concrete)", 1),
                       ("if cond == concrete {", "if *cond == *concrete {", 1)],
             clauses=[("requires", "concrete_is_an_object_type_of_the_schema",
                       "self.schema.0.types@.dom().contains(concrete.key()) && self.schema.0.types@[concrete.key()] is Object && self.schema.0.types@[concrete.key()]->Object_0.0.name.key() == concrete.key()"),
                      ("ensures", "DoesFragmentTypeApply", "r == fragment_type_applies(&self.schema.0, &*self.schema.0.types@[concrete.key()]->Object_0.0, cond)")]),
    ],
}
