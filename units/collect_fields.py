"""Unit `collect_fields` -- C26: the executor's `collect_fields` (crates/apollo-compiler/src/resolvers/execution.rs) against the spec's
CollectFields (https://spec.graphql.org/October2021/#CollectFields()), for every schema, document, variables map, object type and
selection set, with the `visitedFragments` / `groupedFields` state threaded through exactly as the spec does.

Extracted verbatim: collect_fields; Field::response_key (executable/mod.rs); and again does_fragment_type_apply, eval_if_arg,
Selection::directives with the contracts of unit `execution` (same part descriptions).

Specification `collect_sel` / `collect_seq` (a transcription of the spec's steps 3.a - 3.e):
  a selection with `@skip(if: true)` or `@include(if: false)` contributes nothing;
  a field is appended to the group of its response key (alias, else name); groups keep the order in which their key first appeared;
  a fragment spread whose name was already visited contributes nothing; otherwise the name is marked visited, and if the fragment exists and
  DoesFragmentTypeApply its selection set is collected; an inline fragment is collected unless it has a type condition that does not apply.
Fragments may be recursive in an unvalidated document: the spec function carries a `fuel` for fragment expansion, and the contract says:
for EVERY fuel at least the number of defined-but-unvisited fragments, the final (visited, grouped) state is `collect_seq(.., fuel)`.
Each expansion marks one more fragment visited, so such fuel never runs out; no acyclicity assumption is needed.

Listed rewrites: `selections: impl IntoIterator<Item = &'a Selection>` -> `&'a Vec<Selection>` (what both recursive calls and the caller pass);
`for selection in selections` -> the index loop it desugars to (`continue` inside `for` is outside Verus); `SKIP_DIRECTIVE_NAME` /
`INCLUDE_DIRECTIVE_NAME` -> their values `"skip"` / `"include"` (validation/operation.rs); `grouped_fields.entry(k).or_default().push(f)` ->
`grouped_fields.entry_push(k, f)` (IndexMap entry API: append to the group of k, creating it at the end if absent).
Termination of the recursion is NOT proved (`exec_allows_no_decreases_clause`): it follows from the same counting argument but is not checked.
Shims (trusted): as in unit execution, plus HashSet<&Name>::insert, IndexMap::get on the fragment map, the entry API above.
"""
import execution as EX

EXE = EX.EXE
EXM = EX.EXM

_old = '''pub struct Field { pub directives: DirectiveList }
pub struct FragmentSpread { pub directives: DirectiveList }
pub struct InlineFragment { pub directives: DirectiveList }
'''
assert _old in EX.PRELUDE
BASE = EX.PRELUDE.replace(_old, '''pub struct SelectionSet { pub ty: Name, pub selections: Vec<Selection> }
pub struct Field { pub alias: Option<Name>, pub name: Name, pub directives: DirectiveList }
pub struct FragmentSpread { pub fragment_name: Name, pub directives: DirectiveList }
pub struct InlineFragment { pub type_condition: Option<Name>, pub directives: DirectiveList, pub selection_set: SelectionSet }
pub struct Fragment { pub selection_set: SelectionSet }
impl Fragment {
    // executable/mod.rs Fragment::type_condition: the type of its selection set
    pub fn type_condition(&self) -> (r: &Name) ensures *r == self.selection_set.ty { &self.selection_set.ty }
}
''')

PRELUDE = BASE + r'''
// ---------------- further shims (trusted) ----------------
#[verifier::external_body]
pub struct FragmentMap { x: u8 }
impl FragmentMap {
    pub uninterp spec fn view(&self) -> Map<Seq<char>, Node<Fragment>>;
    #[verifier::external_body]
    pub fn get(&self, k: &Name) -> (r: Option<&Node<Fragment>>)
        ensures match r { Some(f) => self@.dom().contains(k.key()) && *f == self@[k.key()], None => !self@.dom().contains(k.key()) }
    { unimplemented!() }
}
pub struct ExecutableDocument { pub fragments: FragmentMap }
pub struct ExecutionContext<'a> { pub schema: &'a Valid<Schema>, pub document: &'a Valid<ExecutableDocument>, pub variable_values: &'a Valid<JsonMap> }
#[verifier::external_body]
#[verifier::reject_recursive_types(K)]
pub struct HashSet<K> { k: core::marker::PhantomData<K> }
impl<'a> HashSet<&'a Name> {
    pub uninterp spec fn view(&self) -> Set<Seq<char>>;
    #[verifier::external_body]
    pub fn insert(&mut self, k: &'a Name) -> (r: bool) ensures final(self)@ == old(self)@.insert(k.key()), r == !old(self)@.contains(k.key()) { unimplemented!() }
}
pub type Groups = Seq<(Seq<char>, Seq<Field>)>;
/// index of the group with key k among the first n, or -1
pub open spec fn gidx(g: Groups, k: Seq<char>, n: int) -> int decreases n {
    if n <= 0 { -1 } else { let r = gidx(g, k, n - 1); if r >= 0 { r } else if g[n - 1].0 == k { n - 1 } else { -1 } }
}
/// "append field to the groupForResponseKey" (the ordered map keeps the position of the key's first appearance)
pub open spec fn group_push(g: Groups, k: Seq<char>, f: Field) -> Groups {
    let j = gidx(g, k, g.len() as int);
    if j >= 0 { g.update(j, (k, g[j].1.push(f))) } else { g.push((k, seq![f])) }
}
/// "collect_fields only creates a Vec to push to it" (the comment at `fields[0]` in execute_selection_set)
pub open spec fn no_empty_group(g: Groups) -> bool { forall|i: int| 0 <= i < g.len() ==> (#[trigger] g[i]).1.len() > 0 }
pub broadcast proof fn lemma_group_push_keeps_groups_non_empty(g: Groups, k: Seq<char>, f: Field)
    requires no_empty_group(g) ensures no_empty_group(#[trigger] group_push(g, k, f))
{
    let j = gidx(g, k, g.len() as int);
    lemma_gidx_range(g, k, g.len() as int);
    assert forall|i: int| 0 <= i < group_push(g, k, f).len() implies (#[trigger] group_push(g, k, f)[i]).1.len() > 0 by {
        if j >= 0 { if i != j { assert(group_push(g, k, f)[i] == g[i]); } } else { if i < g.len() { assert(group_push(g, k, f)[i] == g[i]); } }
    }
}
pub proof fn lemma_gidx_range(g: Groups, k: Seq<char>, n: int)
    requires 0 <= n <= g.len() ensures -1 <= gidx(g, k, n) < n decreases n
{ if n > 0 { lemma_gidx_range(g, k, n - 1); } }
impl<'a> IndexMap<&'a Name, Vec<&'a Field>> {
    pub uninterp spec fn view(&self) -> Groups;
    // `map.entry(k).or_default().push(f)`
    #[verifier::external_body]
    pub fn entry_push(&mut self, k: &'a Name, f: &'a Field) ensures final(self)@ == group_push(old(self)@, k.key(), *f) { unimplemented!() }
}

// ---------------- specification: CollectFields ----------------
pub struct CF { pub visited: Set<Seq<char>>, pub grouped: Groups }
pub open spec fn opt_or(o: Option<bool>, d: bool) -> bool { match o { Some(b) => b, None => d } }
/// 3.a / 3.b: `@skip(if: true)` or `@include(if: false)`
pub open spec fn skipped(s: &Selection, vars: Map<Seq<char>, JsonValue>) -> bool {
    opt_or(if_argument(s, "skip"@, vars), false) || !opt_or(if_argument(s, "include"@, vars), true)
}
pub open spec fn response_key_of(f: Field) -> Seq<char> { match f.alias { Some(a) => a.key(), None => f.name.key() } }
pub open spec fn collect_sel(doc: &ExecutableDocument, schema: &Schema, obj: &ObjectType, vars: Map<Seq<char>, JsonValue>, s: Selection, st: CF, fuel: nat) -> CF
    decreases fuel, s
{
    if skipped(&s, vars) { st } else {
        match s {
            Selection::Field(f) => CF { visited: st.visited, grouped: group_push(st.grouped, response_key_of(*f.0), *f.0) },
            Selection::FragmentSpread(sp) => {
                let name = sp.0.fragment_name.key();
                if st.visited.contains(name) { st } else {
                    let st1 = CF { visited: st.visited.insert(name), grouped: st.grouped };
                    if !doc.fragments@.dom().contains(name) { st1 }
                    else {
                        let frag = doc.fragments@[name];
                        if !fragment_type_applies(schema, obj, &frag.0.selection_set.ty) { st1 }
                        else if fuel == 0 { st1 }
                        else { collect_seq(doc, schema, obj, vars, frag.0.selection_set.selections@, frag.0.selection_set.selections@.len() as int, st1, (fuel - 1) as nat) }
                    }
                }
            },
            Selection::InlineFragment(i) => {
                if i.0.type_condition is Some && !fragment_type_applies(schema, obj, &i.0.type_condition->0) { st }
                else { collect_seq(doc, schema, obj, vars, i.0.selection_set.selections@, i.0.selection_set.selections@.len() as int, st, fuel) }
            },
        }
    }
}
/// the first n selections, in order
pub open spec fn collect_seq(doc: &ExecutableDocument, schema: &Schema, obj: &ObjectType, vars: Map<Seq<char>, JsonValue>, v: Seq<Selection>, n: int, st: CF, fuel: nat) -> CF
    decreases fuel, v, n
{
    if n <= 0 || n > v.len() { st } else { collect_sel(doc, schema, obj, vars, v[n - 1], collect_seq(doc, schema, obj, vars, v, n - 1, st, fuel), fuel) }
}
/// how many fragment expansions can still happen: defined fragments not yet visited
pub open spec fn unvisited(doc: &ExecutableDocument, visited: Set<Seq<char>>) -> nat { (doc.fragments@.dom() - visited).len() }
pub proof fn lemma_unvisited_insert(doc: &ExecutableDocument, v: Set<Seq<char>>, n: Seq<char>)
    requires doc.fragments@.dom().contains(n), !v.contains(n)
    ensures unvisited(doc, v.insert(n)) + 1 == unvisited(doc, v)
{
    let d = doc.fragments@.dom();
    assert(d - v.insert(n) =~= (d - v).remove(n));
    assert((d - v).contains(n));
}
pub proof fn lemma_unvisited_mono(doc: &ExecutableDocument, v: Set<Seq<char>>, w: Set<Seq<char>>)
    requires v.subset_of(w)
    ensures unvisited(doc, w) <= unvisited(doc, v)
{
    let d = doc.fragments@.dom();
    vstd::set_lib::lemma_len_subset(d - w, d - v);
}
'''

ST = "(CF { visited: visited_fragments@, grouped: grouped_fields@ })"
ST0 = "(CF { visited: old(visited_fragments)@, grouped: old(grouped_fields)@ })"
ARGS = "&ctx.document.0, &ctx.schema.0, object_type, ctx.variable_values.0@"
U0 = "unvisited(&old(ctx).document.0, old(visited_fragments)@)"

# general facts for one iteration, stated before any branching so that EVERY way of leaving the iteration early (`continue`, in whatever syntactic form) is covered
# without a hint on its path: the one-step unfolding of the specification for all sufficient fuel, and "inserting a present element changes nothing"
START_FACTS = (
    "broadcast use lemma_group_push_keeps_groups_non_empty; let ghost v0 = visited_fragments@; let ghost g0 = grouped_fields@;\n"
    "proof {\n"
    "  let doc = &ctx.document.0; let schema = &ctx.schema.0; let vars = ctx.variable_values.0@; let v = selections@;\n"
    "  let sti = CF { visited: v0, grouped: g0 }; let st00 = CF { visited: old(visited_fragments)@, grouped: old(grouped_fields)@ };\n"
    "  assert forall|fuel: nat| fuel >= %s implies #[trigger] collect_seq(doc, schema, object_type, vars, v, __i + 1, st00, fuel) == collect_sel(doc, schema, object_type, vars, v[__i as int], sti, fuel) by {\n"
    "    assert(collect_seq(doc, schema, object_type, vars, v, __i as int, st00, fuel) == sti);\n"
    "  }\n"
    "  assert forall|n: Seq<char>| v0.contains(n) implies #[trigger] v0.insert(n) == v0 by { assert(v0.insert(n) =~= v0); }\n"
    "}") % U0

STEP_PROOF = (
    "proof {\n"
    "  let doc = &ctx.document.0; let schema = &ctx.schema.0; let vars = ctx.variable_values.0@; let v = selections@; let s = v[__i - 1];\n"
    "  let sti = CF { visited: v0, grouped: g0 }; let now = CF { visited: visited_fragments@, grouped: grouped_fields@ };\n"
    "  let st00 = CF { visited: old(visited_fragments)@, grouped: old(grouped_fields)@ };\n"
    "  lemma_unvisited_mono(doc, old(visited_fragments)@, v0);\n"
    "  reveal_strlit(\"skip\"); reveal_strlit(\"include\");\n"
    "  assert forall|fuel: nat| fuel >= %s implies now == #[trigger] collect_seq(doc, schema, object_type, vars, v, __i as int, st00, fuel) by {\n"
    "    assert(collect_seq(doc, schema, object_type, vars, v, __i - 1, st00, fuel) == sti);\n"
    "    assert(collect_seq(doc, schema, object_type, vars, v, __i as int, st00, fuel) == collect_sel(doc, schema, object_type, vars, s, sti, fuel));\n"
    "    if !skipped(&s, vars) {\n"
    "      match s {\n"
    "        Selection::Field(f) => { },\n"
    "        Selection::FragmentSpread(sp) => {\n"
    "          let name = sp.0.fragment_name.key();\n"
    "          if v0.contains(name) { assert(v0.insert(name) =~= v0); }\n"
    "          else if doc.fragments@.dom().contains(name) {\n"
    "            lemma_unvisited_insert(doc, v0, name);\n"
    "            let frag = doc.fragments@[name];\n"
    "            if fragment_type_applies(schema, object_type, &frag.0.selection_set.ty) {\n"
    "              let st1 = CF { visited: v0.insert(name), grouped: g0 }; let f1 = (fuel - 1) as nat;\n"
    "              assert(fuel > 0 && f1 >= unvisited(doc, v0.insert(name)));\n"
    "              assert(now == collect_seq(doc, schema, object_type, vars, frag.0.selection_set.selections@, frag.0.selection_set.selections@.len() as int, st1, f1));\n"
    "            }\n"
    "          }\n"
    "        },\n"
    "        Selection::InlineFragment(i) => {\n"
    "          if !(i.0.type_condition is Some && !fragment_type_applies(schema, object_type, &i.0.type_condition->0)) {\n"
    "            assert(fuel >= unvisited(doc, v0));\n"
    "            assert(now == collect_seq(doc, schema, object_type, vars, i.0.selection_set.selections@, i.0.selection_set.selections@.len() as int, sti, fuel));\n"
    "          }\n"
    "        },\n"
    "      }\n"
    "    }\n"
    "    assert(now == collect_sel(doc, schema, object_type, vars, s, sti, fuel));\n"
    "  }\n"
    "}") % U0

UNIT = {
    "name": "collect_fields",
    "properties": ["C26"],
    "parts": [
        PRELUDE,
    ] + [dict(p) for p in EX.UNIT["parts"] if isinstance(p, dict) and p.get("name") in ("directives", "does_fragment_type_apply", "eval_if_arg")] + [
        dict(file=EXM, kind="fn", name="response_key", container="Field", container_name="Field", wrap="impl Field", props=["C26"],
             clauses=[("ensures", "alias_else_name", "r.key() == response_key_of(*self)")]),
        dict(file=EXE, kind="fn", name="collect_fields", props=["C26"], n_loops=1, no_decreases=True,
             inline_helpers=["eval_if_arg", "does_fragment_type_apply"],
             rewrites=[("selections: impl IntoIterator<Item = &'a Selection>,", "selections: &'a Vec<Selection>,", 1),
                       ("for selection in selections {", "let mut __i: usize = 0; while __i < selections.len() { let selection = &selections[__i]; __i += 1;", 1),
                       ("SKIP_DIRECTIVE_NAME", '"skip"', None), ("INCLUDE_DIRECTIVE_NAME", '"include"', None),
                       (r"grouped_fields\s*\.entry\(([^()]*\(\))\)\s*\.or_default\(\)\s*\.push\(([^()]*\(\))\)", r"grouped_fields.entry_push(\1, \2)", 1, "re")],
             clauses=[("ensures", "context_untouched", "*final(ctx) == *old(ctx)"),
                      ("ensures", "visited_only_grows", "old(visited_fragments)@.subset_of(final(visited_fragments)@)"),
                      ("ensures", "no_group_is_empty", "no_empty_group(old(grouped_fields)@) ==> no_empty_group(final(grouped_fields)@)"),
                      ("ensures", "CollectFields",
                       "forall|fuel: nat| fuel >= %s ==> (CF { visited: final(visited_fragments)@, grouped: final(grouped_fields)@ }) == #[trigger] collect_seq(&old(ctx).document.0, &old(ctx).schema.0, object_type, old(ctx).variable_values.0@, selections@, selections@.len() as int, %s, fuel)" % (U0, ST0))],
             loops=[dict(invariant=[("bounds", "__i <= selections@.len()"),
                                    ("context_untouched", "*ctx == *old(ctx)"),
                                    ("visited_only_grows", "old(visited_fragments)@.subset_of(visited_fragments@)"),
                                    ("no_group_is_empty", "no_empty_group(old(grouped_fields)@) ==> no_empty_group(grouped_fields@)"),
                                    ("collected_so_far", "forall|fuel: nat| fuel >= %s ==> %s == #[trigger] collect_seq(%s, selections@, __i as int, %s, fuel)" % (U0, ST, ARGS, ST0))],
                         decreases="selections@.len() - __i")],
             hints=[("loop_body_start", 0, START_FACTS),
                    ("loop_body_end", 0, STEP_PROOF)]),
    ],
}
