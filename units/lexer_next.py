"""Unit `lexer_next` -- the link between unit `lexer` (which PROVES the contract of the state machine Cursor::advance) and unit
`parser_core` (which ASSUMES a contract for `<Lexer as Iterator>::next`): the real `Lexer::next`, `Lexer::new` and `Lexer::with_limit`
(crates/apollo-parser/src/lexer/mod.rs) are verified here against exactly the contract text parser_core assumes.

Assume / guarantee by SHARED TEXT: the clauses are Python constants with a single definition each.
  * `Cursor::advance` is external here; its requires / ensures are `lexer.ADV_REQ + lexer.ADV_POST + [lexer.KIND_POST]` -- the very
    clause list unit `lexer` discharges for the extracted body of `advance` -- plus "advance never yields a limit error" (frame check
    `only_lexer_next_makes_limit_errors`).
  * `NEXT_POST`, `NEW_POST`, `TOK_OK` defined below are imported by parser_core for its `Lexer` shim.
So lexer (Cursor primitives' ghost model => advance) + lexer_next (advance => Lexer::next) + parser_core (Lexer::next => whole parser)
compose without any statement being matched "by reading".

The abstract lexer state that parser_core talks about is defined here over the real fields:
  rest()    = the source from the cursor's token start on              fuel()  = 0 once finished, else remaining chars + 1
  limited() = the token limit was hit (high-water mark above the limit)  done()  = finished without having hit the limit (EOF handed out)
"""
import re
import lexer as LX
from limits import UNIT as LIMITS_UNIT

LEXER = "crates/apollo-parser/src/lexer/mod.rs"


def strip_proof_fns(text):
    """The lexer prelude without its lemmas (top-level `pub proof fn ..{..}` items removed mechanically): specification only."""
    out, i = [], 0
    for m in re.finditer(r"(?m)^pub (?:broadcast )?proof fn ", text):
        if m.start() < i:
            continue
        j = text.index("{", text.index(")", m.start()))
        # skip requires/ensures: the body is the first `{` at line start
        k = text.index("\n{", m.start())
        depth, e = 0, k + 1
        while True:
            if text[e] == "{":
                depth += 1
            elif text[e] == "}":
                depth -= 1
                if depth == 0:
                    break
            e += 1
        out.append(text[i:m.start()])
        i = e + 1
    out.append(text[i:])
    return "".join(out)


def clause_text(clauses):
    req = ["        %s," % c[2] for c in clauses if c[0] == "requires"]
    ens = ["        %s," % c[2] for c in clauses if c[0] == "ensures"]
    return ("    requires\n" + "\n".join(req) + "\n" if req else "") + ("    ensures\n" + "\n".join(ens) + "\n" if ens else "")


# ---- shared with parser_core (single definition) ----
TOK_OK = r'''/// what the lexer guarantees about a token's text as far as the parser relies on it: the EOF token is empty, a `{` token is the text "{"
pub open spec fn tok_ok(t: Token) -> bool { (t.kind is Eof ==> t.data@ =~= Seq::<char>::empty()) && (t.kind is LCurly ==> t.data@ =~= seq!['{']) }
'''
NEXT_POST = r'''            match r {
                None => *final(self) == *old(self)
                        && (old(self).limited() || (old(self).done() && old(self).rest() =~= Seq::<char>::empty())),
                Some(Ok(t)) => old(self).rest() == t.data@ + final(self).rest() && final(self).fuel() < old(self).fuel()
                        && !old(self).limited() && !final(self).limited() && !old(self).done() && (final(self).done() <==> t.kind is Eof)
                        && tok_ok(t) && (t.kind is Eof ==> final(self).rest() =~= Seq::<char>::empty()),
                Some(Err(e)) => old(self).rest() == e.data@ + final(self).rest() && final(self).fuel() < old(self).fuel()
                        && !old(self).limited() && (final(self).limited() <==> e.is_limit) && !old(self).done() && !final(self).done()
                        && (e.is_limit ==> e.data@ =~= Seq::<char>::empty()),
            }'''
NEW_POST = "r.rest() == input@, !r.limited(), !r.done()"

ADVANCE_SHIM = (
    "impl<'a> Cursor<'a> {\n"
    "    // Cursor::advance: PROVED in unit `lexer` for the extracted body, with exactly these clauses (shared constants)\n"
    "    #[verifier::external_body]\n"
    "    pub fn advance(&mut self) -> (r: Result<Token<'a>, Error>)\n"
    + clause_text(LX.ADV_REQ + LX.ADV_POST + [LX.KIND_POST]).replace("    ensures\n", "    ensures\n        %s,   // proved in unit lexer_strings (same clause text); the frame check only_lexer_next_makes_limit_errors stays as a second line of defence\n" % LX.NO_LIMIT_POST[2])
    + "    { unimplemented!() }\n"
    "    // Cursor::new (lexer/cursor.rs): a fresh cursor over the input.  A Rust string is at most isize::MAX bytes long.\n"
    "    #[verifier::external_body]\n"
    "    pub fn new(input: &'a str) -> (r: Cursor<'a>)\n"
    "        ensures r.source == input, r.err is None, r.m@ == (CM { chars: input@, start: 0, read: 0, pending: false, index_ok: true }),\n"
    "            byte_off(input@, input@.len() as int) <= usize::MAX, input@.len() < usize::MAX,\n"
    "    { unimplemented!() }\n"
    "}\n"
    "impl Error {\n"
    "    // crate::Error::limit: a limit error carries no text (error.rs: ErrorData::LimitExceeded, data() == \"\")\n"
    "    #[verifier::external_body]\n"
    "    pub fn limit(message: &str, index: usize) -> (r: Error) ensures r.is_limit, r.data@ =~= Seq::<char>::empty() { unimplemented!() }\n"
    "}\n"
    "impl<'a> Token<'a> {\n"
    "    pub fn kind(&self) -> (r: TokenKind) ensures r == self.kind { self.kind }\n"
    "}\n"
)

LEXER_SPEC = TOK_OK + r'''
impl<'a> Lexer<'a> {
    pub open spec fn rest(&self) -> Seq<char> { self.cursor.m@.chars.skip(self.cursor.m@.start as int) }
    pub open spec fn fuel(&self) -> nat { if self.finished { 0 } else { (self.cursor.m@.chars.len() - self.cursor.m@.start + 1) as nat } }
    pub open spec fn limited(&self) -> bool { self.limit_tracker.high > self.limit_tracker.limit }
    pub open spec fn done(&self) -> bool { self.finished && !self.limited() }
    /// representation invariant of the real Lexer (established by new / with_limit, kept by next)
    pub open spec fn lwf(&self) -> bool {
        &&& self.cursor.idle() && self.cursor.source@ == self.cursor.m@.chars
        &&& byte_off(self.cursor.m@.chars, self.cursor.m@.chars.len() as int) <= usize::MAX && self.cursor.m@.chars.len() < usize::MAX
        &&& self.limit_tracker.current <= self.limit_tracker.limit
        &&& (!self.limited() ==> self.limit_tracker.high == self.limit_tracker.current)
        &&& (self.limited() ==> self.finished)
        &&& (!self.finished ==> self.limit_tracker.current <= self.cursor.m@.start)     // every item handed out so far consumed at least one char
        &&& (self.done() ==> self.cursor.m@.start == self.cursor.m@.chars.len())       // EOF is handed out when the text is used up
    }
}
'''

lim = [p for p in LIMITS_UNIT["parts"] if isinstance(p, dict) and (p.get("container") == "LimitTracker" or p.get("name") == "LimitTracker")]
MUTSELF_1 = (r"\(mut self, ([^)]*)\)([^{]*)\{", r"(self_in: Self, \1)\2{ let mut this = self_in;", 1, "re")
MUTSELF_2 = (r"\bself\b", "this", None, "re")

UNIT = {
    "name": "lexer_next",
    "properties": ["C01", "C02", "C03"],
    "parts": [
        dict(file="crates/apollo-parser/src/lexer/token_kind.rs", kind="enum", name="TokenKind", attrs="#[derive(Clone, Copy, PartialEq, Eq, Structural)]"),
        dict(file="crates/apollo-parser/src/lexer/token.rs", kind="struct", name="Token", pub_fields=True),
        strip_proof_fns(LX.PRELUDE),
        dict(file=LEXER, kind="enum", name="State"),
        ADVANCE_SHIM,
    ] + lim + [
        dict(file=LEXER, kind="struct", name="Lexer", pub_fields=True),
        LEXER_SPEC,
        dict(file=LEXER, kind="fn", name="new", container=r"Lexer<'a>", container_name="Lexer", wrap="impl<'a> Lexer<'a>", props=["C01", "C02", "C03"],
             clauses=[("ensures", "representation_invariant", "r.lwf()"), ("ensures", "fresh_lexer_over_the_input", NEW_POST)]),
        dict(file=LEXER, kind="fn", name="with_limit", container=r"Lexer<'a>", container_name="Lexer", wrap="impl<'a> Lexer<'a>", props=["C01", "C02", "C04"],
             rewrites=[MUTSELF_1, MUTSELF_2],
             clauses=[("requires", "fresh", "self_in.lwf() && !self_in.finished && self_in.limit_tracker.current == 0"),
                      ("ensures", "representation_invariant", "r.lwf()"),
                      ("ensures", "only_the_limit_changes", "r.rest() == self_in.rest() && r.fuel() == self_in.fuel() && !r.limited() && r.done() == self_in.done() && r.limit_tracker.limit == limit")]),
        dict(file=LEXER, kind="fn", name="next", container=r"Iterator for Lexer<'a>", container_name="Lexer", wrap="impl<'a> Lexer<'a>", props=["C01", "C02", "C03"],
             rewrites=[("Option<Self::Item>", "Option<Result<Token<'a>, Error>>", 1)],
             clauses=[("requires", "representation_invariant", "old(self).lwf()"),
                      ("ensures", "representation_invariant", "final(self).lwf()"),
                      ("ensures", "the_lexer_contract_the_parser_assumes", NEXT_POST.strip())],
             ),
    ],
}
