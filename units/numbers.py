"""Unit `numbers` -- C10 (second sentence, the syntax half): an IntValue / FloatValue created from any i32 / any finite f64 is a valid
GraphQL literal.

Extracted verbatim from crates/apollo-compiler/src/ast/impls.rs: `<IntValue as From<i32>>::from`, `<FloatValue as From<f64>>::from`
(wrapped as inherent functions `from_i32` / `from_f64`: the trait impl header is not part of the body).

What std's number printing produces is ASSUMED (it is core::fmt code, out of reach): `i32::to_string()` is an optional `-` followed by
decimal digits without a leading zero (or the single digit 0); `f64::to_string()` of a FINITE value is such an integer part optionally
followed by `.` and at least one digit -- never an exponent (Display for f64 does not use scientific notation).  The contract then says
that what the function RETURNS matches the IntValue / FloatValue grammar, i.e. the `.0` is appended exactly when it is needed.
That the literal converts back to the same number is the round-trip guarantee of std's float printing / parsing and is NOT decided here.
"""
IMPLS = "crates/apollo-compiler/src/ast/impls.rs"

PRELUDE = r'''
// ---------------- specification: https://spec.graphql.org/October2021/#sec-Int-Value / #sec-Float-Value ----------------
pub open spec fn digit(c: char) -> bool { '0' <= c <= '9' }
pub open spec fn digits1(s: Seq<char>) -> bool { s.len() > 0 && forall|i: int| 0 <= i < s.len() ==> digit(#[trigger] s[i]) }
// IntegerPart :: NegativeSign? 0 | NegativeSign? NonZeroDigit Digit*
pub open spec fn int_unsigned(s: Seq<char>) -> bool { digits1(s) && (s.len() == 1 || s[0] != '0') }
pub open spec fn int_grammar(s: Seq<char>) -> bool { int_unsigned(s) || (s.len() > 1 && s[0] == '-' && int_unsigned(s.subrange(1, s.len() as int))) }
// FloatValue :: IntegerPart FractionalPart [ExponentPart] | IntegerPart ExponentPart ;  FractionalPart :: . Digit+
// (the exponent forms are never produced here)
pub open spec fn float_grammar_no_exponent(s: Seq<char>) -> bool {
    exists|a: Seq<char>, f: Seq<char>| int_grammar(a) && digits1(f) && s =~= #[trigger] (a + seq!['.'] + f)
}

// ---------------- assumed: what std prints ----------------
pub uninterp spec fn is_finite(v: f64) -> bool;
/// text of a finite f64 as printed by Display: IntegerPart, optionally `.` Digit+
pub open spec fn f64_display_shape(s: Seq<char>) -> bool { int_grammar(s) || float_grammar_no_exponent(s) }
// `value.to_string()` (listed rewrite: method -> function, the receiver's type decides which)
#[verifier::external_body]
pub fn f64_to_string(value: f64) -> (r: String) ensures is_finite(value) ==> f64_display_shape(r@) { unimplemented!() }
#[verifier::external_body]
pub fn i32_to_string(value: i32) -> (r: String) ensures int_grammar(r@) { unimplemented!() }
// `text.contains('.')` (listed rewrite): str::contains with a char pattern
#[verifier::external_body]
pub fn string_contains_char(s: &String, c: char) -> (r: bool) ensures r == s@.contains(c) { unimplemented!() }
// String::push_str appends
#[verifier::external_body]
pub fn string_push_str(s: &mut String, t: &str) ensures final(s)@ == old(s)@ + t@ { unimplemented!() }

pub struct IntValue(pub String);
pub struct FloatValue(pub String);

pub broadcast proof fn lemma_int_has_no_dot(s: Seq<char>)
    requires #[trigger] int_grammar(s)
    ensures !s.contains('.')
{
    if s.contains('.') {
        let i = choose|i: int| 0 <= i < s.len() && s[i] == '.';
        if int_unsigned(s) { assert(digit(s[i])); }
        else { let t = s.subrange(1, s.len() as int); if i == 0 { } else { assert(t[i - 1] == s[i]); assert(digit(t[i - 1])); } }
    }
}
pub broadcast proof fn lemma_float_has_dot(s: Seq<char>)
    requires #[trigger] float_grammar_no_exponent(s)
    ensures s.contains('.')
{
    let (a, f) = choose|a: Seq<char>, f: Seq<char>| int_grammar(a) && digits1(f) && s =~= #[trigger] (a + seq!['.'] + f);
    assert(s[a.len() as int] == '.');
}
// appending ".0" to an integer part gives IntegerPart FractionalPart
pub open spec fn dot_zero() -> Seq<char> { seq!['.', '0'] }
pub broadcast proof fn lemma_append_dot_zero(a: Seq<char>)
    requires int_grammar(a)
    ensures float_grammar_no_exponent(#[trigger] (a + dot_zero()))
{
    assert(digits1(seq!['0']));
    assert(a + dot_zero() =~= a + seq!['.'] + seq!['0']);
}
'''

UNIT = {
    "name": "numbers",
    "properties": ["C10"],
    "parts": [
        PRELUDE,
        dict(file=IMPLS, kind="fn", name="from", container="From<i32> for IntValue", container_name="IntValue", id="IntValue::from_i32", wrap="impl IntValue", props=["C10"],
             rewrites=[("value.to_string()", "i32_to_string(value)", 1)],
             clauses=[("ensures", "IntValue_grammar", "int_grammar(r.0@)")]),
        dict(file=IMPLS, kind="fn", name="from", container="From<f64> for FloatValue", container_name="FloatValue", id="FloatValue::from_f64", wrap="impl FloatValue", props=["C10"],
             rewrites=[("value.to_string()", "f64_to_string(value)", 1), ("text.contains('.')", "string_contains_char(&text, '.')", "*"),
                       ('text.push_str(', 'string_push_str(&mut text, ', "*")],
             clauses=[("requires", "finite", "is_finite(value)"),
                      ("ensures", "FloatValue_grammar", "float_grammar_no_exponent(r.0@)")],
             hints=[("body_start", None, 'broadcast use lemma_int_has_no_dot; broadcast use lemma_float_has_dot; broadcast use lemma_append_dot_zero; proof { reveal_strlit(".0"); assert(".0"@ =~= dot_zero()); }')]),
    ],
}
