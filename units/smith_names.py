"""Unit `smith_names` -- C32, KERNEL ONLY: `DocumentBuilder::type_name` (apollo-smith/src/name.rs), the function every generated type
definition gets its name from: the name it returns is NOT among the type names used so far, and it is recorded as used -- so no two generated
type definitions (and none already present in a parsed schema, whose names `with_schema` records) can collide, which is one of the things
"the generated document validates" rests on.

Extracted verbatim: struct Name, Name::new, DocumentBuilder::type_name.
Listed rewrites: `write!(new_name, "{base}{suffix}")` -> `write_base_suffix(&mut new_name, &base, suffix)` (opaque: WHAT the candidate looks like is not part
of the contract, only that the loop stops at an unused one); the impl header's lifetime is dropped, `DocumentBuilder` is a shim with the two fields the body uses.
Termination of the loop is not proved (exec_allows_no_decreases_clause), and `suffix += 1` not overflowing is ASSUMED through an explicit shim call inserted in front of it
(both need the same pigeonhole argument over the finite set of used names: at most |used| + 1 candidates are tried).
Shims (trusted): HashSet<String> as a set of texts; limited_string is opaque (it may fail with an arbitrary::Error or return any string).
NOT decided: everything else of C32 -- that the whole generator returns a document that parses and validates, and determinism.
"""
NM = "crates/apollo-smith/src/name.rs"

PRELUDE = r'''
pub struct ArbError;
pub type ArbitraryResult<T> = Result<T, ArbError>;
#[verifier::external_body]
pub struct StringSet { x: u8 }
impl StringSet {
    pub uninterp spec fn view(&self) -> Set<Seq<char>>;
    #[verifier::external_body]
    pub fn contains(&self, k: &str) -> (r: bool) ensures r == self@.contains(k@) { unimplemented!() }
    #[verifier::external_body]
    pub fn insert(&mut self, k: String) -> (r: bool) ensures final(self)@ == old(self)@.insert(k@), r == !old(self)@.contains(k@) { unimplemented!() }
}
pub struct DocumentBuilder { pub used_type_names: StringSet, pub u: u64 }
impl DocumentBuilder {
    #[verifier::external_body]
    pub fn limited_string(&mut self, max_size: usize) -> (r: ArbitraryResult<String>) ensures final(self).used_type_names == old(self).used_type_names { unimplemented!() }
}
#[verifier::external_body]
pub fn write_base_suffix(s: &mut String, base: &String, suffix: usize) { unimplemented!() }
// ASSUMED (not proved): the loop tries fewer than 2^64 candidates -- it stops at the latest after |used names| + 1 of them (pigeonhole), and a set holds fewer than 2^64 names
#[verifier::external_body]
pub fn fewer_than_usize_max_candidates_tried(suffix: usize) ensures suffix < usize::MAX { }
#[verifier::external_body]
pub fn string_clone(s: &String) -> (r: String) ensures r@ == s@ { unimplemented!() }
#[verifier::external_body]
pub fn string_clear(s: &mut String) { unimplemented!() }
#[verifier::external_body]
pub fn string_as_str(s: &String) -> (r: &str) ensures r@ == s@ { unimplemented!() }
'''

UNIT = {
    "name": "smith_names",
    "properties": ["C32"],
    "parts": [
        PRELUDE,
        dict(file=NM, kind="struct", name="Name", props=["C32"], pub_fields=True),
        dict(file=NM, kind="fn", name="new", container="Name", container_name="Name", wrap="impl Name", props=["C32"],
             rewrites=[("pub const fn new", "pub fn new", 1)],
             clauses=[("ensures", "wraps_the_text", "r.name == name")]),
        dict(file=NM, kind="fn", name="type_name", container="DocumentBuilder<'_>", container_name="DocumentBuilder", wrap="impl DocumentBuilder", props=["C32"],
             n_loops=1, no_decreases=True,
             rewrites=[("let _ = write!(new_name, \"{base}{suffix}\");", "write_base_suffix(&mut new_name, &base, suffix);", 1),
                       ("base.clone()", "string_clone(&base)", 1),
                       ("new_name.clone()", "string_clone(&new_name)", 1),
                       ("new_name.clear();", "string_clear(&mut new_name);", 1),
                       ("new_name.as_str()", "string_as_str(&new_name)", 1),
                       ("suffix += 1;", "fewer_than_usize_max_candidates_tried(suffix); suffix += 1;", "*")],
             clauses=[("ensures", "fresh_and_recorded", "r is Ok ==> !old(self).used_type_names@.contains(r->Ok_0.name@) && final(self).used_type_names@ == old(self).used_type_names@.insert(r->Ok_0.name@)"),
                      ("ensures", "nothing_recorded_on_failure", "r is Err ==> final(self).used_type_names == old(self).used_type_names")],
             loops=[dict(invariant=[("used_names_untouched", "self.used_type_names == old(self).used_type_names")])]),
    ],
}
