"""Unit `string_value` -- C06, KERNEL: `impl From<&cst::StringValue> for String`, the function through which the syntax tree exposes a string
value: it discharges `unescape_string`'s precondition AT ITS REAL CALL SITE from the C03 postcondition on the token's text.

Extracted verbatim from crates/apollo-parser/src/cst/node_ext.rs: is_block_string, `<String as From<&cst::StringValue>>::from`
(wrapped as the plain function `string_from_string_value`: the trait impl header is not part of the body).

Precondition (the comment in the code: "the lexer already guarantees that the string is valid"): the text of the node's first token is a
StringValue token the lexer returned without error, i.e. `is_quoted_string(t) || is_block_string_weak(t)` -- the shared TEXT of C03's
token_ok for StringValue (unit lexer).  That the tree hands back the lexer's token text is C02 (lossless tree), not re-proved here.

Proved: no slice panics (`&text[1..len-1]`, `&text[3..len-3]` are in range and on char boundaries -- the quotes are ASCII); a quoted string never
takes the block branch (a quoted literal cannot start with three quotes: lemma_second_char); `unescape_string` is called with a body that
satisfies its precondition `valid_body` (lemma_lexer_accepts_only_decodable_strings, proved in unit unescape), and therefore
the value returned for a quoted literal is `decoded(body)` (unescape_string's contract: ASSUMED here, PROVED in unit unescape -- same clause text).

Listed rewrites: `text_of_first_token(val.syntax())` kept, both callees shims (rowan); `&text` / `text.len()` / `&text[a..b]` ->
`text.as_str()` / `str_byte_len(text.as_str())` / `str_slice(text.as_str(), a, b)`; `input.starts_with(TRIPLE_QUOTE)` ->
`str_starts_with(input, "\"\"\"")` (the constant's value inlined: r#\"\"\"\"\"\"# is three quote characters).
Shims (trusted): byte-range slicing on char boundaries (as in unit lexer), str::len, str::starts_with; unescape_block_string opaque.
"""
import lexer as LX
import cursor as C
import unescape as UE

NE = "crates/apollo-parser/src/cst/node_ext.rs"

_u = [p for p in UE.UNIT["parts"] if isinstance(p, dict) and p.get("name") == "unescape_string"][0]
UNESCAPE_REQ = [c[2] for c in _u["clauses"] if c[0] == "requires"]
UNESCAPE_ENS = [c[2] for c in _u["clauses"] if c[0] == "ensures"]

_i = LX.PRELUDE.index("/// `&s[a..b]` (listed rewrite): panics unless")
_j = LX.PRELUDE.index("// ---------------- shims (trusted) ----------------")
STR_SLICE = LX.PRELUDE[_i:_j]

PRELUDE = (C.SPEC_BYTES.replace(STR_SLICE, "") + STR_SLICE + C.MONO + LX.section("hex") + LX.section("char_classes") + LX.section("string_grammar") + UE.DECODE_SPEC + UE.LINK + r'''
// ---------------- shims (trusted) ----------------
pub struct SyntaxNode { pub x: u64 }
pub mod cst { pub struct StringValue { pub node: super::SyntaxNode } }
impl cst::StringValue { pub fn syntax(&self) -> (r: &SyntaxNode) ensures *r == self.node { &self.node } }
pub struct TokenText { pub s: String }
impl TokenText {
    pub open spec fn view(&self) -> Seq<char> { self.s@ }
    #[verifier::external_body]
    pub fn as_str(&self) -> (r: &str) ensures r@ == self@ { unimplemented!() }
}
/// the text of the first token under a syntax node (rowan)
pub uninterp spec fn first_token_text(n: SyntaxNode) -> Seq<char>;
#[verifier::external_body]
pub fn text_of_first_token(node: &SyntaxNode) -> (r: TokenText) ensures r@ == first_token_text(*node) { unimplemented!() }
#[verifier::external_body]
pub fn str_byte_len(s: &str) -> (r: usize) ensures r == byte_off(s@, s@.len() as int) { unimplemented!() }
#[verifier::external_body]
pub fn str_starts_with(s: &str, p: &str) -> (r: bool) ensures r == (s@.len() >= p@.len() && s@.subrange(0, p@.len() as int) =~= p@) { unimplemented!() }
// unescape_string: contract PROVED in unit unescape (same clause text), assumed here
#[verifier::external_body]
pub fn unescape_string(input: &str) -> (r: String)
    requires @UNESCAPE_REQ@
    ensures @UNESCAPE_ENS@
{ unimplemented!() }
#[verifier::external_body]
pub fn unescape_block_string(raw_value: &str) -> (r: String) { unimplemented!() }

// ---------------- lemmas ----------------
/// a quoted literal cannot start with two quotes unless it is the empty string `""`
pub proof fn lemma_second_char(s: Seq<char>)
    ensures (q_body(s) || q_backslash(s)) ==> s.len() >= 2 && s[1] != '"',
            forall|rem: int| #[trigger] q_unicode(s, rem) ==> s.len() >= 3 && s[1] != '"',
    decreases s.len()
{
    reveal(q_open); reveal_with_fuel(q_body, 2); reveal_with_fuel(q_backslash, 2); reveal_with_fuel(q_unicode, 2);
    if s.len() >= 2 {
        let d = s.drop_last();
        lemma_second_char(d);
        if d.len() >= 2 { assert(d[1] == s[1]); }
        if q_body(s) && hexdigit(s.last()) && q_unicode(d, 1) { assert(d.len() >= 3); }
        assert forall|rem: int| #[trigger] q_unicode(s, rem) implies s.len() >= 3 && s[1] != '"' by {
            if rem == 4 { assert(q_backslash(d)); } else { assert(q_unicode(d, rem + 1)); }
        }
    }
}
pub proof fn lemma_quoted_is_not_block(s: Seq<char>)
    requires is_quoted_string(s)
    ensures !b_open(s)
{
    reveal(is_quoted_string); reveal(q_open);
    let d = s.drop_last();
    lemma_second_char(d);
    if s.len() >= 3 { assert(d[1] == s[1]); }
}
/// byte offsets around ASCII quotes at both ends
pub proof fn lemma_quote_offsets(s: Seq<char>, k: int)
    requires 0 <= k, 2 * k <= s.len(), forall|i: int| 0 <= i < k ==> #[trigger] s[i] == '"' && s[s.len() - 1 - i] == '"'
    ensures byte_off(s, k) == k, byte_off(s, s.len() - k) == byte_off(s, s.len() as int) - k, k <= byte_off(s, s.len() - k)
    decreases k
{
    if k > 0 {
        lemma_quote_offsets(s, k - 1);
        assert(byte_off(s, k) == byte_off(s, k - 1) + utf8_len(s[k - 1]));
        assert(byte_off(s, s.len() - k + 1) == byte_off(s, s.len() - k) + utf8_len(s[s.len() - k]));
        lemma_byte_off_monotone(s, k, s.len() - k);
    } else {
        lemma_byte_off_monotone(s, 0, s.len() as int);
    }
}
''').replace("@UNESCAPE_REQ@", ", ".join(UNESCAPE_REQ)).replace("@UNESCAPE_ENS@", ", ".join(UNESCAPE_ENS))

TOK = "first_token_text(val.node)"

UNIT = {
    "name": "string_value",
    "properties": ["C06"],
    "parts": [
        PRELUDE,
        dict(file=NE, kind="fn", name="is_block_string", props=["C06"],
             rewrites=[("input.starts_with(TRIPLE_QUOTE)", 'str_starts_with(input, "\\"\\"\\"")', 1)],
             clauses=[("ensures", "starts_with_three_quotes", "r == b_open(input@)")],
             hints=[("body_start", None, 'proof { reveal_strlit("\\"\\"\\""); let p = "\\"\\"\\""@; if input@.len() >= 3 { assert(input@.subrange(0, 3) =~= p <==> (input@[0] == \'"\' && input@[1] == \'"\' && input@[2] == \'"\')) by { if input@[0] == \'"\' && input@[1] == \'"\' && input@[2] == \'"\' { assert(input@.subrange(0, 3) =~= p); } else { assert(input@.subrange(0, 3)[0] == input@[0] && input@.subrange(0, 3)[1] == input@[1] && input@.subrange(0, 3)[2] == input@[2]); } } } }')]),
        dict(file=NE, kind="fn", name="from", container="From<&'_ cst::StringValue> for String", container_name="String", id="string_from_string_value", wrap=None, props=["C06"],
             rewrites=[("-> Self", "-> String", 1),
                       ("is_block_string(&text)", "is_block_string(text.as_str())", 1),
                       ("&text[3..text.len() - 3]", "str_slice(text.as_str(), 3, str_byte_len(text.as_str()) - 3)", 1),
                       ("&text[1..text.len() - 1]", "str_slice(text.as_str(), 1, str_byte_len(text.as_str()) - 1)", 1)],
             clauses=[("requires", "the_token_is_a_string_the_lexer_accepted", "is_quoted_string(%s) || is_block_string_weak(%s)" % (TOK, TOK)),
                      ("requires", "a_string_fits_the_address_space", "byte_off(%s, %s.len() as int) <= usize::MAX" % (TOK, TOK)),
                      ("ensures", "quoted_literal_decodes_to_the_spec_value", "is_quoted_string(%s) ==> r@ =~= decoded(%s.subrange(1, %s.len() - 1))" % (TOK, TOK, TOK))],
             hints=[("after", "let text = text_of_first_token(val.syntax());",
                     "proof { let s = text@; if is_quoted_string(s) { lemma_quoted_is_not_block(s); lemma_lexer_accepts_only_decodable_strings(s); lemma_quote_offsets(s, 1); } else { lemma_quote_offsets(s, 3); } }")]),
    ],
}
