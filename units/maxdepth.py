"""Unit `maxdepth` -- C25: the introspection depth limit does not depend on fragments.

Extracted: const MAX_LISTS_DEPTH, introspection::max_depth::check_selection_set,
introspection::check_max_depth.  The specification `D` is the nesting depth of the
four list-valued introspection fields with named and inline fragments EXPANDED, so
"same verdict with or without named fragments" is true by construction of the
spec and the postcondition `Err <=> depth >= 3` carries the property.
"""

PRELUDE = r'''
// ======================= shims (trusted) =======================
pub struct Name { pub text: String }
pub struct SourceSpan { pub x: u64 }
impl Name {
    pub open spec fn key(&self) -> Seq<char> { self.text@ }
    #[verifier::external_body]
    pub fn location(&self) -> Option<SourceSpan> { unimplemented!() }
    pub uninterp spec fn spec_str(&self) -> &str;
    #[verifier::external_body]
    pub fn as_str(&self) -> (r: &str) ensures r == self.spec_str() { unimplemented!() }
}
pub struct SelectionSet { pub selections: Vec<Selection> }
pub enum Selection {
    Field(Box<Field>),
    FragmentSpread(Box<FragmentSpread>),
    InlineFragment(Box<InlineFragment>),
}
pub struct Field { pub name: Name, pub selection_set: SelectionSet }
pub struct FragmentSpread { pub fragment_name: Name }
impl FragmentSpread {
    #[verifier::external_body]
    pub fn location(&self) -> Option<SourceSpan> { unimplemented!() }
}
pub struct InlineFragment { pub selection_set: SelectionSet }
pub struct Fragment { pub selection_set: SelectionSet }

#[verifier::external_body]
pub struct FragmentMap { x: u8 }
impl FragmentMap {
    pub uninterp spec fn view(&self) -> Map<Seq<char>, Fragment>;
    #[verifier::external_body]
    pub fn get(&self, k: &Name) -> (r: Option<&Fragment>)
        ensures match r {
            Some(f) => self@.dom().contains(k.key()) && *f == self@[k.key()],
            None => !self@.dom().contains(k.key()),
        }
    { unimplemented!() }
}
pub struct ExecutableDocument { pub fragments: FragmentMap }
pub struct Valid<T>(pub T);
impl<T> core::ops::Deref for Valid<T> {
    type Target = T;
    fn deref(&self) -> (r: &T) ensures *r == self.0 { &self.0 }
}
pub struct RequestError {
    pub message: String,
    pub location: Option<SourceSpan>,
    pub is_suspected_validation_bug: bool,
}
#[verifier::external_body]
#[verifier::reject_recursive_types(K)]
#[verifier::reject_recursive_types(V)]
pub struct HashMap<K, V> { k: core::marker::PhantomData<(K, V)> }
impl<'a> HashMap<&'a Name, u32> {
    pub uninterp spec fn view(&self) -> Map<Seq<char>, u32>;
    #[verifier::external_body]
    pub fn get(&self, k: &Name) -> (r: Option<&u32>)
        ensures match r {
            Some(v) => self@.dom().contains(k.key()) && *v == self@[k.key()],
            None => !self@.dom().contains(k.key()),
        }
    { unimplemented!() }
    #[verifier::external_body]
    pub fn insert(&mut self, k: &'a Name, v: u32) -> (r: Option<u32>)
        ensures final(self)@ == old(self)@.insert(k.key(), v)
    { unimplemented!() }
}
fn test_max(a: u32, b: u32) -> (r: u32) ensures r == (if a >= b { a } else { b }) { a.max(b) }

// ======================= specification =======================
pub open spec fn listy(n: &Name) -> bool {
    n.spec_str() == "fields" || n.spec_str() == "interfaces"
        || n.spec_str() == "possibleTypes" || n.spec_str() == "inputFields"
}

pub uninterp spec fn rank(doc: &ExecutableDocument, name: Seq<char>) -> nat;

pub open spec fn max2(a: nat, b: nat) -> nat { if a >= b { a } else { b } }

// 1 + the largest rank of a fragment spread anywhere below (0 if there is none)
pub open spec fn sel_rank(doc: &ExecutableDocument, s: Selection) -> nat decreases s {
    match s {
        Selection::Field(f) => ss_rank(doc, f.selection_set),
        Selection::InlineFragment(i) => ss_rank(doc, i.selection_set),
        Selection::FragmentSpread(sp) =>
            if doc.fragments@.dom().contains(sp.fragment_name.key()) { rank(doc, sp.fragment_name.key()) + 1 } else { 0 },
    }
}
pub open spec fn ss_rank(doc: &ExecutableDocument, ss: SelectionSet) -> nat decreases ss {
    seq_rank(doc, ss.selections@, ss.selections@.len() as int)
}
pub open spec fn seq_rank(doc: &ExecutableDocument, v: Seq<Selection>, n: int) -> nat decreases v, n {
    if n <= 0 || n > v.len() { 0 } else { max2(seq_rank(doc, v, n - 1), sel_rank(doc, v[n - 1])) }
}

pub open spec fn acyclic(doc: &ExecutableDocument) -> bool {
    forall|k: Seq<char>| #[trigger] doc.fragments@.dom().contains(k)
        ==> ss_rank(doc, doc.fragments@[k].selection_set) <= rank(doc, k)
}

// nesting depth of list-valued introspection fields with fragments expanded.
// `fuel` bounds fragment expansion; with acyclic(doc) any fuel >= ss_rank gives the same value.
pub open spec fn sel_depth(doc: &ExecutableDocument, s: Selection, fuel: nat) -> nat decreases fuel, s {
    match s {
        Selection::Field(f) => (if listy(&f.name) { 1nat } else { 0nat }) + ss_depth(doc, f.selection_set, fuel),
        Selection::InlineFragment(i) => ss_depth(doc, i.selection_set, fuel),
        Selection::FragmentSpread(sp) =>
            if doc.fragments@.dom().contains(sp.fragment_name.key()) && fuel > 0 {
                ss_depth(doc, doc.fragments@[sp.fragment_name.key()].selection_set, (fuel - 1) as nat)
            } else { 0 },
    }
}
pub open spec fn ss_depth(doc: &ExecutableDocument, ss: SelectionSet, fuel: nat) -> nat decreases fuel, ss {
    seq_depth(doc, ss.selections@, ss.selections@.len() as int, fuel)
}
pub open spec fn seq_depth(doc: &ExecutableDocument, v: Seq<Selection>, n: int, fuel: nat) -> nat decreases fuel, v, n {
    if n <= 0 || n > v.len() { 0 } else { max2(seq_depth(doc, v, n - 1, fuel), sel_depth(doc, v[n - 1], fuel)) }
}


// canonical depth: expansion fuel = own rank
pub open spec fn D(doc: &ExecutableDocument, ss: SelectionSet) -> nat { ss_depth(doc, ss, ss_rank(doc, ss)) }

pub open spec fn memo_ok(doc: &ExecutableDocument, m: Map<Seq<char>, u32>) -> bool {
    forall|k: Seq<char>| #[trigger] m.dom().contains(k) ==>
        doc.fragments@.dom().contains(k) && m[k] as nat == D(doc, doc.fragments@[k].selection_set) && m[k] < 3
}

// ---------- lemmas ----------
pub proof fn lemma_seq_rank_elem(doc: &ExecutableDocument, v: Seq<Selection>, n: int, i: int)
    requires 0 <= i < n <= v.len()
    ensures sel_rank(doc, v[i]) <= seq_rank(doc, v, n)
    decreases n
{
    if i < n - 1 { lemma_seq_rank_elem(doc, v, n - 1, i); }
}
pub proof fn lemma_seq_depth_elem(doc: &ExecutableDocument, v: Seq<Selection>, n: int, i: int, fuel: nat)
    requires 0 <= i < n <= v.len()
    ensures sel_depth(doc, v[i], fuel) <= seq_depth(doc, v, n, fuel)
    decreases n
{
    if i < n - 1 { lemma_seq_depth_elem(doc, v, n - 1, i, fuel); }
}

// stability of the depth w.r.t. fuel above the rank
pub proof fn lemma_stable_sel(doc: &ExecutableDocument, s: Selection, f1: nat, f2: nat)
    requires acyclic(doc), f1 >= sel_rank(doc, s), f2 >= sel_rank(doc, s)
    ensures sel_depth(doc, s, f1) == sel_depth(doc, s, f2)
    decreases f1, s
{
    match s {
        Selection::Field(f) => { lemma_stable_ss(doc, f.selection_set, f1, f2); }
        Selection::InlineFragment(i) => { lemma_stable_ss(doc, i.selection_set, f1, f2); }
        Selection::FragmentSpread(sp) => {
            let k = sp.fragment_name.key();
            if doc.fragments@.dom().contains(k) {
                lemma_stable_ss(doc, doc.fragments@[k].selection_set, (f1 - 1) as nat, (f2 - 1) as nat);
            }
        }
    }
}
pub proof fn lemma_stable_ss(doc: &ExecutableDocument, ss: SelectionSet, f1: nat, f2: nat)
    requires acyclic(doc), f1 >= ss_rank(doc, ss), f2 >= ss_rank(doc, ss)
    ensures ss_depth(doc, ss, f1) == ss_depth(doc, ss, f2)
    decreases f1, ss
{
    lemma_stable_seq(doc, ss.selections@, ss.selections@.len() as int, f1, f2);
}
pub proof fn lemma_stable_seq(doc: &ExecutableDocument, v: Seq<Selection>, n: int, f1: nat, f2: nat)
    requires acyclic(doc), 0 <= n <= v.len(), f1 >= seq_rank(doc, v, n), f2 >= seq_rank(doc, v, n)
    ensures seq_depth(doc, v, n, f1) == seq_depth(doc, v, n, f2)
    decreases f1, v, n
{
    if n > 0 {
        lemma_stable_seq(doc, v, n - 1, f1, f2);
        lemma_stable_sel(doc, v[n - 1], f1, f2);
    }
}



impl<'a> HashMap<&'a Name, u32> {
    #[verifier::external_body]
    pub fn default() -> (r: Self) ensures r@ == Map::<Seq<char>, u32>::empty() { unimplemented!() }
}
pub struct Operation { pub selection_set: SelectionSet }
'''

FOR_OLD = "for selection in &selection_set.selections {"
FOR_NEW = """let mut __i: usize = 0;
    while __i < selection_set.selections.len() {
        let selection = &selection_set.selections[__i];
        __i += 1;"""

UNIT = {
    "name": "maxdepth",
    "properties": ["C25"],
    "parts": [
        PRELUDE,
        dict(file="crates/apollo-compiler/src/introspection/max_depth.rs", kind="const", name="MAX_LISTS_DEPTH"),
        dict(file="crates/apollo-compiler/src/introspection/max_depth.rs", kind="fn", name="check_selection_set",
             ret="res", n_loops=1,
             rewrites=[(FOR_OLD, FOR_NEW, 1)],
             clauses=[
                 ("requires", "acyclic", "acyclic(&document.0)"),
                 ("requires", "depth_so_far", "depth_so_far < 3"),
                 ("requires", "memo_ok", "memo_ok(&document.0, old(fragment_depths)@)"),
                 ("ensures", "ok_is_exact_depth_below_3", "res is Ok ==> res->Ok_0 as nat == depth_so_far as nat + D(&document.0, *selection_set) && res->Ok_0 < 3 && memo_ok(&document.0, final(fragment_depths)@)"),
                 ("ensures", "err_iff_depth_at_least_3", "res is Err ==> depth_so_far as nat + D(&document.0, *selection_set) >= 3"),
                 ("decreases", None, "ss_rank(&document.0, *selection_set), *selection_set"),
             ],
             hints=[
                 ("after", "let mut max_depth = depth_so_far;",
                  "let ghost doc = &document.0;\n    let ghost v = selection_set.selections@;\n    let ghost fuel = ss_rank(doc, *selection_set);"),
                 ("after", "__i += 1;",
                  "proof { lemma_seq_rank_elem(doc, v, v.len() as int, __i - 1); lemma_seq_depth_elem(doc, v, v.len() as int, __i - 1, fuel); }"),
                 ("after", "Selection::InlineFragment(inline) => {",
                  "proof { lemma_stable_ss(doc, inline.selection_set, fuel, ss_rank(doc, inline.selection_set)); }"),
                 ("after", "Selection::FragmentSpread(spread) => {",
                  "proof { let k = spread.fragment_name.key(); if doc.fragments@.dom().contains(k) { lemma_stable_ss(doc, doc.fragments@[k].selection_set, (fuel - 1) as nat, ss_rank(doc, doc.fragments@[k].selection_set)); } }"),
                 ("after", "Selection::Field(field) => {",
                  "proof { lemma_stable_ss(doc, field.selection_set, fuel, ss_rank(doc, field.selection_set)); }"),
             ],
             loops=[dict(
                 invariant=[
                     ("ghost_bindings", "doc == &document.0, v == selection_set.selections@, fuel == ss_rank(doc, *selection_set)"),
                     ("frame", "acyclic(doc), depth_so_far < 3, 0 <= __i <= v.len()"),
                     ("max_depth_is_depth_of_prefix", "max_depth as nat == depth_so_far as nat + seq_depth(doc, v, __i as int, fuel)"),
                     ("below_limit", "max_depth < 3"),
                     ("memo_ok", "memo_ok(doc, fragment_depths@)"),
                 ],
                 decreases="v.len() - __i",
             )],
             props=["C25"]),
        dict(file="crates/apollo-compiler/src/introspection/mod.rs", kind="fn", name="check_max_depth", ret="res",
             rewrites=[("max_depth::check_selection_set(", "check_selection_set(", 1),
                       (".map(drop)", ".map_drop()", 1)],
             clauses=[
                 ("requires", "acyclic", "acyclic(&document.0)"),
                 ("ensures", "rejects_iff_expanded_depth_at_least_3", "res is Err <==> D(&document.0, operation.selection_set) >= 3"),
             ],
             props=["C25"]),
        r'''
// Result::map(drop) desugared (listed rewrite): discards the Ok payload, keeps Err.
pub trait MapDrop { type Out; spec fn is_err_spec(&self) -> bool; fn map_drop(self) -> Self::Out; }
impl MapDrop for Result<u32, RequestError> {
    type Out = Result<(), RequestError>;
    open spec fn is_err_spec(&self) -> bool { self is Err }
    fn map_drop(self) -> (r: Result<(), RequestError>)
        ensures (r is Err) == (self is Err)
    { match self { Ok(_) => Ok(()), Err(e) => Err(e) } }
}

// ---------------- property-level lemma ----------------
// "writing the same selections with or without named fragments never changes the verdict":
// the depth of a spread of fragment k equals the depth of an inline fragment holding k's body.
pub proof fn lemma_spread_equals_inlined(doc: &ExecutableDocument, sp: FragmentSpread, inl: InlineFragment, fuel: nat)
    requires
        acyclic(doc),
        doc.fragments@.dom().contains(sp.fragment_name.key()),
        inl.selection_set == doc.fragments@[sp.fragment_name.key()].selection_set,
        fuel > rank(doc, sp.fragment_name.key()),
    ensures
        sel_depth(doc, Selection::FragmentSpread(Box::new(sp)), fuel) == sel_depth(doc, Selection::InlineFragment(Box::new(inl)), fuel)
{
    let k = sp.fragment_name.key();
    lemma_stable_ss(doc, doc.fragments@[k].selection_set, (fuel - 1) as nat, fuel);
}
''',
    ],
}
