"""Unit `input_cycles` -- C21, KERNEL: the search for circular input-object references (validation/input_object.rs,
`FindRecursiveInputValue::{input_value_definition, input_object_definition, check}`) never panics and never recurses deeper than the
recursion limit, for every schema -- cyclic, self-referential, or mutually recursive through thousands of types.

Extracted verbatim: the three functions; enum ast::Type.

What is proved
  * `RecursionGuard::push` is never called with a name that is already on the path (its `debug_assert!`: "cannot push the same name twice to
    RecursionGuard, check contains() first" -- a panic in debug builds, and in release builds the duplicate insert would leave the set's size
    unchanged, so the limit would never fire: unbounded recursion);
  * the recursion terminates: `decreases limit + 1 - path length` -- every descent pushes one more name and `push` fails once the limit is
    exceeded, so the depth of the mutual recursion is at most the limit (32), whatever the schema;
  * the path seen by the caller is the same after the call (the pushed name is gone again).

RecursionGuard / RecursionStack are a MODEL here (trusted shim, written from validation/mod.rs): a guard is its path (the names pushed so far) and the
limit; `push` returns a guard for the extended path, or Err once the path is longer than the limit; dropping that guard pops the name, which the
model expresses as "the receiver is unchanged by push" (the returned guard mutably borrows the receiver, so it cannot be observed in between).
Listed rewrites: `for v in map.values()` -> the index loop it desugars to; `seen.first() == Some(name)` -> `first_is(seen, name)` (Option<&Name>
equality); `crate::Schema` -> the shim; `.map_err(|err| err.trace(def))` -> `.map_err(|err: CycleError<..>| -> (r: CycleError<..>) { err.trace(def) })`
(parameter and result types spelled out, and `ensures` that the kind of error is kept); `seen.push(name)?` -> the `match .. { Err(e) => return Err(From::from(e)) }` it desugars to.
NOT decided: that a cycle is REPORTED exactly when there is one (graph reachability; the seeded changes C14-2 / C15-1 are therefore missed).
"""
IO = "crates/apollo-compiler/src/validation/input_object.rs"

PRELUDE = r'''
// ---------------- shims (trusted) ----------------
#[derive(PartialEq, Eq, Structural)]
pub struct Name { pub id: u64 }
impl Clone for Name { fn clone(&self) -> (r: Self) ensures r == *self { Name { id: self.id } } }
pub type NamedType = Name;
pub struct Node<T>(pub Box<T>);
impl<T> core::ops::Deref for Node<T> {
    type Target = T;
    fn deref(&self) -> (r: &T) ensures *r == *self.0 { &*self.0 }
}
impl<T> Clone for Node<T> {
    #[verifier::external_body]
    fn clone(&self) -> (r: Self) ensures r == *self { unimplemented!() }
}
pub struct Value { pub x: u64 }
pub struct InputValueDefinition { pub ty: Node<Type>, pub default_value: Option<Node<Value>> }
pub mod ast { pub use super::{Type, InputValueDefinition}; }
#[verifier::external_body]
pub struct FieldsMap { x: u8 }
impl FieldsMap {
    pub uninterp spec fn values_seq(&self) -> Seq<Node<InputValueDefinition>>;
    #[verifier::external_body]
    pub fn len(&self) -> (r: usize) ensures r == self.values_seq().len() { unimplemented!() }
    // the i-th item of `map.values()` (listed rewrite of the for loop)
    #[verifier::external_body]
    pub fn value_at(&self, i: usize) -> (r: &Node<InputValueDefinition>) requires i < self.values_seq().len() ensures *r == self.values_seq()[i as int] { unimplemented!() }
}
pub struct InputObjectType { pub name: Name, pub fields: FieldsMap }
pub struct SchemaShim { pub x: u64 }
pub mod crate_ { pub type Schema = super::SchemaShim; }
impl SchemaShim {
    /// the input object type with that name, if the name is defined and is an input object
    pub uninterp spec fn input_object(&self, name: Name) -> Option<Node<InputObjectType>>;
    #[verifier::external_body]
    pub fn get_input_object(&self, name: &Name) -> (r: Option<&Node<InputObjectType>>)
        ensures match r { Some(o) => self.input_object(*name) == Some(*o), None => self.input_object(*name) is None }
    { unimplemented!() }
}
pub struct RecursionLimitError {}
pub enum CycleError<T> { Recursed(Vec<Node<T>>), Limit(RecursionLimitError) }
impl<T> CycleError<T> {
    // appends the node to a Recursed trace; the kind of error is kept
    #[verifier::external_body]
    pub fn trace(self, node: &Node<T>) -> (r: Self) ensures (r is Recursed) == (self is Recursed), (r is Limit) == (self is Limit) { unimplemented!() }
}
impl<T> vstd::std_specs::convert::FromSpecImpl<RecursionLimitError> for CycleError<T> {
    open spec fn obeys_from_spec() -> bool { true }
    open spec fn from_spec(v: RecursionLimitError) -> Self { CycleError::Limit(v) }
}
impl<T> From<RecursionLimitError> for CycleError<T> {
    fn from(v: RecursionLimitError) -> (r: Self) { CycleError::Limit(v) }
}

// ---- MODEL of validation::RecursionStack / RecursionGuard (validation/mod.rs) ----
pub struct RecursionStack { pub path: Ghost<Seq<Name>>, pub limit: Ghost<nat> }
pub struct RecursionGuard<'a> { pub path: Ghost<Seq<Name>>, pub limit: Ghost<nat>, pub p: core::marker::PhantomData<&'a ()> }
impl RecursionStack {
    // RecursionStack::with_root: the set holds the root name, limit = DEFAULT_RECURSION_LIMIT = 32
    #[verifier::external_body]
    pub fn with_root(root: Name) -> (r: Self) ensures r.path@ == seq![root], r.limit@ == 32 { unimplemented!() }
    #[verifier::external_body]
    pub fn with_limit(self, limit: usize) -> (r: Self) ensures r.path@ == self.path@, r.limit@ == limit { unimplemented!() }
    #[verifier::external_body]
    pub fn guard(&mut self) -> (r: RecursionGuard<'_>) ensures r.path@ == old(self).path@, r.limit@ == old(self).limit@ { unimplemented!() }
}
impl RecursionGuard<'_> {
    // inserts the name (debug_assert!: it must be new), updates the high-water mark, fails once the set is larger than the limit;
    // the returned guard pops the name when it is dropped
    #[verifier::external_body]
    pub fn push(&mut self, name: &Name) -> (r: Result<RecursionGuard<'_>, RecursionLimitError>)
        requires !old(self).path@.contains(*name)
        ensures final(self).path@ == old(self).path@, final(self).limit@ == old(self).limit@,
                r is Ok ==> r->Ok_0.path@ == old(self).path@.push(*name) && r->Ok_0.limit@ == old(self).limit@ && old(self).path@.len() + 1 <= old(self).limit@,
                r is Err ==> old(self).path@.len() + 1 > old(self).limit@
    { unimplemented!() }
    #[verifier::external_body]
    pub fn contains(&self, name: &Name) -> (r: bool) ensures r == self.path@.contains(*name) { unimplemented!() }
}
// `seen.first() == Some(name)`
#[verifier::external_body]
pub fn first_is(seen: &RecursionGuard<'_>, name: &Name) -> (r: bool) ensures r == (seen.path@.len() > 0 && seen.path@[0] == *name) { unimplemented!() }

// ---------------- specification: Circular References (https://spec.graphql.org/October2021/#sec-Input-Objects.Circular-References) ----------------
// "If an Input Object references itself either directly or through referenced Input Objects, at least one of the fields in the chain of references must be
//  either a nullable or a List type."  The chain: non-null singular fields whose type is an input object.  `path` = the chain so far, path[0] = the type being checked.
/// following this field leads back to path[0] along names not yet on the path (within `fuel` more steps: the recursion limit)
pub open spec fn field_closes_a_cycle(s: &SchemaShim, path: Seq<Name>, d: InputValueDefinition, fuel: nat) -> bool decreases fuel, 0int, 0int {
    match *d.ty.0 {
        Type::NonNullNamed(n) =>
            if path.contains(n) { path.len() > 0 && path[0] == n }
            else { s.input_object(n) is Some && fuel > 0 && object_closes_a_cycle(s, path.push(n), *(s.input_object(n)->0).0, 0, (fuel - 1) as nat) },
        _ => false,
    }
}
/// one of the fields from index i on does (written as a recursion over the index: a quantifier over a recursive call cannot be unfolded by the solver)
pub open spec fn object_closes_a_cycle(s: &SchemaShim, path: Seq<Name>, o: InputObjectType, i: int, fuel: nat) -> bool decreases fuel, 1int, o.fields.values_seq().len() - i {
    0 <= i < o.fields.values_seq().len() && (field_closes_a_cycle(s, path, *o.fields.values_seq()[i].0, fuel) || object_closes_a_cycle(s, path, o, i + 1, fuel))
}
pub struct FindRecursiveInputValue<'a> { pub schema: &'a crate_::Schema }
/// how many more names may be pushed before `push` fails
pub open spec fn room(g: &RecursionGuard<'_>) -> int { g.limit@ + 1 - g.path@.len() }
'''

W = "impl FindRecursiveInputValue<'_>"
UNIT = {
    "name": "input_cycles",
    "properties": ["C21", "C14", "C15"],
    "parts": [
        PRELUDE,
        dict(file="crates/apollo-compiler/src/ast/mod.rs", kind="enum", name="Type", props=["C21"]),
        # present so that code routed through them is judged (a seeded change adds `if def.is_required()`), not rejected as unknown
        dict(file="crates/apollo-compiler/src/ast/impls.rs", kind="fn", name="is_non_null", container="Type", container_name="Type", wrap="impl Type", props=["C14", "C15"],
             clauses=[("ensures", "is_non_null", "r == (self is NonNullNamed || self is NonNullList)")]),
        dict(file="crates/apollo-compiler/src/ast/impls.rs", kind="fn", name="is_required", container="InputValueDefinition", container_name="InputValueDefinition", wrap="impl InputValueDefinition", props=["C14", "C15"],
             clauses=[("ensures", "required", "r == ((*self.ty.0 is NonNullNamed || *self.ty.0 is NonNullList) && self.default_value is None)")]),
        dict(file=IO, kind="fn", name="input_value_definition", container="FindRecursiveInputValue<'_>", container_name="FindRecursiveInputValue", wrap=W, props=["C21"],
             rewrites=[("seen.first() == Some(name)", "first_is(seen, name)", 1),
                       # the language's own desugaring of `?` on an error of another type (Verus does not carry the converted value through `?`)
                       ("seen.push(name)?", "(match seen.push(name) { Ok(__g) => __g, Err(__e) => return Err(CycleError::from(__e)) })", 1),
                       (".map_err(|err| err.trace(def))", ".map_err(|err: CycleError<ast::InputValueDefinition>| -> (r: CycleError<ast::InputValueDefinition>) ensures (r is Recursed) == (err is Recursed) { err.trace(def) })", "*")],
             clauses=[("requires", "within_the_limit", "old(seen).path@.len() <= old(seen).limit@"),
                      ("ensures", "path_restored", "final(seen).path@ == old(seen).path@ && final(seen).limit@ == old(seen).limit@"),
                      ("ensures", "no_error_means_no_cycle_through_this_field", "r is Ok ==> !field_closes_a_cycle(self.schema, old(seen).path@, *def.0, (old(seen).limit@ - old(seen).path@.len()) as nat)", ["C14", "C15"]),
                      ("ensures", "a_reported_cycle_exists", "(r is Err && r->Err_0 is Recursed) ==> field_closes_a_cycle(self.schema, old(seen).path@, *def.0, (old(seen).limit@ - old(seen).path@.len()) as nat)", ["C14", "C15"]),
                      ("decreases", None, "old(seen).limit@ + 1 - old(seen).path@.len(), 0int")]),
        dict(file=IO, kind="fn", name="input_object_definition", container="FindRecursiveInputValue<'_>", container_name="FindRecursiveInputValue", wrap=W, props=["C21"], n_loops=1,
             rewrites=[("mut seen: RecursionGuard<'_>,", "seen0: RecursionGuard<'_>,", 1),      # alpha-renaming of a `mut` by-value parameter: `let mut seen = seen0;` is added at the start of the body
                       (") -> Result<(), CycleError<ast::InputValueDefinition>> {\n        for input_value", ") -> Result<(), CycleError<ast::InputValueDefinition>> {\n        let mut seen = seen0;\n        for input_value", 1),
                       ("for input_value in input_object.fields.values() {", "let mut __i: usize = 0; while __i < input_object.fields.len() { let input_value = input_object.fields.value_at(__i); __i += 1;", 1)],
             clauses=[("requires", "within_the_limit", "seen0.path@.len() <= seen0.limit@"),
                      ("ensures", "no_error_means_no_cycle_through_this_object", "r is Ok ==> !object_closes_a_cycle(self.schema, seen0.path@, *input_object, 0, (seen0.limit@ - seen0.path@.len()) as nat)", ["C14", "C15"]),
                      ("ensures", "a_reported_cycle_exists", "(r is Err && r->Err_0 is Recursed) ==> object_closes_a_cycle(self.schema, seen0.path@, *input_object, 0, (seen0.limit@ - seen0.path@.len()) as nat)", ["C14", "C15"]),
                      ("decreases", None, "seen0.limit@ + 1 - seen0.path@.len(), 1int")],
             loops=[dict(invariant=[("bounds", "__i <= input_object.fields.values_seq().len()"),
                                    ("path_kept", "seen.path@ == seen0.path@ && seen.limit@ == seen0.limit@ && seen0.path@.len() <= seen0.limit@"),
                                    ("no_cycle_through_the_fields_so_far", "object_closes_a_cycle(self.schema, seen0.path@, *input_object, 0, (seen0.limit@ - seen0.path@.len()) as nat) == object_closes_a_cycle(self.schema, seen0.path@, *input_object, __i as int, (seen0.limit@ - seen0.path@.len()) as nat)", ["C14", "C15"])],
                         decreases="input_object.fields.values_seq().len() - __i")]),
        dict(file=IO, kind="fn", name="check", container="FindRecursiveInputValue<'_>", container_name="FindRecursiveInputValue", wrap=W, props=["C21"],
             rewrites=[("schema: &crate::Schema", "schema: &crate_::Schema", 1)],
             clauses=[("ensures", "no_error_means_the_type_is_on_no_cycle", "r is Ok ==> !object_closes_a_cycle(schema, seq![input_object.name], *input_object, 0, 31)", ["C14", "C15"]),
                      ("ensures", "a_reported_cycle_exists", "(r is Err && r->Err_0 is Recursed) ==> object_closes_a_cycle(schema, seq![input_object.name], *input_object, 0, 31)", ["C14", "C15"])]),
    ],
}
