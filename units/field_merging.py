"""Unit `field_merging` -- C17, KERNEL: `same_output_type_shape`, the type half of SameResponseShape (Field Selection Merging, steps 3-6).

Extracted verbatim: enum ast::Type, Type::is_named (ast/impls.rs), validation/selection.rs: is_composite, same_output_type_shape.

Specification (transcribed from https://spec.graphql.org/October2021/#SameResponseShape(), not from the body):
  3. if typeA or typeB is Non-Null: both must be, then continue with the nullable types;
  4. if typeA or typeB is List: both must be, then repeat from 3 with the item types;
  5. if typeA or typeB is Scalar or Enum: they must be the same type;
  6. otherwise both must be composite types.
"The same type" is taken as "the same definition in the schema" (what `==` on ExtendedType compares; definitions carry their name).
A named type that is not defined in the schema is not this rule's business (reported elsewhere): the function then answers Ok.

Listed rewrites (each pinned):
  * the destructuring assignment `(type_a, type_b) = match .. { .. };` (not in Verus's subset) becomes `let __next = match .. { .. }; type_a = __next.0; type_b = __next.1;`
  * `x.as_ref()` on a `Box<Type>` becomes `&**x`;
  * the closure `mismatching_type_diagnostic` (clones coordinates / locations into a BuildError) is dropped and its calls become
    `conflicting_field_type(&selection_a, &selection_b)` (opaque): WHAT the diagnostic says is not decided, only WHEN it is produced;
  * `def_a == def_b` on ExtendedType becomes `extended_type_eq(def_a, def_b)` (shim of the derived PartialEq).

Shims (trusted): Name as an id; Node<T> as Box + Deref; IndexMap::get as a map lookup; ExtendedType with opaque payloads.
"""
IMPLS = "crates/apollo-compiler/src/ast/impls.rs"
SEL = "crates/apollo-compiler/src/validation/selection.rs"

PRELUDE = r'''
// ---------------- shims (trusted) ----------------
#[derive(PartialEq, Eq, Structural)]
pub struct Name { pub id: u64 }
pub type NamedType = Name;
pub struct Node<T>(pub Box<T>);
impl<T> core::ops::Deref for Node<T> {
    type Target = T;
    fn deref(&self) -> (r: &T) ensures *r == *self.0 { &*self.0 }
}
pub mod ast { pub use super::Type; }
pub struct Payload { pub x: u64 }
pub mod schema {
    pub use super::{ExtendedType, Schema};
}
pub enum ExtendedType { Scalar(Node<Payload>), Object(Node<Payload>), Interface(Node<Payload>), Union(Node<Payload>), Enum(Node<Payload>), InputObject(Node<Payload>) }
#[verifier::external_body]
pub fn extended_type_eq(a: &ExtendedType, b: &ExtendedType) -> (r: bool) ensures r == (*a == *b) { unimplemented!() }
#[verifier::external_body]
#[verifier::reject_recursive_types(V)]
pub struct IndexMap<V> { v: core::marker::PhantomData<V> }
impl<V> IndexMap<V> {
    pub uninterp spec fn view(&self) -> Map<u64, V>;
    #[verifier::external_body]
    pub fn get(&self, k: &Name) -> (r: Option<&V>)
        ensures match r { Some(v) => self@.dom().contains(k.id) && *v == self@[k.id], None => !self@.dom().contains(k.id) }
    { unimplemented!() }
}
pub struct Schema { pub types: IndexMap<ExtendedType> }
pub struct FieldDefinition { pub ty: Type }
pub struct Field { pub definition: Node<FieldDefinition> }
pub struct FieldSelection<'a> { pub field: &'a Node<Field> }
pub struct BuildError { pub x: u64 }
#[verifier::external_body]
pub fn conflicting_field_type(a: &FieldSelection<'_>, b: &FieldSelection<'_>) -> BuildError { unimplemented!() }

// ---------------- specification (from the spec text) ----------------
pub open spec fn spec_non_null(t: Type) -> bool { t is NonNullNamed || t is NonNullList }
pub open spec fn spec_is_list(t: Type) -> bool { t is List || t is NonNullList }
pub open spec fn item(t: Type) -> Type { match t { Type::List(i) => *i, Type::NonNullList(i) => *i, _ => t } }
pub open spec fn named(t: Type) -> Name { match t { Type::Named(n) => n, Type::NonNullNamed(n) => n, _ => arbitrary() } }
pub open spec fn leaf(d: ExtendedType) -> bool { d is Scalar || d is Enum }
pub open spec fn composite(d: ExtendedType) -> bool { d is Object || d is Interface || d is Union }
/// steps 5 and 6, on two named types
pub open spec fn named_shape(s: &Schema, a: Name, b: Name) -> bool {
    if !s.types@.dom().contains(a.id) || !s.types@.dom().contains(b.id) { true }      // undefined type: reported elsewhere
    else {
        let da = s.types@[a.id]; let db = s.types@[b.id];
        if leaf(da) || leaf(db) { da == db } else { composite(da) && composite(db) }
    }
}
/// steps 3 and 4, then 5 / 6
pub open spec fn same_shape(s: &Schema, a: Type, b: Type) -> bool decreases a {
    if spec_non_null(a) != spec_non_null(b) { false }
    else if spec_is_list(a) || spec_is_list(b) { spec_is_list(a) && spec_is_list(b) && same_shape(s, item(a), item(b)) }
    else { named_shape(s, named(a), named(b)) }
}
'''

UNIT = {
    "name": "field_merging",
    "properties": ["C17"],
    "parts": [
        PRELUDE,
        dict(file="crates/apollo-compiler/src/ast/mod.rs", kind="enum", name="Type", props=["C17"]),
        dict(file=IMPLS, kind="fn", name="is_named", container="Type", container_name="Type", wrap="impl Type", props=["C17"],
             clauses=[("ensures", "is_named", "r == (self is Named || self is NonNullNamed)")]),
        dict(file=SEL, kind="fn", name="is_composite", props=["C17"],
             clauses=[("ensures", "composite_types", "r == composite(*ty)")]),
        dict(file=SEL, kind="fn", name="same_output_type_shape", props=["C17"], n_loops=1,
             rewrites=[(r"(?s)    let mismatching_type_diagnostic = \|\| \{.*?\n    \};\n", "", 1, "re"),
                       ("mismatching_type_diagnostic()", "conflicting_field_type(&selection_a, &selection_b)", None),
                       (r"(?s)\(type_a, type_b\) = (match \(type_a, type_b\) \{.*?\n        \});", r"let __next = \1; type_a = __next.0; type_b = __next.1;", 1, "re"),
                       ("(type_a.as_ref(), type_b.as_ref())", "(&**type_a, &**type_b)", "*"),
                       ("if def_a == def_b {", "if extended_type_eq(def_a, def_b) {", "*")],
             clauses=[("ensures", "SameResponseShape_steps_3_to_6",
                       "r is Ok <==> same_shape(schema, selection_a.field.0.definition.0.ty, selection_b.field.0.definition.0.ty)")],
             loops=[dict(invariant=[("same_shape_so_far", "same_shape(schema, *type_a, *type_b) == same_shape(schema, selection_a.field.0.definition.0.ty, selection_b.field.0.definition.0.ty)")],
                         decreases="type_a, type_b")]),
    ],
}
