"""Unit `lexer_numbers` -- C03, the CONVERSE direction for numbers: the lexer reports an error on text that starts like a number only
when it has to.  A second, lighter pass over the same extracted state machine (`Cursor::advance`, `Cursor::eof`, crates/apollo-parser/src/lexer/mod.rs):
the loop invariant keeps the number-prefix grammar in the nine number states and, for every other state, only "the token does not start
like a number" (plus the escape bookkeeping that the \\uXXXX byte arithmetic needs to stay within its preconditions); the string grammar and
the kind / maximality postconditions of unit `lexer` are not repeated here.

Postcondition (on advance and eof): an error item whose text starts with a digit or `-` is justified --
  * its text `s c` is not a prefix of any number token (`-`, IntegerPart, IntegerPart `.`, IntegerPart `.` Digit+, .. `e`, .. `e` Sign, .. `e` Sign? Digit+)
    and `s` is not a complete IntValue / FloatValue that may be followed by `c` (lookahead restriction: not Digit, `.`, NameStart), or
  * the input ends here and the text is not a complete IntValue / FloatValue.
So `0e5`, `1.5e+3`, `-0`, `12,` can never be rejected, for any surrounding input.  Also proved here: no error recorded for one token can leak into
the next (`self.err` is None on entry and exit of advance unless the input is used up).
"""
import lexer as LX

NUMBERS_PRELUDE = r'''// ================= the converse direction for numbers: an error is reported only when it has to be =================
/// every prefix of a number token: "-", IntegerPart, IntegerPart ".", IntegerPart "." Digit+, ... e, ... e Sign, ... e Sign? Digit+
#[verifier::opaque]
pub open spec fn viable_number(s: Seq<char>) -> bool {
    eq1(s, '-') || is_int(s) || g_decimal_point(s) || g_fraction(s) || g_exp_indicator(s) || g_exp_sign(s) || g_exp_digits(s)
}
pub open spec fn is_number_token(s: Seq<char>) -> bool { is_int(s) || is_float(s) }
pub open spec fn starts_number(s: Seq<char>) -> bool { s.len() > 0 && (digit(s[0]) || s[0] == '-') }
/// reporting an error at char `c` after the text `s` is justified: `s c` is no prefix of any number, and `s` is not a complete number
/// that may be followed by `c` (lookahead restriction: not Digit, `.`, NameStart)
#[verifier::opaque]
pub open spec fn number_char_error_ok(s: Seq<char>, c: char) -> bool {
    !viable_number(s.push(c)) && !(is_number_token(s) && number_may_end_before(Some(c)))
}
// shape of the prefixes: how many '.' and exponent indicators they contain
pub open spec fn ndot(s: Seq<char>) -> nat decreases s.len() { if s.len() == 0 { 0 } else { ndot(s.drop_last()) + (if s.last() == '.' { 1nat } else { 0nat }) } }
pub open spec fn nexp(s: Seq<char>) -> nat decreases s.len() { if s.len() == 0 { 0 } else { nexp(s.drop_last()) + (if is_e(s.last()) { 1nat } else { 0nat }) } }
pub proof fn lemma_digits_shape(s: Seq<char>, from: int)
    requires 0 <= from <= s.len(), forall|i: int| from <= i < s.len() ==> digit(#[trigger] s[i]), from == 0 || (from == 1 && s[0] == '-')
    ensures ndot(s) == 0, nexp(s) == 0
    decreases s.len()
{
    if s.len() > 0 {
        let d = s.drop_last();
        if s.len() > from {
            assert(digit(s[s.len() - 1]));
            assert forall|i: int| from <= i < d.len() implies digit(#[trigger] d[i]) by { assert(d[i] == s[i]); }
            if from == 1 { assert(d[0] == s[0]); }
            lemma_digits_shape(d, from);
            assert(s.last() != '.' && !is_e(s.last()));
        } else {
            assert(s.len() == 1 && s[0] == '-');
            assert(d.len() == 0);
            assert(ndot(d) == 0 && nexp(d) == 0);
        }
    }
}
pub proof fn lemma_int_shape(s: Seq<char>)
    requires is_int(s)
    ensures ndot(s) == 0, nexp(s) == 0, s.len() > 0, digit(s.last())
{
    reveal(is_int); reveal(is_int_unsigned);
    if is_int_unsigned(s) {
        assert forall|i: int| 0 <= i < s.len() implies digit(#[trigger] s[i]) by { if i == 0 { } else { } }
        lemma_digits_shape(s, 0);
    } else {
        let u = s.subrange(1, s.len() as int);
        assert forall|i: int| 1 <= i < s.len() implies digit(#[trigger] s[i]) by { assert(s[i] == u[i - 1]); if i - 1 == 0 { } else { assert(digit(u[i - 1])); } }
        lemma_digits_shape(s, 1);
        assert(s.last() == u.last());
    }
}
pub proof fn lemma_gdp_shape(s: Seq<char>)
    requires g_decimal_point(s)
    ensures ndot(s) == 1, nexp(s) == 0, s.len() > 0, s.last() == '.'
{ reveal(g_decimal_point); lemma_int_shape(s.drop_last()); }
pub proof fn lemma_gf_shape(s: Seq<char>)
    requires g_fraction(s)
    ensures ndot(s) == 1, nexp(s) == 0, s.len() > 0, digit(s.last())
    decreases s.len()
{
    reveal_with_fuel(g_fraction, 2);
    if g_decimal_point(s.drop_last()) { lemma_gdp_shape(s.drop_last()); } else { lemma_gf_shape(s.drop_last()); }
}
pub proof fn lemma_gei_shape(s: Seq<char>)
    requires g_exp_indicator(s)
    ensures nexp(s) == 1, s.len() > 0, is_e(s.last())
{ reveal(g_exp_indicator); if is_int(s.drop_last()) { lemma_int_shape(s.drop_last()); } else { lemma_gf_shape(s.drop_last()); } }
pub proof fn lemma_ges_shape(s: Seq<char>)
    requires g_exp_sign(s)
    ensures nexp(s) == 1, s.len() > 0, s.last() == '+' || s.last() == '-'
{ reveal(g_exp_sign); lemma_gei_shape(s.drop_last()); }
pub proof fn lemma_ged_shape(s: Seq<char>)
    requires g_exp_digits(s)
    ensures nexp(s) == 1, s.len() > 0, digit(s.last())
    decreases s.len()
{
    reveal_with_fuel(g_exp_digits, 2);
    let d = s.drop_last();
    if g_exp_indicator(d) { lemma_gei_shape(d); } else if g_exp_sign(d) { lemma_ges_shape(d); } else { lemma_ged_shape(d); }
}
/// what `viable_number(s.push(c))` says about `s` and `c` (one unfolding of every production)
pub proof fn lemma_viable_push(s: Seq<char>, c: char)
    requires viable_number(s.push(c))
    ensures
        (s.len() == 0 && c == '-') || is_int(s.push(c)) || (c == '.' && is_int(s)) || (digit(c) && (g_decimal_point(s) || g_fraction(s)))
            || (is_e(c) && (is_int(s) || g_fraction(s))) || ((c == '+' || c == '-') && g_exp_indicator(s))
            || (digit(c) && (g_exp_indicator(s) || g_exp_sign(s) || g_exp_digits(s))),
{
    let t = s.push(c);
    assert(t.drop_last() =~= s);
    reveal(viable_number);
    reveal(g_decimal_point); reveal_with_fuel(g_fraction, 2); reveal(g_exp_indicator); reveal(g_exp_sign); reveal_with_fuel(g_exp_digits, 2);
}
pub proof fn lemma_number_error(s: Seq<char>, c: char)
    ensures
        (eq1(s, '-') && !digit(c)) ==> number_char_error_ok(s, c),
        ((eq1(s, '0') || eq2(s, '-', '0')) && digit(c)) ==> number_char_error_ok(s, c),
        ((eq1(s, '0') || eq2(s, '-', '0')) && name_start(c) && !is_e(c)) ==> number_char_error_ok(s, c),
        (is_int(s) && name_start(c) && !is_e(c)) ==> number_char_error_ok(s, c),
        (g_decimal_point(s) && !digit(c)) ==> number_char_error_ok(s, c),
        (g_fraction(s) && (c == '.' || (name_start(c) && !is_e(c)))) ==> number_char_error_ok(s, c),
        (g_exp_indicator(s) && !digit(c) && c != '+' && c != '-') ==> number_char_error_ok(s, c),
        (g_exp_sign(s) && !digit(c)) ==> number_char_error_ok(s, c),
        (g_exp_digits(s) && (c == '.' || name_start(c))) ==> number_char_error_ok(s, c),
        // at the end of the input: these prefixes are not complete numbers
        (eq1(s, '-') || g_decimal_point(s) || g_exp_indicator(s) || g_exp_sign(s)) ==> !is_number_token(s),
        s.push(c).drop_last() =~= s,
{
    let t = s.push(c);
    assert(t.drop_last() =~= s);
    assert(t.last() == c);
    reveal(is_float); reveal(number_char_error_ok);
    // facts about s from its class
    if eq1(s, '-') { reveal(is_int); reveal(is_int_unsigned); assert(!is_int(s)); }
    if eq1(s, '0') || eq2(s, '-', '0') { reveal(is_int); reveal(is_int_unsigned); if eq2(s, '-', '0') { assert(s.subrange(1, 2) =~= seq!['0']); } assert(is_int(s)); }
    if is_int(s) { lemma_int_shape(s); }
    if g_decimal_point(s) { lemma_gdp_shape(s); }
    if g_fraction(s) { lemma_gf_shape(s); }
    if g_exp_indicator(s) { lemma_gei_shape(s); }
    if g_exp_sign(s) { lemma_ges_shape(s); }
    if g_exp_digits(s) { lemma_ged_shape(s); }
    // a complete number ends in a digit
    if is_number_token(s) { if is_int(s) { } else if g_fraction(s) { } else { } }
    if viable_number(t) {
        lemma_viable_push(s, c);
        if is_int(t) {
            lemma_int_shape(t);
            // is_int(s.push(c)) with c a digit: then s is "-" or an integer without a leading zero
            reveal(is_int); reveal(is_int_unsigned);
            if eq1(s, '0') { assert(t[0] == '0' && t.len() == 2); }
            if eq2(s, '-', '0') { let u = t.subrange(1, 3); assert(u[0] == '0' && u.len() == 2); assert(t[0] == '-'); }
        }
    }
    // class of s is unique: the shapes (ndot, nexp, last char) of the seven classes differ
}

/// C03, converse direction for numbers: an error whose text starts like a number (digit or `-`) is justified -- the text is no prefix of
/// any number and is not a complete number followed by a char that may follow one; at the very end of the input: the text is not a complete number
pub open spec fn number_error_justified(t: Seq<char>, at_end: bool) -> bool {
    (t.len() > 0 && number_char_error_ok(t.drop_last(), t.last())) || (at_end && !is_number_token(t))
}
/// the states in which an error may be recorded on the cursor while lexing goes on (quoted and block strings)
pub open spec fn string_state(state: State) -> bool {
    state is StringLiteralStart || state is StringLiteral || state is StringLiteralBackslash || state is StringLiteralEscapedUnicode || state is BlockStringLiteral || state is BlockStringLiteralBackslash
}
/// what this second, lighter pass over the state machine tracks: the number prefix grammar in the number states; for every other state only
/// that the token does not start like a number (plus the escape bookkeeping the \uXXXX byte arithmetic needs)
pub open spec fn state_light(state: State, s: Seq<char>) -> bool {
    match state {
        State::Start => s.len() == 0,
        State::MinusSign => eq1(s, '-'),
        State::LeadingZero => eq1(s, '0') || eq2(s, '-', '0'),
        State::IntegerPart => is_int(s) && !eq1(s, '0') && !eq2(s, '-', '0'),
        State::DecimalPoint => g_decimal_point(s),
        State::FractionalPart => g_fraction(s),
        State::ExponentIndicator => g_exp_indicator(s),
        State::ExponentSign => g_exp_sign(s),
        State::ExponentDigit => g_exp_digits(s),
        State::StringLiteralBackslash => s.len() >= 1 && !digit(s[0]) && s[0] != '-' && ends_with_backslash(s),
        State::StringLiteralEscapedUnicode(rem) => s.len() >= 1 && !digit(s[0]) && s[0] != '-' && in_escape(s, rem as int),
        _ => s.len() >= 1 && !digit(s[0]) && s[0] != '-',
    }
}
pub proof fn lemma_light_step(s: Seq<char>, c: char)
    ensures s.len() >= 1 ==> s.push(c)[0] == s[0], s.len() == 0 ==> s.push(c)[0] == c, s.push(c).len() == s.len() + 1,
        starts_number(s.push(c)) == (if s.len() >= 1 { digit(s[0]) || s[0] == '-' } else { digit(c) || c == '-' }),
{ }
'''

NUMERR_POST = ("ensures", "errors_on_numbers_are_justified",
               "(r is Err && starts_number(item_text(r))) ==> number_error_justified(item_text(r), final(self).m@.start == final(self).m@.chars.len())", ["C03"])
STALE_REQ = ("requires", "no_stale_error", "old(self).err is None || old(self).m@.start == old(self).m@.chars.len()")
STALE_POST = ("ensures", "no_stale_error", "final(self).err is None || final(self).m@.start == final(self).m@.chars.len()", ["C03"])
IDLE_POST = ("ensures", "idle_again", "final(self).idle() && final(self).m@.chars == old(self).m@.chars && final(self).source == old(self).source")
TEXT_POST = ("ensures", "item_is_next_piece_of_input", "final(self).m@.start >= old(self).m@.start && item_text(r) =~= final(self).emitted(old(self))")


def part(name):
    for p in LX.UNIT["parts"]:
        if isinstance(p, dict) and p.get("name") == name:
            return dict(p)
    raise KeyError(name)


adv = part("advance")
adv["clauses"] = LX.ADV_REQ + [STALE_REQ, IDLE_POST, TEXT_POST, STALE_POST, NUMERR_POST]
adv["loops"] = [dict(invariant=[
    ("wf", "self.m@.wf(), self.m@.chars == old(self).m@.chars, self.source == old(self).source, self.m@.start == old(self).m@.start"),
    ("start_state", "state is Start ==> self.m@.eff() == self.m@.start && token.data@ =~= Seq::<char>::empty()"),
    ("other_states", "!(state is Start) ==> self.m@.start < self.m@.eff() && self.m@.index_ok"),
    ("number_prefix_grammar", "state_light(state, consumed(&*self))", ["C03"]),
    ("source_is_the_model", "self.source@ == self.m@.chars && byte_off(self.m@.chars, self.m@.chars.len() as int) <= usize::MAX"),
    ("no_pushback_inside_escape", "state is StringLiteralEscapedUnicode ==> !self.m@.pending"),
    ("no_stale_error", "(!string_state(state) && !(state is Start)) ==> self.err is None, state is Start ==> (self.err is None || self.m@.start == self.m@.chars.len())", ["C03"]),
], decreases="self.m@.measure()")]
adv["hints"] = [("body_start", None, "proof { reveal_strlit(\"\"); }"),
                ("before", "match state {", "proof { let s0 = self.m@.chars.subrange(self.m@.start as int, self.m@.read - 1); lemma_step(s0, c); lemma_escape_step(s0, c); lemma_number_error(s0, c); lemma_light_step(s0, c); assert(consumed(&*self) =~= s0.push(c)); }"),
                ("before", "let hex_end = self.offset + 1;", "proof { lemma_escape_bytes(self.m@.chars, self.m@.start as int, self.m@.read as int); }"),
                ("after", "let hex = str_slice(self.source, hex_start, hex_end);", "proof { assert(hex@ =~= self.m@.chars.subrange(self.m@.read - 4, self.m@.read as int)); }")]
adv["props"] = ["C03"]
eof = part("eof")
eof["clauses"] = [("requires", "wf", "old(self).m@.wf() && !old(self).m@.pending && old(self).m@.read == old(self).m@.chars.len()"),
                  ("requires", "start_state_has_consumed_nothing", "state is Start ==> old(self).m@.start == old(self).m@.read && token.data@ =~= Seq::<char>::empty()"),
                  ("requires", "other_states_have_consumed_something", "!(state is Start) ==> old(self).m@.start < old(self).m@.read && old(self).m@.index_ok"),
                  ("requires", "number_prefix_grammar", "state_light(state, consumed(&*old(self)))", ["C03"]),
                  ("requires", "no_stale_error", "(!string_state(state) && !(state is Start)) ==> old(self).err is None"),
                  IDLE_POST, TEXT_POST, STALE_POST, NUMERR_POST]
eof["hints"] = [("body_start", None, "proof { lemma_number_error(consumed(&*self), 'x'); }")]
eof["props"] = ["C03"]
done = part("done")
done["props"] = ["C03"]
done["clauses"] = done["clauses"] + [("ensures", "recorded_error_is_cleared", "final(self).err is None", ["C03"])]
usp = part("unterminated_spread_operator")
usp["props"] = ["C03"]
usp["clauses"] = usp["clauses"] + [("ensures", "recorded_error_untouched", "final(self).err == old(self).err")]

UNIT = {
    "name": "lexer_numbers",
    "properties": ["C03"],
    "rlimit": 600,
    "rlimit_retry": [],
    "parts": [
        part("TokenKind"), part("Token"), LX.PRELUDE, part("State"), NUMBERS_PRELUDE,
        part("is_whitespace_assimilated"), part("is_name_continue"), part("is_line_terminator"), part("is_escaped_char"),
        done, usp, eof, adv,
    ],
}
