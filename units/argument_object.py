"""Unit `argument_object` -- C26: `coerce_argument_value` (resolvers/input_coercion.rs), coercion of an argument LITERAL, which unit `arguments` takes by
contract: proved here is that contract (a failure records exactly one error, at the field's path; a success records none; the context is otherwise unchanged)
and, beyond it, the null / variable / input-object cases.  The list arm is replaced by an opaque call (not decided).

Extracted verbatim: coerce_argument_value; enum Type, Type::is_non_null; enum ResponseDataPathSegment, struct LinkedPathElement.
Specification (https://spec.graphql.org/October2021/#sec-Input-Objects.Input-Coercion and its table of examples, #CoerceArgumentValues()):
  * null: a field error for a non-null type, null otherwise;
  * a variable (nested in a list or an input object): its runtime value, a field error if that is null -- or there is none -- for a non-null type, null if there is none for a nullable type;
  * an input-object type: a literal that is not an object is a field error; a key that is not a field of the type is a field error; then per field of the type, in order:
    a field is PROVIDED if the literal has it and it is not a variable without a runtime value (table: `{ a: $var, b: 123 }` with `{}` coerces to `{ b: 123 }`); a provided
    value is coerced to the field's type; otherwise the default value; otherwise a field error for a non-null type; otherwise no entry.
Listed rewrites:
  * the list arm's `value.as_list()...iter().map(|item| coerce_argument_value(..)).collect()` -> the opaque `coerce_list_items(..)`;
  * the RECURSIVE call inside the input-object arm -> `coerce_nested(..)`: it enters with the contract this unit proves, its result named by the uninterpreted `literal_coerced`;
  * `object.iter().find(|(key, _value)| !ty_def.fields.contains_key(key))` -> `first_unknown_key(object, &ty_def.fields)`; the `HashMap` built from the literal's entries -> `entries_by_name(object)`
    (lookup of the entry with that name);
  * `for (field_name, field_def) in &ty_def.fields {` -> an index loop; `x.map_err(|err| { B; E })?` and `return x.map_err(|err| { B; E });` -> the matches they stand for;
  * `coerced_object.into()` -> `JsonValue::Object(coerced_object)`; `format!` / `format_args!` -> opaque.
Shims (trusted): as in unit arguments; Schema.types by the name's text.
"""
import importlib.util
import os
_here = os.path.dirname(os.path.abspath(__file__))
_spec = importlib.util.spec_from_file_location("arguments_unit", os.path.join(_here, "arguments.py"))
AR = importlib.util.module_from_spec(_spec)
_spec.loader.exec_module(AR)

IC = AR.IC
_p = AR.PRELUDE
def _rep(a, b, n=1):
    global _p
    assert _p.count(a) == n, (a[:60], _p.count(a))
    _p = _p.replace(a, b)

# the arguments unit's shim of THIS function goes; richer values and the schema come in
_a = _p.index("#[verifier::external_body]\npub fn coerce_argument_value(")
_b = _p.index("pub uninterp spec fn default_as_json")
_p = _p[:_a] + _p[_b:]
_rep("pub enum JsonValue { Null, Other(u64) }", "pub enum JsonValue { Null, Object(JsonMap), Other(u64) }")
_rep("pub enum Value { Null, Variable(Name), Other(u64) }", "pub enum Value { Null, Variable(Name), List(Vec<Node<Value>>), Object(Vec<(Name, Node<Value>)>), Other(u64) }")
_rep("    pub fn is_null(&self) -> (r: bool) ensures r == (*self is Null) { match self { Value::Null => true, _ => false } }\n}",
     '''    pub fn is_null(&self) -> (r: bool) ensures r == (*self is Null) { match self { Value::Null => true, _ => false } }
    pub fn as_variable(&self) -> (r: Option<&Name>) ensures match r { Some(n) => *self == Value::Variable(*n), None => !(*self is Variable) } { match self { Value::Variable(n) => Some(n), _ => None } }
    #[verifier::external_body]
    pub fn as_object(&self) -> (r: Option<&[(Name, Node<Value>)]>) ensures match r { Some(o) => *self matches Value::Object(v) && o@ == v@, None => !(*self is Object) } { unimplemented!() }
}''', 1)
PRELUDE = _p + r'''
pub struct SuspectedValidationBug { pub message: String, pub location: Option<SourceSpan> }
impl SuspectedValidationBug {
    #[verifier::external_body]
    pub fn into_field_error(self, sources: &SourceMap, path: LinkedPath<'_>) -> (r: GraphQLError) ensures r.path@ == path_seq(path) { unimplemented!() }
}
pub struct InputObjectType { pub fields: FieldMap }
pub struct OtherType { pub x: u64 }
pub enum ExtendedType { Scalar(Node<OtherType>), Object(Node<OtherType>), Interface(Node<OtherType>), Union(Node<OtherType>), Enum(Node<OtherType>), InputObject(Node<InputObjectType>) }
#[verifier::external_body]
pub struct FieldMap { x: u8 }
pub type Fields = Seq<(Name, Node<InputValueDefinition>)>;
impl FieldMap {
    pub uninterp spec fn view(&self) -> Fields;
    #[verifier::external_body]
    pub fn len(&self) -> (r: usize) ensures r == self@.len() { unimplemented!() }
    #[verifier::external_body]
    pub fn get_index(&self, i: usize) -> (r: (&Name, &Node<InputValueDefinition>)) requires i < self@.len() ensures *r.0 == self@[i as int].0, *r.1 == self@[i as int].1 { unimplemented!() }
}
#[verifier::external_body]
pub struct TypeMap { x: u8 }
impl TypeMap {
    pub uninterp spec fn view(&self) -> Map<Seq<char>, ExtendedType>;
    #[verifier::external_body]
    pub fn get(&self, k: &Name) -> (r: Option<&ExtendedType>) ensures match r { Some(v) => self@.dom().contains(k.text@) && *v == self@[k.text@], None => !self@.dom().contains(k.text@) } { unimplemented!() }
}
pub struct TypedSchema { pub types: TypeMap }
pub type Literal = Seq<(Name, Node<Value>)>;
/// some key of the literal is not a field of the type
pub uninterp spec fn has_unknown_key(o: Literal, fields: Fields) -> bool;
#[verifier::external_body]
pub fn first_unknown_key<'m>(object: &'m [(Name, Node<Value>)], fields: &FieldMap) -> (r: Option<&'m (Name, Node<Value>)>) ensures r is Some <==> has_unknown_key(object@, fields@) { unimplemented!() }
/// the entry of the literal with that name, if any
pub uninterp spec fn entry_named(o: Literal, k: Seq<char>) -> Option<Node<Value>>;
#[verifier::external_body]
pub struct ByName<'m> { x: core::marker::PhantomData<&'m u8> }
impl<'m> ByName<'m> {
    pub uninterp spec fn of(&self) -> Literal;
    #[verifier::external_body]
    pub fn get(&self, k: &Name) -> (r: Option<&&'m Node<Value>>) ensures match r { Some(v) => entry_named(self.of(), k.text@) == Some(**v), None => entry_named(self.of(), k.text@) is None } { unimplemented!() }
}
#[verifier::external_body]
pub fn entries_by_name<'m>(object: &'m [(Name, Node<Value>)]) -> (r: ByName<'m>) ensures r.of() == object@ { unimplemented!() }

pub type Coerced = Result<JsonValue, PropagateNull>;
/// the contract this unit proves, for the recursive calls; the result is named `literal_coerced`
#[verifier::external_body]
pub fn coerce_nested(ctx: &mut ExecutionContext<'_>, path: LinkedPath<'_>, description: &FmtArgs, ty: &Type, value: &Node<Value>) -> (r: Coerced)
    ensures r == literal_coerced(*ty, *value.0, old(ctx).variable_values.0.table()),
            r is Ok ==> final(ctx).errors@ == old(ctx).errors@,
            r is Err ==> exactly_one_error_at(old(ctx).errors@, final(ctx).errors@, path_seq(path)),
            final(ctx).document == old(ctx).document, final(ctx).schema == old(ctx).schema, final(ctx).variable_values == old(ctx).variable_values,
{ unimplemented!() }
#[verifier::external_body]
pub fn coerce_list_items(ctx: &mut ExecutionContext<'_>, path: LinkedPath<'_>, description: &FmtArgs, inner: &Type, value: &Node<Value>) -> (r: Coerced)
    ensures r is Ok ==> final(ctx).errors@ == old(ctx).errors@,
            r is Err ==> exactly_one_error_at(old(ctx).errors@, final(ctx).errors@, path_seq(path)),
            final(ctx).document == old(ctx).document, final(ctx).schema == old(ctx).schema, final(ctx).variable_values == old(ctx).variable_values,
{ unimplemented!() }

// ---------------- specification: Input Objects, Input Coercion (literals) ----------------
pub open spec fn named(t: Type) -> Option<Seq<char>> { match t { Type::Named(n) => Some(n.text@), Type::NonNullNamed(n) => Some(n.text@), _ => None } }
/// the literal gives this field a value: it has the entry, and the entry is not a variable without a runtime value
pub open spec fn provided_value(o: Literal, k: Seq<char>, vars: Map<Seq<char>, JsonValue>) -> Option<Value> {
    match entry_named(o, k) {
        Some(v) => match *v.0 { Value::Variable(vn) => if vars.dom().contains(vn.text@) { Some(*v.0) } else { None }, lit => Some(lit) },
        None => None,
    }
}
pub open spec fn fields_outcome(fields: Fields, o: Literal, vars: Map<Seq<char>, JsonValue>, i: int, cur: Entries) -> Option<Entries> decreases fields.len() - i {
    if i < 0 || i >= fields.len() { Some(cur) }
    else {
        let k = fields[i].0.text@; let d = *fields[i].1.0;
        match provided_value(o, k, vars) {
            Some(v) => match literal_coerced(*d.ty.0, v, vars) { Ok(j) => fields_outcome(fields, o, vars, i + 1, map_insert(cur, k, j)), Err(_) => None },
            None => match d.default_value {
                Some(dv) => match default_as_json(*dv.0) { Ok(j) => fields_outcome(fields, o, vars, i + 1, map_insert(cur, k, j)), Err(_) => None },
                None => if non_null(*d.ty.0) { None } else { fields_outcome(fields, o, vars, i + 1, cur) },
            },
        }
    }
}
pub open spec fn literal_outcome(schema: &TypedSchema, ty: Type, v: Value, vars: Map<Seq<char>, JsonValue>, r: Coerced) -> bool {
    match v {
        Value::Null => if non_null(ty) { r is Err } else { r == Ok::<JsonValue, PropagateNull>(JsonValue::Null) },
        Value::Variable(vn) => if vars.dom().contains(vn.text@) { if vars[vn.text@] is Null && non_null(ty) { r is Err } else { r == Ok::<JsonValue, PropagateNull>(vars[vn.text@]) } }
                               else if non_null(ty) { r is Err } else { r == Ok::<JsonValue, PropagateNull>(JsonValue::Null) },
        _ => match named(ty) {
            None => true,                                               // a list type: cut out
            Some(n) => if !schema.types@.dom().contains(n) { r is Err } else { match schema.types@[n] {
                ExtendedType::InputObject(d) => match v {
                    Value::Object(o) => if has_unknown_key(o@, d.0.fields@) { r is Err } else { match fields_outcome(d.0.fields@, o@, vars, 0, Seq::<(Seq<char>, JsonValue)>::empty()) {
                        Some(e) => r matches Ok(JsonValue::Object(m)) && m@ == e, None => r is Err } },
                    _ => r is Err },
                _ => true,                                              // scalars and enums: graphql_value_to_json (opaque)
            } },
        },
    }
}
'''
PRELUDE = PRELUDE.replace("pub struct Schema { pub x: u64 }", "pub type Schema = TypedSchema;")
assert "pub type Schema = TypedSchema;" in PRELUDE

FMT = AR.FMT
FMTA = (r'format_args!\((?:[^()]|\([^()]*\))*\)', "fmt_args_opaque()", None, "re")
RW = [
    ("description: &std::fmt::Arguments<'_>,", "description: &FmtArgs,", 1),
    (r"(?s)return value\s*\.as_list\(\).*?\.map\(\|item\| coerce_argument_value\(ctx, path, description, inner_ty, item\)\)\s*\.collect\(\);", "return coerce_list_items(ctx, path, description, inner_ty, value);", 1, "re"),
    (r"(?s)(ExtendedType::InputObject\(ty_def\) => \{.*?)coerce_argument_value\(", r"\1coerce_nested(", None, "re"),
    (r"(?s)object\s*\.iter\(\)\s*\.find\(\|\(key, _value\)\| !ty_def\.fields\.contains_key\(key\)\)", "first_unknown_key(object, &ty_def.fields)", 1, "re"),
    (r"(?s)(?:#\[allow\(clippy::map_identity\)\][^\n]*\n\s*)?let object: HashMap<_, _> = object\.iter\(\)\.map\(\|\(k, v\)\| \(k, v\)\)\.collect\(\);", "let object = entries_by_name(object);", 1, "re"),
    ("for (field_name, field_def) in &ty_def.fields {", "let mut __f: usize = 0; while __f < ty_def.fields.len() { let (field_name, field_def) = ty_def.fields.get_index(__f); __f += 1;", 1),
    (r"(?s)let default = (graphql_value_to_json\([^;]*?\))\s*\.map_err\(\|err\| \{(.*?)\n\s*PropagateNull\n\s*\}\)\?;", r"let default = match \1 { Ok(__v) => __v, Err(err) => {\2\n return Err(PropagateNull); } };", 1, "re"),
    (r"(?s)return (graphql_value_to_json\(description, value\))\.map_err\(\|err\| \{(.*?)\n\s*PropagateNull\n\s*\}\);", r"return match \1 { Ok(__v) => Ok(__v), Err(err) => {\2\n Err(PropagateNull) } };", 1, "re"),
    ("coerced_object.into()", "JsonValue::Object(coerced_object)", 1),
    (r'format!\((?:[^()]|\([^()]*\))*\)(?=,\n)', "fmt_opaque()", None, "re"), FMTA,
]
VARS = "ctx.variable_values.0.table()"

UNIT = {
    "name": "argument_object",
    "properties": ["C26"],
    "parts": [
        PRELUDE,
        dict(file=AR.AST, kind="enum", name="Type", props=["C26"]),
        dict(file=AR.RESP, kind="enum", name="ResponseDataPathSegment", props=["C26"], rewrites=[("crate::Name", "Name", 1)]),
        dict(file=AR.EXE, kind="struct", name="LinkedPathElement", props=["C26"]),
        dict(file="crates/apollo-compiler/src/ast/impls.rs", kind="fn", name="is_non_null", container="Type", container_name="Type", wrap="impl Type", props=["C26"],
             clauses=[("ensures", "NonNull", "r == non_null(*self)")]),
        dict(file=IC, kind="fn", name="coerce_argument_value", props=["C26"], no_decreases=True, loops_see_context=True,
             rewrites=RW,
             clauses=[("ensures", "context_unchanged", "final(ctx).document == old(ctx).document, final(ctx).schema == old(ctx).schema, final(ctx).variable_values == old(ctx).variable_values"),
                      ("ensures", "a_failure_is_exactly_one_error_at_the_fields_path", "r is Ok ==> final(ctx).errors@ == old(ctx).errors@, r is Err ==> exactly_one_error_at(old(ctx).errors@, final(ctx).errors@, path_seq(path))"),
                      ("ensures", "InputCoercion_of_literals", "literal_outcome(&old(ctx).schema.0, *ty, *value.0, old(ctx).variable_values.0.table(), r)")],
             loops=[dict(when="__f < ty_def.fields.len()",
                         invariant=[("bounds", "__f <= ty_def.0.fields@.len()"),
                                    ("context_unchanged", "ctx.document == old(ctx).document, ctx.schema == old(ctx).schema, ctx.variable_values == old(ctx).variable_values, ctx.errors@ == old(ctx).errors@"),
                                    ("fields_so_far", "fields_outcome(ty_def.0.fields@, object.of(), %s, __f as int, coerced_object@) == fields_outcome(ty_def.0.fields@, object.of(), %s, 0, Seq::<(Seq<char>, JsonValue)>::empty())" % (VARS, VARS))],
                         decreases="ty_def.0.fields@.len() - __f")],
             hints=[("body_start", None, "broadcast use paths;"),
                    ("after", "let mut coerced_object = JsonMap::new();", "proof { assert(coerced_object@ =~= Seq::<(Seq<char>, JsonValue)>::empty()); }"),
                    ("loop_body_start", 0, "broadcast use paths;")]),
    ],
}
