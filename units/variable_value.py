"""Unit `variable_value` -- C28, KERNEL: `coerce_variable_value` (resolvers/input_coercion.rs), the per-value half of CoerceVariableValues, for every schema,
type and JSON value, EXCEPT the list and input-object cases, which the extraction replaces by opaque calls (stated below, not decided).

Extracted verbatim: coerce_variable_value; enum Type, Type::is_non_null; enum InputCoercionError.

Specification (https://spec.graphql.org/October2021/#sec-Scalars input coercion, #sec-Enums.Input-Coercion, #CoerceVariableValues() 3.h-3.i, with
apollo-compiler's documented rules as listed in the property):
  * null: an error for a non-null type, null otherwise;
  * a named type that is undefined, or an object / interface / union type: an error;
  * Int: an integer within 32 bits; Float: a JSON float, or an integer whose magnitude is below 2^53; String / Boolean: a value of that JSON kind (no coercion of
    strings to numbers or back); ID: a string or an integer; a custom scalar: anything; an enum: a string naming a value of that enum;
  * an accepted value is returned UNCHANGED; everything else is an error.
Listed rewrites (each replaced piece is NOT decided):
  * the list arm's `value.as_array()...iter().map(|item| coerce_variable_value(..)).collect()` -> the opaque `coerce_items(schema, description, inner, value)`;
  * the whole body of the `ExtendedType::InputObject(ty_def) => { .. }` arm -> `return coerce_input_object(schema, description, ty_name, ty_def, value);` (opaque);
  * `ty_def.values.keys().any(|value_name| value_name == str)` -> `enum_has_value(&ty_def.values, str)` (IndexMap key search);
  * `.is_some_and(|f| f.abs() < MAX_SAFE_INT as f64)` -> the closure keeps a call of the opaque `magnitude_below_max_safe_int(f)` (floating point is not reasoned about);
  * `.is_some_and(|value| i32::try_from(value).is_ok())` -> the closure gets its parameter type and postcondition spelled out;
  * `Err(X)?` (a `?` that always returns, converting with From) -> `return Err(InputCoercionError::from(X))`; `format!(..)` -> opaque.
Shims (trusted): serde_json's as_str / as_i64 / as_f64 / is_* on a Value split by kind; Schema.types as a map keyed by the name's text; Option::is_some_and (std
meaning); &str values with equal characters are equal (axiom).
"""
IC = "crates/apollo-compiler/src/resolvers/input_coercion.rs"
AST = "crates/apollo-compiler/src/ast/mod.rs"

PRELUDE = r'''
// ---------------- shims (trusted) ----------------
pub struct SourceSpan { pub x: u64 }
pub struct Name { pub text: String }
impl Name {
    #[verifier::external_body]
    pub fn as_str(&self) -> (r: &str) ensures r@ == self.text@ { unimplemented!() }
    #[verifier::external_body]
    pub fn location(&self) -> Option<SourceSpan> { unimplemented!() }
}
pub type NamedType = Name;
pub struct Node<T>(pub Box<T>);
impl<T> core::ops::Deref for Node<T> {
    type Target = T;
    fn deref(&self) -> (r: &T) ensures *r == *self.0 { &*self.0 }
}
pub struct Valid<T>(pub T);
impl<T> core::ops::Deref for Valid<T> {
    type Target = T;
    fn deref(&self) -> (r: &T) ensures *r == self.0 { &self.0 }
}
pub struct JsonMap { pub x: u64 }
/// serde_json::Value; numbers split the way serde_json::Number answers as_i64 / is_i64 / is_f64 (an unsigned integer above i64::MAX is `BigUint`)
pub enum JsonValue { Null, Bool(bool), Int(i64), BigUint(u64), Float(u64), String(String), Array(Vec<JsonValue>), Object(JsonMap) }
pub uninterp spec fn spec_as_f64(v: JsonValue) -> f64;
impl JsonValue {
    pub fn is_null(&self) -> (r: bool) ensures r == (*self is Null) { match self { JsonValue::Null => true, _ => false } }
    pub fn as_str(&self) -> (r: Option<&str>) ensures match r { Some(s) => *self matches JsonValue::String(t) && s@ == t@, None => !(*self is String) }
    { match self { JsonValue::String(s) => Some(s.as_str()), _ => None } }
    pub fn as_i64(&self) -> (r: Option<i64>) ensures r == (match *self { JsonValue::Int(i) => Some(i), _ => None::<i64> })
    { match self { JsonValue::Int(i) => Some(*i), _ => None } }
    /// any JSON number as a float (integers are converted)
    #[verifier::external_body]
    pub fn as_f64(&self) -> (r: Option<f64>) ensures match r { Some(f) => is_number(*self) && f == spec_as_f64(*self), None => !is_number(*self) } { unimplemented!() }
    pub fn is_i64(&self) -> (r: bool) ensures r == (*self is Int) { match self { JsonValue::Int(_) => true, _ => false } }
    pub fn is_f64(&self) -> (r: bool) ensures r == (*self is Float) { match self { JsonValue::Float(_) => true, _ => false } }
    pub fn is_string(&self) -> (r: bool) ensures r == (*self is String) { match self { JsonValue::String(_) => true, _ => false } }
    pub fn is_boolean(&self) -> (r: bool) ensures r == (*self is Bool) { match self { JsonValue::Bool(_) => true, _ => false } }
}
impl Clone for JsonValue {
    #[verifier::external_body]
    fn clone(&self) -> (r: Self) ensures r == *self { unimplemented!() }
}
pub open spec fn is_number(v: JsonValue) -> bool { v is Int || v is BigUint || v is Float }
/// |f| < 2^53 - 1 (floating point: not reasoned about)
pub uninterp spec fn below_max_safe_int(f: f64) -> bool;
#[verifier::external_body]
pub fn magnitude_below_max_safe_int(f: f64) -> (r: bool) ensures r == below_max_safe_int(f) { unimplemented!() }
pub assume_specification<T, F: FnOnce(T) -> bool>[Option::<T>::is_some_and](o: Option<T>, f: F) -> (r: bool)
    requires o is Some ==> f.requires((o->0,))
    ensures match o { Some(x) => f.ensures((x,), r), None => !r };
// &str values with the same characters are equal (what a string-literal pattern compares) -- assumed axiom, as in unit coordinate
#[verifier::external_body]
pub proof fn axiom_str_ext() ensures forall|a: &str, b: &str| #![trigger a@, b@] a@ =~= b@ ==> a == b { }
#[verifier::external_body]
pub struct EnumValues { x: u8 }
impl EnumValues { pub uninterp spec fn view(&self) -> Set<Seq<char>>; }
#[verifier::external_body]
pub fn enum_has_value(values: &EnumValues, s: &str) -> (r: bool) ensures r == values@.contains(s@) { unimplemented!() }
pub struct EnumType { pub values: EnumValues }
pub struct OtherType { pub x: u64 }
pub struct InputObjectType { pub x: u64 }
pub enum ExtendedType {
    Scalar(Node<OtherType>), Object(Node<OtherType>), Interface(Node<OtherType>), Union(Node<OtherType>), Enum(Node<EnumType>), InputObject(Node<InputObjectType>),
}
#[verifier::external_body]
#[verifier::reject_recursive_types(V)]
pub struct TypeMap<V> { v: core::marker::PhantomData<V> }
impl<V> TypeMap<V> {
    pub uninterp spec fn view(&self) -> Map<Seq<char>, V>;
    #[verifier::external_body]
    pub fn get(&self, k: &Name) -> (r: Option<&V>)
        ensures match r { Some(v) => self@.dom().contains(k.text@) && *v == self@[k.text@], None => !self@.dom().contains(k.text@) }
    { unimplemented!() }
}
pub struct Schema { pub types: TypeMap<ExtendedType> }
pub struct SuspectedValidationBug { pub message: String, pub location: Option<SourceSpan> }
impl InputCoercionError {
    /// `impl From<SuspectedValidationBug> for InputCoercionError` (same file)
    pub fn from(value: SuspectedValidationBug) -> (r: InputCoercionError) ensures r == InputCoercionError::SuspectedValidationBug(value) { InputCoercionError::SuspectedValidationBug(value) }
}
#[verifier::external_body]
pub fn fmt_opaque() -> String { unimplemented!() }
pub struct FmtArgs { pub x: u8 }

pub type Coerced = Result<JsonValue, InputCoercionError>;
/// the two cases the extraction leaves out
pub uninterp spec fn items_coerced(schema: &Schema, inner: Type, value: JsonValue) -> Coerced;
#[verifier::external_body]
pub fn coerce_items(schema: &Valid<Schema>, description: &FmtArgs, inner: &Type, value: &JsonValue) -> (r: Coerced) ensures r == items_coerced(&schema.0, *inner, *value) { unimplemented!() }
pub uninterp spec fn input_object_coerced(schema: &Schema, ty_def: InputObjectType, value: JsonValue) -> Coerced;
#[verifier::external_body]
pub fn coerce_input_object(schema: &Valid<Schema>, description: &FmtArgs, ty_name: &Name, ty_def: &Node<InputObjectType>, value: &JsonValue) -> (r: Coerced)
    ensures r == input_object_coerced(&schema.0, *ty_def.0, *value) { unimplemented!() }

// ---------------- specification ----------------
pub open spec fn non_null(t: Type) -> bool { t is NonNullNamed || t is NonNullList }
pub open spec fn named(t: Type) -> Option<Seq<char>> { match t { Type::Named(n) => Some(n.text@), Type::NonNullNamed(n) => Some(n.text@), _ => None } }
pub open spec fn item_type(t: Type) -> Type { match t { Type::List(i) => *i, Type::NonNullList(i) => *i, _ => t } }
pub open spec fn scalar_acceptable(name: Seq<char>, v: JsonValue) -> bool {
    if name == "Int"@ { v matches JsonValue::Int(i) && i32::MIN <= i <= i32::MAX }
    else if name == "Float"@ { v is Float || (is_number(v) && below_max_safe_int(spec_as_f64(v))) }
    else if name == "String"@ { v is String }
    else if name == "Boolean"@ { v is Bool }
    else if name == "ID"@ { v is String || v is Int }
    else { true }
}
/// the value a variable of type `ty` gets from the provided JSON value `v`
pub open spec fn value_outcome(schema: &Schema, ty: Type, v: JsonValue, r: Coerced) -> bool {
    if v is Null { if non_null(ty) { r is Err } else { r == Ok::<JsonValue, InputCoercionError>(JsonValue::Null) } }
    else { match named(ty) {
        None => r == items_coerced(schema, item_type(ty), v),
        Some(n) => if !schema.types@.dom().contains(n) { r is Err } else { match schema.types@[n] {
            ExtendedType::Object(_) | ExtendedType::Interface(_) | ExtendedType::Union(_) => r is Err,
            ExtendedType::Scalar(_) => if scalar_acceptable(n, v) { r == Ok::<JsonValue, InputCoercionError>(v) } else { r is Err },
            ExtendedType::Enum(e) => if v matches JsonValue::String(s) && e.0.values@.contains(s@) { r == Ok::<JsonValue, InputCoercionError>(v) } else { r is Err },
            ExtendedType::InputObject(_) => true,      // left out of the extraction: not decided
        } },
    } }
}
'''

FMT = (r'format!\((?:[^()]|\([^()]*\))*\)(?=,\n)', "fmt_opaque()", None, "re")

UNIT = {
    "name": "variable_value",
    "properties": ["C28"],
    "parts": [
        PRELUDE,
        dict(file=AST, kind="enum", name="Type", props=["C28"]),
        dict(file="crates/apollo-compiler/src/ast/impls.rs", kind="fn", name="is_non_null", container="Type", container_name="Type", wrap="impl Type", props=["C28"],
             clauses=[("ensures", "NonNull", "r == non_null(*self)")]),
        dict(file=IC, kind="enum", name="InputCoercionError", props=["C28"]),
        dict(file=IC, kind="fn", name="coerce_variable_value", props=["C28"],
             rewrites=[("description: &std::fmt::Arguments<'_>,", "description: &FmtArgs,", 1),
                       (r"(?s)return value\s*\.as_array\(\)\s*\.map\(Vec::as_slice\).*?\.map\(\|item\| coerce_variable_value\(schema, description, inner, item\)\)\s*\.collect\(\);",
                        "return coerce_items(schema, description, inner, value);", 1, "re"),
                       (r"(?s)(ExtendedType::InputObject\(ty_def\) => \{).*?\n        \}\n    \}\n", r"\1\n            return coerce_input_object(schema, description, ty_name, ty_def, value);\n        }\n    }\n", 1, "re"),
                       ("ty_def.values.keys().any(|value_name| value_name == str)", "enum_has_value(&ty_def.values, str)", 1),
                       (r"\.is_some_and\(\|f\| f\.abs\(\) < MAX_SAFE_INT as f64\)", ".is_some_and(|f: f64| -> (b: bool) ensures b == below_max_safe_int(f) { magnitude_below_max_safe_int(f) })", 1, "re"),
                       (r"\.is_some_and\(\|value\| ([^\n]*)\)\n", r".is_some_and(|value: i64| -> (b: bool) ensures b == (i32::MIN <= value <= i32::MAX) { \1 })\n", "*", "re"),
                       (r"(?s)Err\((SuspectedValidationBug \{.*?\n\s*\})\)\?", r"return Err(InputCoercionError::from(\1))", None, "re"),
                       FMT],
             clauses=[("ensures", "CoerceVariableValue", "value_outcome(&schema.0, *ty, *value, r)")],
             hints=[("body_start", None, 'proof { axiom_str_ext(); reveal_strlit("Int"); reveal_strlit("Float"); reveal_strlit("String"); reveal_strlit("Boolean"); reveal_strlit("ID"); }')]),
    ],
}
