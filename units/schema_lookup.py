"""Unit `schema_lookup` -- C18, KERNEL ONLY: `Schema::type_field`, the lookup that gives every field of an executable document its
definition ("each field carries the schema's definition of that field on its parent type (meta-fields included)").

Extracted verbatim from crates/apollo-compiler/src/schema/mod.rs: enum FieldLookupError, Schema::type_field.

Contract (read off the introspection section of the spec and the doc comment, not off the body): the explicit field of an object or
interface type if it has one with that name; otherwise `__typename` on object, interface and union types; otherwise `__schema` / `__type`
on the query root type only; otherwise an error saying whether the TYPE or the FIELD is missing.  Scalars, enums and input objects have
no fields at all (not even `__typename`).

Shims (trusted): IndexMap lookups keyed by the text of the name, the three meta-field definitions as opaque constants,
`schema_definition.query` as an optional name; one axiom: &str values with equal characters are equal.  Listed rewrite: `.is_some_and(|query_type| query_type == type_name)` (closure comparing
a ComponentName with a &str) -> `query_root_is(&self.schema_definition.query, type_name)`.
"""
SM = "crates/apollo-compiler/src/schema/mod.rs"

PRELUDE = r'''
// ---------------- shims (trusted) ----------------
pub struct Name { pub text: String }
pub type NamedType = Name;
pub struct Node<T>(pub Box<T>);
pub struct FieldDefinition { pub x: u64 }
pub struct Component<T> { pub node: Node<T> }
pub struct ComponentName { pub name: Name }
#[verifier::external_body]
#[verifier::reject_recursive_types(V)]
pub struct IndexMap<V> { v: core::marker::PhantomData<V> }
impl<V> IndexMap<V> {
    pub uninterp spec fn view(&self) -> Map<Seq<char>, V>;
    /// the stored key of an entry (its text is the key's text)
    pub uninterp spec fn key_of(&self, k: Seq<char>) -> NamedType;
    #[verifier::external_body]
    pub fn get(&self, k: &str) -> (r: Option<&V>)
        ensures match r { Some(v) => self@.dom().contains(k@) && *v == self@[k@], None => !self@.dom().contains(k@) }
    { unimplemented!() }
    #[verifier::external_body]
    pub fn get_key_value(&self, k: &str) -> (r: Option<(&NamedType, &V)>)
        ensures match r { Some((kk, v)) => self@.dom().contains(k@) && *v == self@[k@] && *kk == self.key_of(k@) && kk.text@ == k@, None => !self@.dom().contains(k@) }
    { unimplemented!() }
}
pub struct ObjectType { pub fields: IndexMap<Component<FieldDefinition>> }
pub struct InterfaceType { pub fields: IndexMap<Component<FieldDefinition>> }
pub struct OtherType { pub x: u64 }
pub enum ExtendedType {
    Scalar(Node<OtherType>), Object(Node<ObjectType>), Interface(Node<InterfaceType>), Union(Node<OtherType>), Enum(Node<OtherType>), InputObject(Node<OtherType>),
}
impl<T> core::ops::Deref for Node<T> {
    type Target = T;
    fn deref(&self) -> (r: &T) ensures *r == *self.0 { &*self.0 }
}
pub struct SchemaDefinition { pub query: Option<ComponentName> }
pub struct Schema { pub types: IndexMap<ExtendedType>, pub schema_definition: Node<SchemaDefinition> }
// schema/mod.rs MetaFieldDefinitions::get(): the three implicit field definitions (a lazily initialised static)
pub struct MetaFieldDefinitions { pub __typename: Component<FieldDefinition>, pub __schema: Component<FieldDefinition>, pub __type: Component<FieldDefinition> }
pub uninterp spec fn meta() -> MetaFieldDefinitions;
impl MetaFieldDefinitions {
    #[verifier::external_body]
    pub fn get() -> (r: &'static MetaFieldDefinitions) ensures *r == meta() { unimplemented!() }
}
#[verifier::external_body]
pub fn query_root_is(q: &Option<ComponentName>, type_name: &str) -> (r: bool)
    ensures r == (q is Some && q->0.name.text@ == type_name@)
{ unimplemented!() }

// &str values with the same characters are equal (what `==` on &str and a string-literal pattern compare) -- assumed axiom
#[verifier::external_body]
pub proof fn axiom_str_ext() ensures forall|a: &str, b: &str| #![trigger a@, b@] a@ =~= b@ ==> a == b { }

// ---------------- specification ----------------
pub open spec fn explicit_field(t: ExtendedType, f: Seq<char>) -> Option<Component<FieldDefinition>> {
    match t {
        ExtendedType::Object(o) => if o.0.fields@.dom().contains(f) { Some(o.0.fields@[f]) } else { None },
        ExtendedType::Interface(i) => if i.0.fields@.dom().contains(f) { Some(i.0.fields@[f]) } else { None },
        _ => None,
    }
}
pub open spec fn is_query_root(s: &Schema, ty: Seq<char>) -> bool { s.schema_definition.0.query is Some && s.schema_definition.0.query->0.name.text@ == ty }
/// the definition of field `f` on type `ty`, meta-fields included
pub open spec fn field_of(s: &Schema, ty: Seq<char>, f: Seq<char>) -> Option<Component<FieldDefinition>> {
    if !s.types@.dom().contains(ty) { None }
    else {
        let t = s.types@[ty];
        if explicit_field(t, f) is Some { explicit_field(t, f) }
        else if f == "__typename"@ && (t is Object || t is Interface || t is Union) { Some(meta().__typename) }
        else if is_query_root(s, ty) && f == "__schema"@ { Some(meta().__schema) }
        else if is_query_root(s, ty) && f == "__type"@ { Some(meta().__type) }
        else { None }
    }
}
'''

UNIT = {
    "name": "schema_lookup",
    "properties": ["C18"],
    "parts": [
        PRELUDE,
        dict(file=SM, kind="enum", name="FieldLookupError", props=["C18"]),
        dict(file=SM, kind="fn", name="type_field", container="Schema", container_name="Schema", wrap="impl Schema", props=["C18"],
             rewrites=[(r"self\s*\.schema_definition\s*\.query\s*\.as_ref\(\)\s*\.is_some_and\(\|query_type\| query_type == type_name\)", "query_root_is(&self.schema_definition.query, type_name)", 1, "re")],
             clauses=[("ensures", "found_iff_the_type_has_that_field_or_meta_field", "r is Ok <==> field_of(self, type_name@, field_name@) is Some"),
                      ("ensures", "returns_exactly_that_definition", "r is Ok ==> *r->Ok_0 == field_of(self, type_name@, field_name@)->0"),
                      ("ensures", "error_says_what_is_missing", "r is Err ==> match r->Err_0 { FieldLookupError::NoSuchType => !self.types@.dom().contains(type_name@), "
                                  "FieldLookupError::NoSuchField(n, t) => self.types@.dom().contains(type_name@) && *t == self.types@[type_name@] && n.text@ == type_name@ }")],
             hints=[("body_start", None, 'proof { reveal_strlit("__typename"); reveal_strlit("__schema"); reveal_strlit("__type"); axiom_str_ext(); }')]),
    ],
}
