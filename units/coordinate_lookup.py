"""Unit `coordinate_lookup` -- C23 (last sentence): looking a coordinate up in a schema returns the element with
exactly those names, and an error if there is none.

Extracted verbatim from crates/apollo-compiler/src/coordinate.rs: the five coordinate structs, enum SchemaLookupError,
enum TypeAttributeLookup, and every `lookup_ref` / `lookup` / `lookup_field` / `lookup_input_field` / `lookup_enum_value`
of TypeCoordinate, TypeAttributeCoordinate, FieldArgumentCoordinate, DirectiveCoordinate, DirectiveArgumentCoordinate.

Schema model (shims, trusted): `Schema.types` / `Schema.directive_definitions` and the `fields` / `values` of the type
definitions are IndexMaps seen as mathematical maps from the key's TEXT to the element (`get` finds exactly the entry with
that text); `argument_by_name` returns the first argument definition with that name, if any.  The element kinds are opaque
structs: the contracts say WHICH element of WHICH map is returned, which is what "the element with exactly those names" means.

Listed rewrite: `.map(TypeAttributeLookup::Field)` (a datatype constructor used as a function value: outside Verus) is
eta-expanded to a closure with its (trivial) postcondition spelled out.
"""
CO = "crates/apollo-compiler/src/coordinate.rs"

PRELUDE = r'''
// ---------------- shims (trusted) ----------------
pub struct Name { pub text: String }
impl Name { pub open spec fn key(&self) -> Seq<char> { self.text@ } }
pub type NamedType = Name;
// Name derefs to its text (name.rs: `impl Deref for Name { type Target = str; .. }`)
impl core::ops::Deref for Name {
    type Target = str;
    #[verifier::external_body]
    fn deref(&self) -> (r: &str) ensures r@ == self.text@ { unimplemented!() }
}
pub struct Node<T>(pub Box<T>);
impl<T> core::ops::Deref for Node<T> {
    type Target = T;
    fn deref(&self) -> (r: &T) ensures *r == *self.0 { &*self.0 }
}
// schema::Component<T>: a Node<T> plus its origin; Deref to the definition
pub struct Component<T> { pub node: Node<T> }
impl<T> core::ops::Deref for Component<T> {
    type Target = T;
    fn deref(&self) -> (r: &T) ensures *r == *self.node.0 { &*self.node.0 }
}
// IndexMap keyed by names, as a map from the name's text
#[verifier::external_body]
#[verifier::reject_recursive_types(K)]
#[verifier::reject_recursive_types(V)]
pub struct IndexMap<K, V> { k: core::marker::PhantomData<(K, V)> }
impl<V> IndexMap<Name, V> {
    pub uninterp spec fn view(&self) -> Map<Seq<char>, V>;
    #[verifier::external_body]
    pub fn get(&self, k: &Name) -> (r: Option<&V>)
        ensures match r { Some(v) => self@.dom().contains(k.key()) && *v == self@[k.key()], None => !self@.dom().contains(k.key()) }
    { unimplemented!() }
}
pub struct InputValueDefinition { pub name: Name, pub x: u64 }
pub struct EnumValueDefinition { pub value: Name, pub x: u64 }
pub struct FieldDefinition { pub name: Name, pub arguments: Vec<Node<InputValueDefinition>>, pub x: u64 }
pub struct DirectiveDefinition { pub name: Name, pub arguments: Vec<Node<InputValueDefinition>>, pub x: u64 }
/// the first argument definition called `name`, if any (ast/impls.rs: `self.arguments.iter().find(|argument| argument.name == name)`)
pub open spec fn first_named(args: Seq<Node<InputValueDefinition>>, name: Seq<char>, r: Option<&Node<InputValueDefinition>>) -> bool {
    match r {
        Some(a) => exists|i: int| 0 <= i < args.len() && #[trigger] args[i] == *a && a.0.name.key() == name
                       && forall|j: int| 0 <= j < i ==> (#[trigger] args[j]).0.name.key() != name,
        None => forall|j: int| 0 <= j < args.len() ==> (#[trigger] args[j]).0.name.key() != name,
    }
}
impl FieldDefinition {
    #[verifier::external_body]
    pub fn argument_by_name(&self, name: &Name) -> (r: Option<&Node<InputValueDefinition>>)
        ensures first_named(self.arguments@, name.key(), r)
    { unimplemented!() }
}
impl DirectiveDefinition {
    #[verifier::external_body]
    pub fn argument_by_name(&self, name: &Name) -> (r: Option<&Node<InputValueDefinition>>)
        ensures first_named(self.arguments@, name.key(), r)
    { unimplemented!() }
}
pub struct ScalarType { pub x: u64 }
pub struct UnionType { pub x: u64 }
pub struct ObjectType { pub fields: IndexMap<Name, Component<FieldDefinition>> }
pub struct InterfaceType { pub fields: IndexMap<Name, Component<FieldDefinition>> }
pub struct EnumType { pub values: IndexMap<Name, Component<EnumValueDefinition>> }
pub struct InputObjectType { pub fields: IndexMap<Name, Component<InputValueDefinition>> }
pub enum ExtendedType {
    Scalar(Node<ScalarType>),
    Object(Node<ObjectType>),
    Interface(Node<InterfaceType>),
    Union(Node<UnionType>),
    Enum(Node<EnumType>),
    InputObject(Node<InputObjectType>),
}
pub struct Schema { pub types: IndexMap<NamedType, ExtendedType>, pub directive_definitions: IndexMap<Name, Node<DirectiveDefinition>> }

// Schema::type_field (schema/mod.rs), the schema's own "explicit field or meta-field" lookup, with the contract read off its body:
// the explicit field of an object / interface type if there is one; otherwise the meta-fields `__typename` (object, interface, union)
// and `__schema` / `__type` (query root type); otherwise an error.  Present so that code routed through it is judged, not rejected.
pub enum FieldLookupError<'schema> { NoSuchType, NoSuchField(&'schema NamedType, &'schema ExtendedType) }
pub uninterp spec fn meta_typename() -> Component<FieldDefinition>;
pub uninterp spec fn meta_schema() -> Component<FieldDefinition>;
pub uninterp spec fn meta_type() -> Component<FieldDefinition>;
impl Schema {
    pub uninterp spec fn is_query_root(&self, ty: Seq<char>) -> bool;
    #[verifier::external_body]
    pub fn type_field(&self, type_name: &str, field_name: &str) -> (r: Result<&Component<FieldDefinition>, FieldLookupError<'_>>)
        ensures
            !self.types@.dom().contains(type_name@) ==> r is Err && r->Err_0 is NoSuchType,
            self.types@.dom().contains(type_name@) ==> {
                let t = self.types@[type_name@];
                if has_fields(t) && field_map(t).dom().contains(field_name@) { r is Ok && *r->Ok_0 == field_map(t)[field_name@] }
                else if field_name@ == "__typename"@ && (t is Object || t is Interface || t is Union) { r is Ok && *r->Ok_0 == meta_typename() }
                else if self.is_query_root(type_name@) && field_name@ == "__schema"@ { r is Ok && *r->Ok_0 == meta_schema() }
                else if self.is_query_root(type_name@) && field_name@ == "__type"@ { r is Ok && *r->Ok_0 == meta_type() }
                else { r is Err && r->Err_0 is NoSuchField && *r->Err_0->NoSuchField_1 == t }
            },
    { unimplemented!() }
}

// ---------------- specification ----------------
pub open spec fn has_type(s: &Schema, ty: &Name) -> bool { s.types@.dom().contains(ty.key()) }
pub open spec fn type_of(s: &Schema, ty: &Name) -> ExtendedType { s.types@[ty.key()] }
/// the field map of an object or interface type
pub open spec fn field_map(t: ExtendedType) -> Map<Seq<char>, Component<FieldDefinition>> {
    match t { ExtendedType::Object(o) => o.0.fields@, ExtendedType::Interface(i) => i.0.fields@, _ => Map::empty() }
}
pub open spec fn has_fields(t: ExtendedType) -> bool { t is Object || t is Interface }
'''

DROP_ERR_ATTR = (r"(?m)^[ \t]*#\[error\([^\n]*\)\]\s*\n", "", None, "re")
ETA = [
    (r"\.map\(TypeAttributeLookup::EnumValue\)", ".map(|x: &'schema Component<EnumValueDefinition>| -> (y: TypeAttributeLookup<'schema>) ensures y == TypeAttributeLookup::EnumValue(x) { TypeAttributeLookup::EnumValue(x) })", None, "re"),
    (r"\.map\(TypeAttributeLookup::InputField\)", ".map(|x: &'schema Component<InputValueDefinition>| -> (y: TypeAttributeLookup<'schema>) ensures y == TypeAttributeLookup::InputField(x) { TypeAttributeLookup::InputField(x) })", None, "re"),
    (r"\.map\(TypeAttributeLookup::Field\)", ".map(|x: &'schema Component<FieldDefinition>| -> (y: TypeAttributeLookup<'schema>) ensures y == TypeAttributeLookup::Field(x) { TypeAttributeLookup::Field(x) })", None, "re"),
]


def S(name):
    return dict(file=CO, kind="struct", name=name, props=["C23"])


def F(ty, name, clauses, **kw):
    d = dict(file=CO, kind="fn", name=name, container=ty, container_name=ty, wrap="impl %s" % ty, clauses=clauses, props=["C23"])
    d.update(kw)
    return d


# result of looking up `Type.attribute`
ATTR_OK = ("r is Ok <==> (has_type(schema, {ty}) && match type_of(schema, {ty}) {{ "
           "ExtendedType::Enum(e) => e.0.values@.dom().contains({at}.key()), "
           "ExtendedType::InputObject(i) => i.0.fields@.dom().contains({at}.key()), "
           "ExtendedType::Object(o) => o.0.fields@.dom().contains({at}.key()), "
           "ExtendedType::Interface(i) => i.0.fields@.dom().contains({at}.key()), "
           "_ => false }})")
ATTR_VAL = ("r is Ok ==> match type_of(schema, {ty}) {{ "
            "ExtendedType::Enum(e) => r->Ok_0 is EnumValue && *r->Ok_0->EnumValue_0 == e.0.values@[{at}.key()], "
            "ExtendedType::InputObject(i) => r->Ok_0 is InputField && *r->Ok_0->InputField_0 == i.0.fields@[{at}.key()], "
            "ExtendedType::Object(o) => r->Ok_0 is Field && *r->Ok_0->Field_0 == o.0.fields@[{at}.key()], "
            "ExtendedType::Interface(i) => r->Ok_0 is Field && *r->Ok_0->Field_0 == i.0.fields@[{at}.key()], "
            "_ => false }}")
ATTR_ERR = ("r is Err ==> match r->Err_0 {{ "
            "SchemaLookupError::MissingType(n) => !has_type(schema, {ty}) && n.key() == {ty}.key(), "
            "SchemaLookupError::MissingAttribute(n) => has_type(schema, {ty}) && !(type_of(schema, {ty}) is Union || type_of(schema, {ty}) is Scalar) && n.key() == {at}.key(), "
            "SchemaLookupError::InvalidType(t) => has_type(schema, {ty}) && (type_of(schema, {ty}) is Union || type_of(schema, {ty}) is Scalar) && *t == type_of(schema, {ty}), "
            "_ => false }}")


def attr(ty, at):
    return [("ensures", "found_iff_the_type_has_that_attribute", ATTR_OK.format(ty=ty, at=at)),
            ("ensures", "returns_exactly_that_element", ATTR_VAL.format(ty=ty, at=at)),
            ("ensures", "error_names_what_is_missing", ATTR_ERR.format(ty=ty, at=at))]


TYPE_POST = lambda ty: [
    ("ensures", "found_iff_the_type_exists", "r is Ok <==> has_type(schema, %s)" % ty),
    ("ensures", "returns_exactly_that_type", "r is Ok ==> *r->Ok_0 == type_of(schema, %s)" % ty),
    ("ensures", "error_names_the_missing_type", "r is Err ==> r->Err_0 is MissingType && r->Err_0->MissingType_0.key() == %s.key()" % ty),
]
DIR_POST = lambda d: [
    ("ensures", "found_iff_the_directive_exists", "r is Ok <==> schema.directive_definitions@.dom().contains(%s.key())" % d),
    ("ensures", "returns_exactly_that_directive", "r is Ok ==> *r->Ok_0 == schema.directive_definitions@[%s.key()]" % d),
    ("ensures", "error_names_the_missing_directive", "r is Err ==> r->Err_0 is MissingType && r->Err_0->MissingType_0.key() == %s.key()" % d),
]


def one_kind(ty, at, variant, mapexpr, kindtest):
    """lookup_field / lookup_input_field / lookup_enum_value"""
    return [
        ("ensures", "found_iff_right_kind_of_type_with_that_attribute",
         "r is Ok <==> (has_type(schema, {ty}) && {kt} && ({me}).dom().contains({at}.key()))".format(ty=ty, at=at, kt=kindtest, me=mapexpr)),
        ("ensures", "returns_exactly_that_element", "r is Ok ==> *r->Ok_0 == ({me})[{at}.key()]".format(at=at, me=mapexpr)),
        ("ensures", "error_names_what_is_missing",
         ("r is Err ==> match r->Err_0 {{ SchemaLookupError::MissingType(n) => !has_type(schema, {ty}) && n.key() == {ty}.key(), "
          "SchemaLookupError::MissingAttribute(n) => has_type(schema, {ty}) && {kt} && n.key() == {at}.key(), "
          "SchemaLookupError::InvalidType(t) => has_type(schema, {ty}) && !({kt}) && *t == type_of(schema, {ty}), _ => false }}").format(ty=ty, at=at, kt=kindtest)),
    ]


def ARG_OK(ty, field, arg):
    fm = "field_map(type_of(schema, %s))[%s.key()].node.0.arguments@" % (ty, field)
    return ("r is Ok <==> (has_type(schema, {ty}) && has_fields(type_of(schema, {ty})) && field_map(type_of(schema, {ty})).dom().contains({f}.key()) "
            "&& exists|i: int| 0 <= i < {fm}.len() && (#[trigger] {fm}[i]).0.name.key() == {a}.key())").format(ty=ty, f=field, a=arg, fm=fm)


def ARG_VAL(ty, field, arg):
    return "r is Ok ==> first_named(field_map(type_of(schema, %s))[%s.key()].node.0.arguments@, %s.key(), Some(r->Ok_0))" % (ty, field, arg)


def DARG_OK(d, arg):
    dm = "schema.directive_definitions@[%s.key()].0.arguments@" % d
    return ("r is Ok <==> (schema.directive_definitions@.dom().contains({d}.key()) "
            "&& exists|i: int| 0 <= i < {dm}.len() && (#[trigger] {dm}[i]).0.name.key() == {a}.key())").format(d=d, a=arg, dm=dm)


def DARG_VAL(d, arg):
    return "r is Ok ==> first_named(schema.directive_definitions@[%s.key()].0.arguments@, %s.key(), Some(r->Ok_0))" % (d, arg)


UNIT = {
    "name": "coordinate_lookup",
    "properties": ["C23"],
    "parts": [
        PRELUDE,
        S("TypeCoordinate"), S("TypeAttributeCoordinate"), S("FieldArgumentCoordinate"), S("DirectiveCoordinate"), S("DirectiveArgumentCoordinate"),
        dict(file=CO, kind="enum", name="SchemaLookupError", props=["C23"], rewrites=[DROP_ERR_ATTR]),
        dict(file=CO, kind="enum", name="TypeAttributeLookup", props=["C23"]),

        F("TypeCoordinate", "lookup_ref", TYPE_POST("ty")),
        F("TypeCoordinate", "lookup", TYPE_POST("(&self.ty)")),

        F("TypeAttributeCoordinate", "lookup_ref", attr("ty", "attribute"), rewrites=ETA),
        F("TypeAttributeCoordinate", "lookup", attr("(&self.ty)", "(&self.attribute)")),
        F("TypeAttributeCoordinate", "lookup_field",
          one_kind("(&self.ty)", "(&self.attribute)", "Field", "field_map(type_of(schema, &self.ty))", "has_fields(type_of(schema, &self.ty))")),
        F("TypeAttributeCoordinate", "lookup_input_field",
          one_kind("(&self.ty)", "(&self.attribute)", "InputField", "type_of(schema, &self.ty)->InputObject_0.0.fields@", "type_of(schema, &self.ty) is InputObject")),
        F("TypeAttributeCoordinate", "lookup_enum_value",
          one_kind("(&self.ty)", "(&self.attribute)", "EnumValue", "type_of(schema, &self.ty)->Enum_0.0.values@", "type_of(schema, &self.ty) is Enum")),

        F("FieldArgumentCoordinate", "lookup_ref", [
            ("ensures", "found_iff_the_field_has_that_argument", ARG_OK("ty", "field", "argument")),
            ("ensures", "returns_exactly_that_argument", ARG_VAL("ty", "field", "argument")),
            ("ensures", "error_names_what_is_missing",
             "r is Err ==> match r->Err_0 { SchemaLookupError::MissingType(n) => !has_type(schema, ty) && n.key() == ty.key(), "
             "SchemaLookupError::MissingAttribute(n) => has_type(schema, ty) && n.key() == field.key(), "
             "SchemaLookupError::InvalidType(t) => has_type(schema, ty) && *t == type_of(schema, ty), "
             "SchemaLookupError::InvalidArgumentAttribute(n) => has_type(schema, ty) && !has_fields(type_of(schema, ty)) && n.key() == field.key(), "
             "SchemaLookupError::MissingArgument(n) => has_type(schema, ty) && has_fields(type_of(schema, ty)) && field_map(type_of(schema, ty)).dom().contains(field.key()) && n.key() == argument.key() }"),
        ]),
        F("FieldArgumentCoordinate", "lookup", [
            ("ensures", "found_iff_the_field_has_that_argument", ARG_OK("(&self.ty)", "self.field", "self.argument")),
            ("ensures", "returns_exactly_that_argument", ARG_VAL("(&self.ty)", "self.field", "self.argument")),
        ]),

        F("DirectiveCoordinate", "lookup_ref", DIR_POST("directive")),
        F("DirectiveCoordinate", "lookup", DIR_POST("self.directive")),
        F("DirectiveArgumentCoordinate", "lookup_ref", [
            ("ensures", "found_iff_the_directive_has_that_argument", DARG_OK("directive", "argument")),
            ("ensures", "returns_exactly_that_argument", DARG_VAL("directive", "argument")),
            ("ensures", "error_names_what_is_missing",
             "r is Err ==> match r->Err_0 { SchemaLookupError::MissingType(n) => !schema.directive_definitions@.dom().contains(directive.key()) && n.key() == directive.key(), "
             "SchemaLookupError::MissingArgument(n) => schema.directive_definitions@.dom().contains(directive.key()) && n.key() == argument.key(), _ => false }"),
        ]),
        F("DirectiveArgumentCoordinate", "lookup", [
            ("ensures", "found_iff_the_directive_has_that_argument", DARG_OK("self.directive", "self.argument")),
            ("ensures", "returns_exactly_that_argument", DARG_VAL("self.directive", "self.argument")),
        ]),
    ],
}
