"""Unit `error` -- the real constructors and accessors of apollo_parser::Error (crates/apollo-parser/src/error.rs), which the units lexer,
lexer_next, limits and parser_core use through shims: `Error::with_loc`, `limit`, `eof`, `data`, `is_limit`, `is_eof`, `set_data`, `index`;
`ErrorData::len`.  Extracted verbatim (enum ErrorData, struct Error, the nine functions).

Proved (each implies the clause the shims assume; the correspondence is one field per accessor -- shim `is_limit` = `spec_is_limit()`, shim `data@` = `spec_text()`):
  with_loc(m, data, i): not a limit error, not an EOF error, text == data, index == i      (shims: `r.data == data, !r.is_limit`)
  limit(m, i)         : a limit error with empty text                                         (shims: `r.is_limit, r.data@ =~= empty`)
  eof(m, i)           : an EOF error, not a limit error, empty text                           (shim in parser_core: `!r.is_limit`)
  set_data(data)      : text == data, no longer a limit / EOF error, index kept               (shim in lexer: `final.data == data, !final.is_limit`)
  data() / is_limit() / is_eof() / index() read those back.
This closes the last assumed link in C04's "a limit error is produced by Lexer::next only": the state machine builds its errors with with_loc / set_data (proved
never-limit here), unit lexer_strings proves that no call of `advance` / `eof` / `done` returns a limit error, unit lexer_next assumes exactly that clause.

Listed rewrite: `message.into()` (generic `S: Into<String>`) -> `into_string(message)` (opaque: the message is not part of any contract).
"""
ER = "crates/apollo-parser/src/error.rs"

PRELUDE = r'''
#[verifier::external_body]
pub fn into_string<S>(s: S) -> String { unimplemented!() }
#[verifier::external_body]
pub fn str_byte_len_of(s: &String) -> (r: usize) { unimplemented!() }
'''
SPEC = r'''
impl Error {
    pub open spec fn spec_is_limit(&self) -> bool { self.data is LimitExceeded }
    pub open spec fn spec_is_eof(&self) -> bool { self.data is Eof }
    pub open spec fn spec_text(&self) -> Seq<char> { match self.data { ErrorData::Text(t) => t@, _ => Seq::<char>::empty() } }
}
'''


def E(name, clauses, **kw):
    d = dict(file=ER, kind="fn", name=name, container="Error", container_name="Error", wrap="impl Error", clauses=clauses, props=["C04", "C01"],
             rewrites=[("message.into()", "into_string(message)", "*")])
    d.update(kw)
    return d


UNIT = {
    "name": "error",
    "properties": ["C04", "C01"],
    "parts": [
        PRELUDE,
        dict(file=ER, kind="enum", name="ErrorData", props=["C04", "C01"]),
        dict(file=ER, kind="struct", name="Error", props=["C04", "C01"], pub_fields=True),
        SPEC,
        E("with_loc", [("ensures", "text_error", "!r.spec_is_limit() && !r.spec_is_eof() && r.spec_text() == data@ && r.index == index")]),
        E("limit", [("ensures", "limit_error_without_text", "r.spec_is_limit() && r.spec_text() =~= Seq::<char>::empty() && r.index == index")]),
        E("eof", [("ensures", "eof_error_without_text", "r.spec_is_eof() && !r.spec_is_limit() && r.spec_text() =~= Seq::<char>::empty() && r.index == index")]),
        E("data", [("ensures", "reads_the_text", "r@ =~= self.spec_text()")], hints=[("body_start", None, 'proof { reveal_strlit(""); }')]),
        E("is_limit", [("ensures", "reads_the_flag", "r == self.spec_is_limit()")]),
        E("is_eof", [("ensures", "reads_the_flag", "r == self.spec_is_eof()")]),
        E("set_data", [("ensures", "becomes_a_text_error", "final(self).spec_text() == data@ && !final(self).spec_is_limit() && !final(self).spec_is_eof() && final(self).index == old(self).index")]),
        E("index", [("ensures", "reads_the_index", "r == self.index")]),
    ],
}
