"""Unit `executable_ctor` -- C18, KERNEL (second part): the constructors through which every field / inline fragment of an executable
document gets its type annotations (executable/mod.rs; used by `from_ast` and by programmatic construction alike):

  SelectionSet::new, SelectionSet::new_field, SelectionSet::new_inline_fragment, Field::new, Field::ty,
  InlineFragment::with_type_condition, InlineFragment::without_type_condition

Contracts ("each field carries the schema's definition of that field on its parent type (meta-fields included); selection sets are typed by the
field's inner type / the type condition / the parent type"):
  * new_field(schema, name) is Ok exactly when `field_of(schema, parent type, name)` exists -- the specification function of unit `schema_lookup`
    (shared text; `Schema::type_field` appears here as a shim with the clauses that unit PROVES) -- and then the field's definition IS that
    definition, its name is `name`, and its sub-selection set is typed by the inner named type of the definition's type, and empty;
  * an inline fragment's selection set is typed by its type condition, or by the parent selection set's type when it has none.

Listed rewrites: `&self.ty` / `&name` (a Name derefs to str) -> `self.ty.as_str()` / `name.as_str()`.
Shims (trusted): Name::clone / Node::clone copy; DirectiveList::new is empty (opaque); the enum ast::Type and Type::inner_named_type are extracted
with the contract unit `types` proves.
"""
import importlib.util as _ilu
import os as _os
import schema_lookup as SL

_spec = _ilu.spec_from_file_location("verif_unit_types", _os.path.join(_os.path.dirname(_os.path.abspath(__file__)), "types.py"))   # not `import types`
TY = _ilu.module_from_spec(_spec)
_spec.loader.exec_module(TY)
_a = TY.PRELUDE.index("// ---------------- specification (from the spec text) ----------------")
_b = TY.PRELUDE.index("// https://spec.graphql.org/October2021/#AreTypesCompatible()")
TYPE_SPEC = TY.PRELUDE[_a:_b]

EXM = "crates/apollo-compiler/src/executable/mod.rs"

_tf = [p for p in SL.UNIT["parts"] if isinstance(p, dict) and p.get("name") == "type_field"][0]
TYPE_FIELD_ENS = ",\n            ".join(c[2].replace("r is", "r is").replace("self", "self") for c in _tf["clauses"] if c[0] == "ensures")

# schema_lookup's prelude defines FieldDefinition { x: u64 }: here it needs its type
SLP = SL.PRELUDE.replace("pub struct FieldDefinition { pub x: u64 }", "pub struct FieldDefinition { pub ty: Type }")
assert SLP != SL.PRELUDE

PRELUDE = TYPE_SPEC + SLP + r'''
// ---------------- further shims (trusted) ----------------
pub enum FieldLookupError<'schema> { NoSuchType, NoSuchField(&'schema NamedType, &'schema ExtendedType) }
pub mod schema { pub use super::{FieldLookupError, FieldDefinition, ExtendedType}; }
impl Schema {
    // Schema::type_field: contract PROVED in unit schema_lookup (same clause text), assumed here
    #[verifier::external_body]
    pub fn type_field(&self, type_name: &str, field_name: &str) -> (r: Result<&Component<FieldDefinition>, FieldLookupError<'_>>)
        ensures
            @TYPE_FIELD_ENS@
    { unimplemented!() }
}
impl Name {
    #[verifier::external_body]
    pub fn as_str(&self) -> (r: &str) ensures r@ == self.text@ { unimplemented!() }
}
impl Clone for Name {
    #[verifier::external_body]
    fn clone(&self) -> (r: Self) ensures r == *self { unimplemented!() }
}
impl<T> Clone for Node<T> {
    #[verifier::external_body]
    fn clone(&self) -> (r: Self) ensures r == *self { unimplemented!() }
}
pub struct DirectiveList { pub x: u64 }
impl DirectiveList {
    #[verifier::external_body]
    pub fn new() -> (r: Self) { unimplemented!() }
}
pub struct Argument { pub x: u64 }
pub struct FragmentSpread { pub x: u64 }
pub enum Selection { Field(Node<Field>), FragmentSpread(Node<FragmentSpread>), InlineFragment(Node<InlineFragment>) }
'''.replace("@TYPE_FIELD_ENS@", TYPE_FIELD_ENS)

UNIT = {
    "name": "executable_ctor",
    "properties": ["C18"],
    "parts": [
        PRELUDE,
        dict(file="crates/apollo-compiler/src/ast/mod.rs", kind="enum", name="Type", props=["C18"]),
    ] + [dict(p, props=["C18"]) for p in TY.UNIT["parts"] if isinstance(p, dict) and p.get("container_name") == "Type" and p.get("name") == "inner_named_type"] + [
        dict(file=EXM, kind="struct", name="SelectionSet", props=["C18"], pub_fields=True),
        dict(file=EXM, kind="struct", name="Field", props=["C18"], pub_fields=True),
        dict(file=EXM, kind="struct", name="InlineFragment", props=["C18"], pub_fields=True),
        dict(file=EXM, kind="fn", name="new", container="SelectionSet", container_name="SelectionSet", wrap="impl SelectionSet", props=["C18"],
             clauses=[("ensures", "typed_and_empty", "r.ty == ty && r.selections@.len() == 0")]),
        dict(file=EXM, kind="fn", name="new", container="Field", container_name="Field", wrap="impl Field", props=["C18"],
             clauses=[("ensures", "carries_the_definition", "r.definition == definition && r.name == name && r.alias is None && r.arguments@.len() == 0"),
                      ("ensures", "sub_selections_typed_by_the_inner_type", "r.selection_set.ty == spec_inner_name(definition.0.ty) && r.selection_set.selections@.len() == 0")]),
        dict(file=EXM, kind="fn", name="ty", container="Field", container_name="Field", wrap="impl Field", props=["C18"],
             clauses=[("ensures", "type_of_the_definition", "*r == self.definition.0.ty")]),
        dict(file=EXM, kind="fn", name="with_type_condition", container="InlineFragment", container_name="InlineFragment", wrap="impl InlineFragment", props=["C18"],
             clauses=[("ensures", "typed_by_the_type_condition", "r.type_condition == Some(type_condition) && r.selection_set.ty == type_condition && r.selection_set.selections@.len() == 0")]),
        dict(file=EXM, kind="fn", name="without_type_condition", container="InlineFragment", container_name="InlineFragment", wrap="impl InlineFragment", props=["C18"],
             clauses=[("ensures", "typed_by_the_parent", "r.type_condition is None && r.selection_set.ty == parent_selection_set_type && r.selection_set.selections@.len() == 0")]),
        dict(file=EXM, kind="fn", name="new_field", container="SelectionSet", container_name="SelectionSet", wrap="impl SelectionSet", props=["C18"],
             rewrites=[("schema.type_field(&self.ty, &name)", "schema.type_field(self.ty.as_str(), name.as_str())", 1)],
             clauses=[("ensures", "ok_iff_the_parent_type_has_that_field_or_meta_field", "r is Ok <==> field_of(schema, self.ty.text@, name.text@) is Some"),
                      ("ensures", "carries_exactly_that_definition", "r is Ok ==> r->Ok_0.definition == field_of(schema, self.ty.text@, name.text@)->0.node && r->Ok_0.name == name"),
                      ("ensures", "sub_selections_typed_by_the_inner_type", "r is Ok ==> r->Ok_0.selection_set.ty == spec_inner_name(r->Ok_0.definition.0.ty) && r->Ok_0.selection_set.selections@.len() == 0")]),
        dict(file=EXM, kind="fn", name="new_inline_fragment", container="SelectionSet", container_name="SelectionSet", wrap="impl SelectionSet", props=["C18"],
             clauses=[("ensures", "typed_by_the_condition_or_the_parent",
                       "r.type_condition == opt_type_condition && r.selection_set.ty == (if opt_type_condition is Some { opt_type_condition->0 } else { self.ty }) && r.selection_set.selections@.len() == 0")]),
    ],
}
