"""Unit `smith_lists` -- C33, KERNEL: `ResponseBuilder::generate_field_value` (apollo-smith/src/response.rs): the generated value "nests lists exactly as the
field types do".

Extracted verbatim: generate_field_value; enum Type, Type::is_list, Type::inner_named_type (ast/impls.rs).
Specification: `shape_ok(ty, v)` -- for a list type the value is an array whose items have the shape of the item type; for a named type it is not an array.
Listed rewrites: `for field in fields {` -> an index loop; the impl header's generics are dropped.
Shims (ASSUMED from reading the four callees, default generators only): `leaf_field` and `selection_set` return a value that is not an array;
`repeated_leaf_field` and `repeated_selection_set` return an array of such values.
KNOWN FINDING on the unchanged tree: the function looks at ONE list level (`is_list()`), so for a field of type `[[Int]]` it returns a flat list
(`repeated_leaf_field(inner_named_type)`): the clause `nested_list_types_get_nested_lists` fails (recorded in known_findings.json, not repaired); the clause for
types with at most one list level is discharged.
"""
RESP = "crates/apollo-smith/src/response.rs"
AST = "crates/apollo-compiler/src/ast/mod.rs"
IMPLS = "crates/apollo-compiler/src/ast/impls.rs"

PRELUDE = r'''
pub struct ResponseError { pub x: u8 }
pub struct Name { pub text: String }
pub type NamedType = Name;
impl Clone for Name {
    #[verifier::external_body]
    fn clone(&self) -> (r: Self) ensures r == *self { unimplemented!() }
}
pub struct Node<T>(pub Box<T>);
impl<T> core::ops::Deref for Node<T> {
    type Target = T;
    fn deref(&self) -> (r: &T) ensures *r == *self.0 { &*self.0 }
}
pub struct Selection { pub x: u64 }
pub struct SelectionSet { pub ty: Name, pub selections: Vec<Selection> }
impl SelectionSet {
    pub fn is_empty(&self) -> (r: bool) ensures r == (self.selections@.len() == 0) { self.selections.len() == 0 }
}
pub struct FieldDefinition { pub ty: Type }
pub struct Field { pub definition: Node<FieldDefinition>, pub selection_set: SelectionSet }
impl Field {
    pub fn ty(&self) -> (r: &Type) ensures *r == self.definition.0.ty { &self.definition.ty }
}
#[verifier::external_body]
pub fn extend_from_slice(v: &mut Vec<Selection>, s: &Vec<Selection>) ensures final(v)@ == old(v)@ + s@ { unimplemented!() }
pub enum Value { Null, Array(Vec<Value>), Other(u64) }
pub struct ResponseBuilder { pub x: u64 }
pub open spec fn flat(v: Value) -> bool { !(v is Array) }
pub open spec fn flat_items(v: Value) -> bool { v matches Value::Array(items) && forall|i: int| 0 <= i < items@.len() ==> flat(#[trigger] items@[i]) }
impl ResponseBuilder {
    #[verifier::external_body]
    pub fn selection_set(&mut self, selection_set: &SelectionSet) -> (r: Result<Value, ResponseError>) ensures r matches Ok(v) ==> flat(v) { unimplemented!() }
    #[verifier::external_body]
    pub fn repeated_selection_set(&mut self, selection_set: &SelectionSet) -> (r: Result<Value, ResponseError>) ensures r matches Ok(v) ==> flat_items(v) { unimplemented!() }
    #[verifier::external_body]
    pub fn leaf_field(&mut self, type_name: &Name) -> (r: Result<Value, ResponseError>) ensures r matches Ok(v) ==> flat(v) { unimplemented!() }
    #[verifier::external_body]
    pub fn repeated_leaf_field(&mut self, type_name: &Name) -> (r: Result<Value, ResponseError>) ensures r matches Ok(v) ==> flat_items(v) { unimplemented!() }
}
pub open spec fn list_of_lists(ty: Type) -> bool { match ty { Type::List(i) | Type::NonNullList(i) => *i is List || *i is NonNullList, _ => false } }
/// lists nested exactly as in the type
pub open spec fn shape_ok(ty: Type, v: Value) -> bool decreases ty {
    match ty {
        Type::Named(_) | Type::NonNullNamed(_) => flat(v),
        Type::List(inner) | Type::NonNullList(inner) => v matches Value::Array(items) && forall|i: int| 0 <= i < items@.len() ==> shape_ok(*inner, #[trigger] items@[i]),
    }
}
'''

UNIT = {
    "name": "smith_lists",
    "properties": ["C33"],
    "parts": [
        PRELUDE,
        dict(file=AST, kind="enum", name="Type", props=["C33"]),
        dict(file=IMPLS, kind="fn", name="is_list", container="Type", container_name="Type", wrap="impl Type", props=["C33"],
             clauses=[("ensures", "a_list_type", "r == (self is List || self is NonNullList)")]),
        dict(file=IMPLS, kind="fn", name="inner_named_type", container="Type", container_name="Type", wrap="impl Type", props=["C33"],
             clauses=[("decreases", "structural", "self")]),
        dict(file=RESP, kind="fn", name="generate_field_value", container="ResponseBuilder<'a, 'doc, 'schema, R>", container_name="ResponseBuilder", wrap="impl ResponseBuilder", props=["C33"],
             n_loops=1,
             rewrites=[("for field in fields {", "let mut __k: usize = 0; while __k < fields.len() { let field = &fields[__k]; __k += 1;", 1),
                       ("merged_selections.extend_from_slice(&field.selection_set.selections);", "extend_from_slice(&mut merged_selections, &field.selection_set.selections);", 1)],
             clauses=[("ensures", "a_list_type_gets_a_list_and_a_named_type_does_not",
                       "!list_of_lists(meta_field.0.definition.0.ty) ==> (r matches Ok(v) ==> shape_ok(meta_field.0.definition.0.ty, v))"),
                      ("ensures", "nested_list_types_get_nested_lists",
                       "list_of_lists(meta_field.0.definition.0.ty) ==> (r matches Ok(v) ==> shape_ok(meta_field.0.definition.0.ty, v))")],
             loops=[dict(invariant=[("bounds", "__k <= fields@.len()")], decreases="fields@.len() - __k")],
             hints=[("body_start", None, "proof { reveal_with_fuel(shape_ok, 3); }")]),
    ],
}
