"""Unit `impl_args` -- C14 / C15, KERNEL: `validate_implementation_field_arguments`, the argument half of IsValidImplementation
(https://spec.graphql.org/October2021/#IsValidImplementation(), steps 2.c / 2.d):
  for each field of each implemented interface that the implementor also defines,
    * every argument of the interface field must exist on the implementing field with THE SAME type (invariant: not a subtype, not a
      type of different nullability), and
    * every additional argument of the implementing field must not be required (non-null without default value).

Extracted verbatim from crates/apollo-compiler/src/validation/interface.rs: is_required_argument, validate_implementation_field_arguments;
enum ast::Type and Type::is_non_null from ast/.

Contract: the diagnostics appended are EXACTLY the reports owed, in order (interfaces in declaration order; per interface its fields in
order; per field first the interface's arguments, then the implementor's extra ones), each naming implementor, interface, field and
argument; earlier diagnostics are kept.  `owed*` are written from the rule above.

Listed rewrites (each pinned): parameter types IndexMap / IndexSet -> the sequence-view shims of unit `types`; `for x in &collection` ->
the language's own desugaring into an index loop (Verus: `continue` inside `for`); `.iter().find(|a| P)` / `.iter().any(|a| P)` ->
`vec_find(&v, closure)` / `vec_any(&v, closure)` where the closure keeps the predicate P verbatim as its body and gets its type and postcondition spelled out
(`ensures b == (P)`, with field accesses through a Node written `.0.` in the spec copy) -- so a changed predicate is judged, not lost;
`*a.ty != *b.ty` -> `!type_eq(&a.ty, &b.ty)` (shim of the derived, structural PartialEq of ast::Type).

Shims (trusted): Name as an id (equality of names = equality of texts); Node / Component as Box + Deref, locations opaque;
DiagnosticList::push appends; IndexMap / IndexSet iterate in insertion order and `get` finds the entry with that key;
Schema::get_interface returns the interface type with that name if there is one.
"""
import importlib.util as _ilu
import os as _os
_spec = _ilu.spec_from_file_location("verif_unit_types", _os.path.join(_os.path.dirname(_os.path.abspath(__file__)), "types.py"))   # not `import types`: that is the stdlib module
TY = _ilu.module_from_spec(_spec)
_spec.loader.exec_module(TY)
_a = TY.PRELUDE.index("// ---------------- specification (from the spec text) ----------------")
_b = TY.PRELUDE.index("// https://spec.graphql.org/October2021/#IsVariableUsageAllowed()")
TYPE_SPEC = TY.PRELUDE[_a:_b]      # spec_non_null .. are_types_compatible: the text of unit `types`

IMPLS = "crates/apollo-compiler/src/ast/impls.rs"
IFACE = "crates/apollo-compiler/src/validation/interface.rs"

PRELUDE = TYPE_SPEC + r'''
// ---------------- shims (trusted) ----------------
#[derive(PartialEq, Eq, Structural)]
pub struct Name { pub id: u64 }
impl Clone for Name {
    fn clone(&self) -> (r: Self) ensures r == *self { Name { id: self.id } }
}
pub type NamedType = Name;
pub struct SourceSpan { pub x: u64 }
pub struct Node<T>(pub Box<T>);
impl<T> core::ops::Deref for Node<T> {
    type Target = T;
    fn deref(&self) -> (r: &T) ensures *r == *self.0 { &*self.0 }
}
impl<T> Node<T> {
    #[verifier::external_body]
    pub fn location(&self) -> Option<SourceSpan> { unimplemented!() }
}
impl Clone for Node<Type> {
    #[verifier::external_body]
    fn clone(&self) -> (r: Self) ensures r == *self { unimplemented!() }
}
pub struct Component<T> { pub node: Node<T> }
impl<T> core::ops::Deref for Component<T> {
    type Target = T;
    fn deref(&self) -> (r: &T) ensures *r == *self.node.0 { &*self.node.0 }
}
impl<T> Component<T> {
    #[verifier::external_body]
    pub fn location(&self) -> Option<SourceSpan> { unimplemented!() }
}
pub struct Value { pub x: u64 }
pub struct InputValueDefinition { pub name: Name, pub ty: Node<Type>, pub default_value: Option<Node<Value>> }
pub struct FieldDefinition { pub arguments: Vec<Node<InputValueDefinition>> }
pub struct ComponentName { pub name: Name }
// derived PartialEq of ast::Type: structural equality
#[verifier::external_body]
pub fn type_eq(a: &Type, b: &Type) -> (r: bool) ensures r == (*a == *b) { unimplemented!() }

pub type Args = Seq<Node<InputValueDefinition>>;
/// index of the first argument named `k`, or -1
pub open spec fn arg_idx(a: Args, k: Name, n: int) -> int decreases n {
    if n <= 0 { -1 } else { let r = arg_idx(a, k, n - 1); if r >= 0 { r } else if a[n - 1].0.name == k { n - 1 } else { -1 } }
}
// `args.iter().find(P)` / `.any(P)` (std): the first element satisfying the predicate / whether there is one.  The predicate is the code's own closure.
#[verifier::external_body]
pub fn vec_find<'a, T, F: Fn(&T) -> bool>(v: &'a Vec<T>, f: F) -> (r: Option<&'a T>)
    requires forall|x: &T| f.requires((x,))
    ensures match r {
        Some(x) => exists|i: int| 0 <= i < v@.len() && #[trigger] v@[i] == *x && f.ensures((&v@[i],), true) && forall|j: int| 0 <= j < i ==> f.ensures((&#[trigger] v@[j],), false),
        None => forall|j: int| 0 <= j < v@.len() ==> f.ensures((&#[trigger] v@[j],), false),
    }
{ unimplemented!() }
#[verifier::external_body]
pub fn vec_any<T, F: Fn(&T) -> bool>(v: &Vec<T>, f: F) -> (r: bool)
    requires forall|x: &T| f.requires((x,))
    ensures r <==> exists|i: int| 0 <= i < v@.len() && f.ensures((&#[trigger] v@[i],), true),
            !r <==> forall|j: int| 0 <= j < v@.len() ==> f.ensures((&#[trigger] v@[j],), false)
{ unimplemented!() }
/// arg_idx is the first index with that name
pub proof fn lemma_arg_idx(a: Args, k: Name, n: int)
    requires 0 <= n <= a.len()
    ensures -1 <= arg_idx(a, k, n) < n,
            arg_idx(a, k, n) >= 0 ==> a[arg_idx(a, k, n)].0.name == k && forall|j: int| 0 <= j < arg_idx(a, k, n) ==> (#[trigger] a[j]).0.name != k,
            arg_idx(a, k, n) < 0 ==> forall|j: int| 0 <= j < n ==> (#[trigger] a[j]).0.name != k,
    decreases n
{
    if n > 0 { lemma_arg_idx(a, k, n - 1); }
}
pub proof fn lemma_arg_idx_is(a: Args, k: Name, i: int)
    requires 0 <= i < a.len(), a[i].0.name == k, forall|j: int| 0 <= j < i ==> (#[trigger] a[j]).0.name != k
    ensures arg_idx(a, k, a.len() as int) == i
{
    lemma_arg_idx(a, k, a.len() as int);
    let x = arg_idx(a, k, a.len() as int);
    if x < 0 { assert(a[i].0.name != k); } else if x < i { assert(a[x].0.name != k); } else if i < x { assert(a[i].0.name != k); }
}

pub type FieldMapSeq = Seq<(Name, Component<FieldDefinition>)>;
pub open spec fn find_idx(m: FieldMapSeq, k: Name, n: int) -> int decreases n {
    if n <= 0 { -1 } else { let r = find_idx(m, k, n - 1); if r >= 0 { r } else if m[n - 1].0 == k { n - 1 } else { -1 } }
}
#[verifier::external_body]
pub struct FieldMap { x: u8 }
impl FieldMap {
    pub uninterp spec fn view(&self) -> FieldMapSeq;
    #[verifier::external_body]
    pub fn len(&self) -> (r: usize) ensures r == self@.len() { unimplemented!() }
    #[verifier::external_body]
    pub fn index_pair(&self, i: usize) -> (r: (&Name, &Component<FieldDefinition>)) requires i < self@.len() ensures *r.0 == self@[i as int].0, *r.1 == self@[i as int].1 { unimplemented!() }
    #[verifier::external_body]
    pub fn get(&self, k: &Name) -> (r: Option<&Component<FieldDefinition>>)
        ensures r is Some <==> find_idx(self@, *k, self@.len() as int) >= 0, r is Some ==> *r->0 == self@[find_idx(self@, *k, self@.len() as int)].1
    { unimplemented!() }
}
#[verifier::external_body]
pub struct NameSet { x: u8 }
impl NameSet {
    pub uninterp spec fn view(&self) -> Seq<ComponentName>;
    #[verifier::external_body]
    pub fn len(&self) -> (r: usize) ensures r == self@.len() { unimplemented!() }
    #[verifier::external_body]
    pub fn index(&self, i: usize) -> (r: &ComponentName) requires i < self@.len() ensures *r == self@[i as int] { unimplemented!() }
}
pub struct InterfaceType { pub fields: FieldMap }
pub struct SchemaShim { pub dummy: u8 }
pub mod crate_ { pub type Schema = super::SchemaShim; }
pub uninterp spec fn interface_of(s: &SchemaShim, name: Name) -> Option<InterfaceType>;
impl SchemaShim {
    #[verifier::external_body]
    pub fn get_interface(&self, name: &ComponentName) -> (r: Option<&Node<InterfaceType>>)
        ensures match r { Some(i) => interface_of(self, name.name) == Some(*i.0), None => interface_of(self, name.name) is None }
    { unimplemented!() }
}
pub enum DiagnosticData {
    MissingInterfaceFieldArgument { name: Name, interface: Name, field: Name, argument: Name, field_location: Option<SourceSpan>, interface_argument_location: Option<SourceSpan> },
    InvalidImplementationFieldArgumentType { name: Name, interface: Name, field: Name, argument: Name, interface_type: Node<Type>, actual_type: Node<Type>, argument_location: Option<SourceSpan>, interface_argument_location: Option<SourceSpan> },
    ExtraRequiredImplementationFieldArgument { name: Name, interface: Name, field: Name, argument: Name, argument_location: Option<SourceSpan>, interface_field_location: Option<SourceSpan> },
    Other,
}
pub struct DiagnosticEntry { pub location: Option<SourceSpan>, pub data: DiagnosticData }
pub struct DiagnosticList { pub entries: Vec<DiagnosticEntry> }
impl DiagnosticList {
    pub fn push(&mut self, location: Option<SourceSpan>, data: DiagnosticData)
        ensures final(self).entries@ == old(self).entries@.push(DiagnosticEntry { location, data })
    { self.entries.push(DiagnosticEntry { location, data }) }
}

// ---------------- specification (IsValidImplementation 2.c / 2.d) ----------------
/// what a report says
pub enum Rep {
    Missing { who: Name, interface: Name, field: Name, argument: Name },
    BadType { who: Name, interface: Name, field: Name, argument: Name, interface_type: Type, actual_type: Type },
    Extra { who: Name, interface: Name, field: Name, argument: Name },
    Unrelated,
}
pub open spec fn rep_of(e: DiagnosticEntry) -> Rep {
    match e.data {
        DiagnosticData::MissingInterfaceFieldArgument { name, interface, field, argument, .. } => Rep::Missing { who: name, interface, field, argument },
        DiagnosticData::InvalidImplementationFieldArgumentType { name, interface, field, argument, interface_type, actual_type, .. } => Rep::BadType { who: name, interface, field, argument, interface_type: *interface_type.0, actual_type: *actual_type.0 },
        DiagnosticData::ExtraRequiredImplementationFieldArgument { name, interface, field, argument, .. } => Rep::Extra { who: name, interface, field, argument },
        DiagnosticData::Other => Rep::Unrelated,
    }
}
pub open spec fn reps(es: Seq<DiagnosticEntry>, from: int) -> Seq<Rep> { es.skip(from).map_values(|e: DiagnosticEntry| rep_of(e)) }
pub open spec fn required(a: InputValueDefinition) -> bool { (*a.ty.0 is NonNullNamed || *a.ty.0 is NonNullList) && a.default_value is None }
/// 2.c: the first k arguments of the interface field
pub open spec fn owed_args(who: Name, iface: Name, field: Name, iargs: Args, margs: Args, k: int) -> Seq<Rep> decreases k {
    if k <= 0 { Seq::empty() } else {
        let prev = owed_args(who, iface, field, iargs, margs, k - 1);
        let ia = *iargs[k - 1].0;
        let idx = arg_idx(margs, ia.name, margs.len() as int);
        if idx < 0 { prev.push(Rep::Missing { who, interface: iface, field, argument: ia.name }) }
        else if *ia.ty.0 != *margs[idx].0.ty.0 { prev.push(Rep::BadType { who, interface: iface, field, argument: ia.name, interface_type: *ia.ty.0, actual_type: *margs[idx].0.ty.0 }) }
        else { prev }
    }
}
/// 2.d: the first l arguments of the implementing field
pub open spec fn owed_extra(who: Name, iface: Name, field: Name, iargs: Args, margs: Args, l: int) -> Seq<Rep> decreases l {
    if l <= 0 { Seq::empty() } else {
        let prev = owed_extra(who, iface, field, iargs, margs, l - 1);
        let ma = *margs[l - 1].0;
        if arg_idx(iargs, ma.name, iargs.len() as int) < 0 && required(ma) { prev.push(Rep::Extra { who, interface: iface, field, argument: ma.name }) } else { prev }
    }
}
/// the first n fields of one interface
pub open spec fn owed_fields(who: Name, mfields: FieldMapSeq, iface: Name, ifields: FieldMapSeq, n: int) -> Seq<Rep> decreases n {
    if n <= 0 { Seq::empty() } else {
        let prev = owed_fields(who, mfields, iface, ifields, n - 1);
        let idx = find_idx(mfields, ifields[n - 1].0, mfields.len() as int);
        if idx < 0 { prev } else {
            let iargs = ifields[n - 1].1.node.0.arguments@; let margs = mfields[idx].1.node.0.arguments@;
            prev + owed_args(who, iface, ifields[n - 1].0, iargs, margs, iargs.len() as int) + owed_extra(who, iface, ifields[n - 1].0, iargs, margs, margs.len() as int)
        }
    }
}
/// the first m implemented interfaces (names that are not interfaces of the schema are skipped)
pub open spec fn owed(s: &SchemaShim, who: Name, mfields: FieldMapSeq, ifaces: Seq<ComponentName>, m: int) -> Seq<Rep> decreases m {
    if m <= 0 { Seq::empty() } else {
        let prev = owed(s, who, mfields, ifaces, m - 1);
        match interface_of(s, ifaces[m - 1].name) {
            Some(it) => prev + owed_fields(who, mfields, ifaces[m - 1].name, it.fields@, it.fields@.len() as int),
            None => prev,
        }
    }
}
pub proof fn lemma_reps_push(e0: Seq<DiagnosticEntry>, e1: Seq<DiagnosticEntry>, n0: int)
    requires 0 <= n0 <= e0.len(), e1.len() == e0.len() + 1, e1.take(e0.len() as int) =~= e0
    ensures reps(e1, n0) =~= reps(e0, n0).push(rep_of(e1.last()))
{
    assert(e1.skip(n0) =~= e0.skip(n0).push(e1.last()));
}
'''


def _spec_form(pred):
    """the predicate as a spec expression: field accesses through a `Node` (exec `Deref`) are spelled `.0.`"""
    import re as _re
    return _re.sub(r"\b(a|iface_arg|impl_arg)\.", r"\1.0.", pred)


def _find_rw(m):
    """`.iter().find(|a| P)` -> `vec_find(&v, |a: &Node<InputValueDefinition>| -> (b: bool) ensures b == (P in spec form) { P })`: the predicate P is kept verbatim as the closure's body"""
    return "vec_find(&impl_field.arguments, |a: &Node<InputValueDefinition>| -> (b: bool) ensures b == (%s) { %s });" % (_spec_form(m.group(1)), m.group(1))


def _any_rw(m):
    """`.iter().any(|a| P)` -> `vec_any(&v, |a: &Node<InputValueDefinition>| -> (b: bool) ensures b == (P in spec form) { P })`: the predicate P is kept verbatim as the closure's body"""
    return "vec_any(&interface_field.arguments, |a: &Node<InputValueDefinition>| -> (b: bool) ensures b == (%s) { %s });" % (_spec_form(m.group(1)), m.group(1))


KEPT = ("earlier_diagnostics_kept", "diagnostics.entries@.len() >= old(diagnostics).entries@.len(), diagnostics.entries@.take(old(diagnostics).entries@.len() as int) =~= old(diagnostics).entries@")
N0 = "old(diagnostics).entries@.len() as int"
WHO = "*implementor_name"
BASE_I = "owed(schema, %s, implementor_fields@, implements_interfaces@, __i - 1)" % WHO
BASE_J = BASE_I + " + owed_fields(%s, implementor_fields@, interface_name.name, interface.0.fields@, __j - 1)" % WHO
IARGS = "interface_field.node.0.arguments@"
MARGS = "impl_field.node.0.arguments@"
CTX_J = ("0 < __i <= implements_interfaces@.len(), *interface_name == implements_interfaces@[__i - 1], interface_of(schema, interface_name.name) == Some(*interface.0)")
CTX_K = (CTX_J + ", 0 < __j <= interface.0.fields@.len(), *field_name == interface.0.fields@[__j - 1].0, *interface_field == interface.0.fields@[__j - 1].1, "
         "find_idx(implementor_fields@, *field_name, implementor_fields@.len() as int) >= 0, *impl_field == implementor_fields@[find_idx(implementor_fields@, *field_name, implementor_fields@.len() as int)].1")

UNIT = {
    "name": "impl_args",
    "properties": ["C14", "C15"],
    "parts": [
        PRELUDE,
        dict(file="crates/apollo-compiler/src/ast/mod.rs", kind="enum", name="Type", props=["C14", "C15"]),
        # the methods of ast::Type, with the contracts unit `types` proves for them (so that code routed through them is judged, not rejected)
    ] + [dict(p, props=["C14", "C15"]) for p in TY.UNIT["parts"] if isinstance(p, dict) and p.get("container_name") == "Type"] + [
        dict(file=IFACE, kind="fn", name="is_required_argument", props=["C14", "C15"],
             clauses=[("ensures", "required_argument", "r == required(*arg)")]),
        dict(file=IFACE, kind="fn", name="validate_implementation_field_arguments", n_loops=4, props=["C14", "C15"],
             rewrites=[("schema: &crate::Schema", "schema: &crate_::Schema", 1),
                       ("implementor_fields: &IndexMap<Name, Component<FieldDefinition>>", "implementor_fields: &FieldMap", 1),
                       ("implements_interfaces: &IndexSet<ComponentName>", "implements_interfaces: &NameSet", 1),
                       ("for interface_name in implements_interfaces {", "let mut __i: usize = 0; while __i < implements_interfaces.len() { let interface_name = implements_interfaces.index(__i); __i += 1;", 1),
                       ("for (field_name, interface_field) in &interface.fields {", "let mut __j: usize = 0; while __j < interface.fields.len() { let (field_name, interface_field) = interface.fields.index_pair(__j); __j += 1;", 1),
                       ("for iface_arg in &interface_field.arguments {", "let mut __k: usize = 0; while __k < interface_field.arguments.len() { let iface_arg = &interface_field.arguments[__k]; __k += 1;", 1),
                       ("for impl_arg in &impl_field.arguments {", "let mut __l: usize = 0; while __l < impl_field.arguments.len() { let impl_arg = &impl_field.arguments[__l]; __l += 1;", 1),
                       (r"impl_field\s*\.arguments\s*\.iter\(\)\s*\.find\(\|a\| ([^\n]+)\);", _find_rw, 1, "re"),
                       (r"interface_field\s*\.arguments\s*\.iter\(\)\s*\.any\(\|a\| ([^\n]+)\);", _any_rw, 1, "re"),
                       ("*iface_arg.ty != *impl_arg.ty", "!type_eq(&iface_arg.ty, &impl_arg.ty)", "*")],
             clauses=[("ensures", "earlier_diagnostics_kept", "final(diagnostics).entries@.len() >= old(diagnostics).entries@.len() && final(diagnostics).entries@.take(old(diagnostics).entries@.len() as int) =~= old(diagnostics).entries@"),
                      ("ensures", "exactly_the_owed_reports_in_order",
                       "reps(final(diagnostics).entries@, %s) =~= owed(schema, %s, implementor_fields@, implements_interfaces@, implements_interfaces@.len() as int)" % (N0, WHO))],
             loops=[dict(invariant=[("bounds", "__i <= implements_interfaces@.len()"), KEPT,
                                    ("owed_so_far", "reps(diagnostics.entries@, %s) =~= owed(schema, %s, implementor_fields@, implements_interfaces@, __i as int)" % (N0, WHO))],
                         decreases="implements_interfaces@.len() - __i"),
                    dict(invariant=[("bounds", "__j <= interface.0.fields@.len(), " + CTX_J), KEPT,
                                    ("owed_so_far", "reps(diagnostics.entries@, %s) =~= %s + owed_fields(%s, implementor_fields@, interface_name.name, interface.0.fields@, __j as int)" % (N0, BASE_I, WHO))],
                         decreases="interface.0.fields@.len() - __j"),
                    dict(invariant=[("bounds", "__k <= %s.len(), " % IARGS + CTX_K), KEPT,
                                    ("owed_so_far", "reps(diagnostics.entries@, %s) =~= %s + owed_args(%s, interface_name.name, *field_name, %s, %s, __k as int)" % (N0, BASE_J, WHO, IARGS, MARGS))],
                         decreases="%s.len() - __k" % IARGS),
                    dict(invariant=[("bounds", "__l <= %s.len(), " % MARGS + CTX_K), KEPT,
                                    ("owed_so_far", "reps(diagnostics.entries@, %s) =~= %s + owed_args(%s, interface_name.name, *field_name, %s, %s, %s.len() as int) + owed_extra(%s, interface_name.name, *field_name, %s, %s, __l as int)"
                                     % (N0, BASE_J, WHO, IARGS, MARGS, IARGS, WHO, IARGS, MARGS))],
                         decreases="%s.len() - __l" % MARGS)],
             hints=[("loop_body_start", 2, "let ghost e0 = diagnostics.entries@;"),
                    ("loop_body_end", 2, "proof { let margs = impl_field.node.0.arguments@; let k = iface_arg.0.name; lemma_arg_idx(margs, k, margs.len() as int); "
                     "if impl_arg is Some { let x = impl_arg->0; let i = choose|i: int| 0 <= i < margs.len() && #[trigger] margs[i] == *x && margs[i].0.name == k && forall|j: int| 0 <= j < i ==> (#[trigger] margs[j]).0.name != k; lemma_arg_idx_is(margs, k, i); } } "
                     "proof { let e1 = diagnostics.entries@; if e1.len() > e0.len() { lemma_reps_push(e0, e1, %s); } else { assert(e1 =~= e0); } }" % N0),
                    ("loop_body_start", 3, "let ghost e0 = diagnostics.entries@;"),
                    ("loop_body_end", 3, "proof { let iargs = interface_field.node.0.arguments@; let k = impl_arg.0.name; lemma_arg_idx(iargs, k, iargs.len() as int); "
                     "if in_interface { let i = choose|i: int| 0 <= i < iargs.len() && (#[trigger] iargs[i]).0.name == k; assert(arg_idx(iargs, k, iargs.len() as int) >= 0); } } "
                     "proof { let e1 = diagnostics.entries@; if e1.len() > e0.len() { lemma_reps_push(e0, e1, %s); } else { assert(e1 =~= e0); } }" % N0)]),
    ],
}
