"""Unit `unescape` -- C06, KERNEL ONLY (quoted strings): `unescape_string` decodes every lexically valid quoted string body to the
spec's static semantics (StringValue: each StringCharacter contributes its own character, its EscapedCharacter's value, or the code
point of its four hex digits) and never panics; and the link to C03: what the lexer accepts as a quoted StringValue without recording
an error is exactly a quote, a body that satisfies this function's precondition, a quote.

Extracted verbatim from crates/apollo-parser/src/cst/node_ext.rs: fn unescape_string.

The string grammar `is_quoted_string` (left-linear, one production per lexer state) and the hex / surrogate definitions are the TEXT
of unit `lexer` (`LX.section(..)`), not a copy: the lemma `lemma_lexer_accepts_only_decodable_strings` is proved about the very
predicate that C03's `token_has_the_right_kind_and_is_maximal` establishes for every StringValue token.

Listed rewrites (each pinned; another shape is a lost anchor = undecided):
  * the local closure `unicode` (captures `iter` mutably; Verus has no such closures) is beta-reduced at its single call (`inline_closures`);
  * `iter.by_ref().take(4).fold(0, |acc, c| BODY)` is replaced by its definition in core::iter: a loop that calls `iter.next()` at most
    four times and folds with BODY, which is kept verbatim (`acc = BODY`);
  * `String::with_capacity(input.len())` -> `string_with_capacity(input)` (capacity does not affect the contents), `input.chars()` ->
    `str_chars(input)`, `output.push(x)` -> `string_push(&mut output, x)` (method -> shim function, same arguments).

Shims (trusted): `Chars::next` yields the characters of the string in order; `String::push` appends; `char::to_digit(16)` is the value of
a hex digit and None for anything else; `char::from_u32` is Some exactly for non-surrogate values up to 0x10FFFF and converts back to the
same number (std documentation).

NOT decided here: block strings (unescape_block_string: iterator adapters over memchr-based line splitting -- outside Verus's subset),
`From<&cst::StringValue> for String` (rowan token access and the `&text[1..len-1]` slice), the copy into ast::Value / descriptions.
"""
import lexer as LX

NE = "crates/apollo-parser/src/cst/node_ext.rs"

SHIMS = r'''
// ---------------- std specs (assumed) ----------------
pub assume_specification[ char::to_digit ](c: char, radix: u32) -> (r: Option<u32>)
    ensures radix == 16 ==> (r is Some <==> hexdigit(c)) && (r is Some ==> r->0 as int == hexval(c));
pub assume_specification[ char::from_u32 ](i: u32) -> (r: Option<char>)
    ensures r is Some <==> !surrogate(i as int) && i <= 0x10FFFF, r is Some ==> r->0 as u32 == i;
// core::str::Chars: yields the chars of the string, in order
pub struct Chars<'a> { pub rest: Ghost<Seq<char>>, pub p: core::marker::PhantomData<&'a ()> }
impl<'a> Chars<'a> {
    #[verifier::external_body]
    pub fn next(&mut self) -> (r: Option<char>)
        ensures match r { Some(c) => old(self).rest@.len() > 0 && c == old(self).rest@[0] && final(self).rest@ == old(self).rest@.skip(1),
                          None => old(self).rest@.len() == 0 && final(self).rest@ == old(self).rest@ }
    { unimplemented!() }
}
#[verifier::external_body]
pub fn str_chars<'a>(s: &'a str) -> (r: Chars<'a>) ensures r.rest@ == s@ { unimplemented!() }
#[verifier::external_body]
pub fn string_with_capacity(s: &str) -> (r: String) ensures r@ == Seq::<char>::empty() { unimplemented!() }
#[verifier::external_body]
pub fn string_push(s: &mut String, c: char) ensures final(s)@ == old(s)@.push(c) { unimplemented!() }

'''

# the static semantics of a quoted StringValue; shared (as text) with unit serialize_string
DECODE_SPEC = r'''
// ---------------- specification: https://spec.graphql.org/October2021/#sec-String-Value (static semantics) ----------------
/// \ EscapedCharacter: the character it denotes (table in the spec)
pub open spec fn simple_escape(c: char) -> Option<char> {
    if c == '"' || c == '\\' || c == '/' { Some(c) } else if c == 'b' { Some('\u{8}') } else if c == 'f' { Some('\u{c}') }
    else if c == 'n' { Some('\n') } else if c == 'r' { Some('\r') } else if c == 't' { Some('\t') } else { None }
}
/// value of the first n characters read as hex digits
pub open spec fn hexprefix(s: Seq<char>, n: int) -> int decreases n { if n <= 0 { 0 } else { hexprefix(s, n - 1) * 16 + hexval(s[n - 1]) } }
pub open spec fn hex4ok(s: Seq<char>) -> bool { s.len() >= 4 && hexdigit(s[0]) && hexdigit(s[1]) && hexdigit(s[2]) && hexdigit(s[3]) && !surrogate(hexprefix(s, 4)) }
pub open spec fn char_of(v: int) -> char { (v as u32) as char }
/// StringCharacter* (right-linear): what may stand between the quotes of a lexically valid quoted string
pub open spec fn valid_body(s: Seq<char>) -> bool decreases s.len() {
    if s.len() == 0 { true }
    else if s[0] != '\\' { s[0] != '"' && !line_term(s[0]) && valid_body(s.skip(1)) }
    else if s.len() >= 2 && simple_escape(s[1]) is Some { valid_body(s.skip(2)) }
    else { s.len() >= 6 && s[1] == 'u' && hex4ok(s.skip(2)) && valid_body(s.skip(6)) }
}
/// the string value: the sequence of the character values of each StringCharacter
pub open spec fn decoded(s: Seq<char>) -> Seq<char> decreases s.len() {
    if s.len() == 0 { Seq::<char>::empty() }
    else if s[0] != '\\' { seq![s[0]] + decoded(s.skip(1)) }
    else if s.len() >= 2 && simple_escape(s[1]) is Some { seq![simple_escape(s[1])->0] + decoded(s.skip(2)) }
    else if s.len() >= 6 { seq![char_of(hexprefix(s.skip(2), 4))] + decoded(s.skip(6)) }
    else { Seq::<char>::empty() }
}

'''

LINK = r'''
// ---- the lexer's (left-linear) grammar of a quoted string implies the (right-linear) validity that unescape_string relies on ----
pub open spec fn pre(s: Seq<char>, k: int) -> Seq<char> { s.subrange(1, s.len() - k) }
pub proof fn lemma_valid_concat(a: Seq<char>, b: Seq<char>)
    requires valid_body(a), valid_body(b)
    ensures valid_body(a + b)
    decreases a.len()
{
    let t = a + b;
    if a.len() == 0 { assert(t =~= b); }
    else if a[0] != '\\' { lemma_valid_concat(a.skip(1), b); assert(t.skip(1) =~= a.skip(1) + b); }
    else if a.len() >= 2 && simple_escape(a[1]) is Some { lemma_valid_concat(a.skip(2), b); assert(t.skip(2) =~= a.skip(2) + b); assert(t[1] == a[1]); }
    else { lemma_valid_concat(a.skip(6), b); assert(t.skip(6) =~= a.skip(6) + b); assert(t[1] == a[1]); assert(t.skip(2).take(4) =~= a.skip(2).take(4));
           assert(t.skip(2)[0] == a.skip(2)[0] && t.skip(2)[1] == a.skip(2)[1] && t.skip(2)[2] == a.skip(2)[2] && t.skip(2)[3] == a.skip(2)[3]);
           reveal_with_fuel(hexprefix, 5); }
}
pub proof fn lemma_link(s: Seq<char>)
    ensures
        q_body(s) ==> s.len() >= 2 && valid_body(pre(s, 0)),
        q_backslash(s) ==> s.len() >= 2 && s.last() == '\\' && valid_body(pre(s, 1)),
        forall|rem: int| #[trigger] q_unicode(s, rem) ==> 1 <= rem <= 4 && s.len() >= 7 - rem && valid_body(pre(s, 6 - rem)) && s[s.len() - (6 - rem)] == '\\' && s[s.len() - (5 - rem)] == 'u'
            && forall|k: int| s.len() - (4 - rem) <= k < s.len() ==> hexdigit(#[trigger] s[k]),
    decreases s.len()
{
    reveal(q_open); reveal_with_fuel(q_body, 2); reveal_with_fuel(q_backslash, 2); reveal_with_fuel(q_unicode, 2);
    if s.len() >= 2 {
        let d = s.drop_last();
        let c = s.last();
        lemma_link(d);
        if q_body(s) {
            if plain_string_char(c) && (q_open(d) || q_body(d)) {
                assert(valid_body(seq![c])) by { reveal_with_fuel(valid_body, 2); assert(seq![c].skip(1).len() == 0); }
                if q_open(d) { assert(pre(s, 0) =~= seq![c]); } else { lemma_valid_concat(pre(d, 0), seq![c]); assert(pre(s, 0) =~= pre(d, 0) + seq![c]); }
            } else if escaped_character(c) && q_backslash(d) {
                let e = seq!['\\', c];
                assert(valid_body(e)) by { reveal_with_fuel(valid_body, 2); assert(e.skip(2).len() == 0); }
                lemma_valid_concat(pre(d, 1), e); assert(pre(s, 0) =~= pre(d, 1) + e);
            } else {
                assert(q_unicode(d, 1));
                let e = s.subrange(s.len() - 6, s.len() as int);
                assert(valid_body(e)) by { reveal_with_fuel(valid_body, 2); assert(e.skip(6).len() == 0); assert(simple_escape(e[1]) is None); reveal_with_fuel(hexprefix, 5); assert(e[0] == '\\' && e[1] == 'u');
                    assert(e.skip(2)[0] == s[s.len() - 4] && e.skip(2)[1] == s[s.len() - 3] && e.skip(2)[2] == s[s.len() - 2] && e.skip(2)[3] == s[s.len() - 1]);
                    assert(hexprefix(e.skip(2), 4) == hex4(s)); }
                lemma_valid_concat(pre(d, 5), e); assert(pre(s, 0) =~= pre(d, 5) + e);
            }
        }
        if q_backslash(s) { if q_open(d) { assert(pre(s, 1).len() == 0); } else { assert(pre(s, 1) =~= pre(d, 0)); } }
        assert forall|rem: int| #[trigger] q_unicode(s, rem) implies 1 <= rem <= 4 && s.len() >= 7 - rem && valid_body(pre(s, 6 - rem)) && s[s.len() - (6 - rem)] == '\\' && s[s.len() - (5 - rem)] == 'u'
            && forall|k: int| s.len() - (4 - rem) <= k < s.len() ==> hexdigit(#[trigger] s[k]) by {
            if rem == 4 { assert(q_backslash(d)); assert(pre(s, 2) =~= pre(d, 1)); }
            else { assert(q_unicode(d, rem + 1)); assert(pre(s, 6 - rem) =~= pre(d, 6 - (rem + 1)));
                   assert forall|k: int| s.len() - (4 - rem) <= k < s.len() implies hexdigit(#[trigger] s[k]) by { if k < d.len() { assert(s[k] == d[k]); } } }
        }
    }
}
/// a StringValue token the lexer accepted without error (C03) is a quote, a body that unescape_string decodes (C06), a quote
pub proof fn lemma_lexer_accepts_only_decodable_strings(s: Seq<char>)
    requires is_quoted_string(s)
    ensures s.len() >= 2, s[0] == '"', s.last() == '"', valid_body(s.subrange(1, s.len() - 1))
{
    reveal(is_quoted_string); reveal(q_open);
    let d = s.drop_last();
    lemma_link(d);
    lemma_quoted_prefix_starts_with_quote(d);
    if q_open(d) { assert(s.subrange(1, s.len() - 1).len() == 0); } else { assert(s.subrange(1, s.len() - 1) =~= pre(d, 0)); }
}
'''

PRELUDE = LX.section("hex") + LX.section("char_classes") + LX.section("string_grammar") + SHIMS + DECODE_SPEC + LINK

FOLD_LOOP = ("{ let mut acc = 0; let mut n: usize = 0; while n < 4 { match iter.next() { Some(c) => { acc = \\1; } None => break } n += 1; } acc };")

UNIT = {
    "name": "unescape",
    "properties": ["C06"],
    "parts": [
        PRELUDE,
        dict(file=NE, kind="fn", name="unescape_string", props=["C06"],
             inline_closures=["unicode"],
             n_loops=2,
             rewrites=[(r"(?s)iter\.by_ref\(\)\.take\(4\)\.fold\(0, \|acc, c\| (\{.*?\n\s*\})\);", FOLD_LOOP, 1, "re"),
                       ("String::with_capacity(input.len())", "string_with_capacity(input)", 1),
                       ("input.chars()", "str_chars(input)", 1),
                       ("output.push(", "string_push(&mut output, ", None)],
             clauses=[("requires", "lexically_valid_string_body", "valid_body(input@)"),
                      ("ensures", "decodes_to_the_spec_value", "r@ =~= decoded(input@)")],
             loops=[dict(invariant=[("prev_is_the_rest", "prev == iter.rest@"),
                                    ("rest_is_valid", "valid_body(iter.rest@)"),
                                    ("decoded_so_far", "output@ + decoded(iter.rest@) =~= decoded(input@)")],
                         ensures=[("all_decoded", "output@ =~= decoded(input@)")],
                         decreases="iter.rest@.len()"),
                    dict(invariant=[("at_most_four", "n <= 4"),
                                    ("consumed_n_hex_digits", "iter.rest@ == r0.skip(n as int), hex4ok(r0)"),
                                    ("value_so_far", "acc == hexprefix(r0, n as int)"),
                                    ("no_overflow", "n == 0 ==> acc == 0, n == 1 ==> acc < 16, n == 2 ==> acc < 256, n == 3 ==> acc < 4096, n == 4 ==> acc < 65536")],
                         ensures=[("four_digits_consumed", "n == 4")],
                         decreases="4 - n")],
             hints=[("before", "while let Some(c) = iter.next()", "let ghost mut prev = iter.rest@;"),
                    ("loop_body_end", 0, "proof { prev = iter.rest@; }"),
                    ("before", "match c2 {", "proof { assert(iter.rest@ =~= prev.skip(2)); assert(c2 == prev[1]); }"),
                    ("before", "let value = ", "let ghost r0 = iter.rest@; proof { assert(r0 =~= prev.skip(2)); assert(r0.skip(0) =~= r0); }"),
                    ("before", "acc = {", "proof { assert(c == r0[n as int]); assert(iter.rest@ =~= r0.skip(n + 1)); assert(acc < 0x1000_0000 ==> acc << 4 == acc * 16) by (bit_vector); reveal_with_fuel(hexprefix, 5); }"),
                    ("before", "char::from_u32(value).unwrap()", "proof { assert(iter.rest@ =~= prev.skip(6)); }")]),
    ],
}
