"""Unit `execution` -- C26, KERNEL ONLY: three decision functions of the executor that have a one-call specification in the
GraphQL spec.

Extracted verbatim from crates/apollo-compiler/src:
  resolvers/execution.rs : try_nullify (null propagation: "Handling Field Errors"), does_fragment_type_apply (DoesFragmentTypeApply),
                           eval_if_arg (the `if` argument of @skip / @include, literal or variable)
  executable/mod.rs      : Selection::directives
  ast/impls.rs           : enum Type (shared with unit `types`), Type::is_non_null

Everything else of C26 (CollectFields' loop, CompleteValue, argument coercion, error paths, the reference executor) is NOT decided.
Shims (trusted): Name as its text; IndexMap / IndexSet / JsonMap as maps / sets keyed by text; DirectiveList::get = the first directive
with that name; specified_argument_by_name = the value of the argument with that name.
"""
EXE = "crates/apollo-compiler/src/resolvers/execution.rs"
AST = "crates/apollo-compiler/src/ast/mod.rs"
IMPLS = "crates/apollo-compiler/src/ast/impls.rs"
EXM = "crates/apollo-compiler/src/executable/mod.rs"

PRELUDE = r'''
// ---------------- shims (trusted) ----------------
pub struct Name { pub text: String }
impl Name {
    pub open spec fn key(&self) -> Seq<char> { self.text@ }
    #[verifier::external_body]
    pub fn as_str(&self) -> (r: &str) ensures r@ == self.text@ { unimplemented!() }
}
// `*fragment_type == object_type.name`: Name equality is equality of the text (locations are ignored: name.rs)
impl PartialEq for Name {
    #[verifier::external_body]
    fn eq(&self, other: &Name) -> (r: bool) ensures r == (self.key() == other.key()) { unimplemented!() }
}
pub type NamedType = Name;
pub struct Node<T>(pub Box<T>);
impl<T> Node<T> {
    pub fn as_ref(&self) -> (r: &T) ensures *r == *self.0 { &*self.0 }
}
impl<T> core::ops::Deref for Node<T> {
    type Target = T;
    fn deref(&self) -> (r: &T) ensures *r == *self.0 { &*self.0 }
}
pub struct ComponentName { pub name: Name }
#[verifier::external_body]
#[verifier::reject_recursive_types(K)]
#[verifier::reject_recursive_types(V)]
pub struct IndexMap<K, V> { k: core::marker::PhantomData<(K, V)> }
impl<V> IndexMap<Name, V> {
    pub uninterp spec fn view(&self) -> Map<Seq<char>, V>;
    #[verifier::external_body]
    pub fn get(&self, k: &Name) -> (r: Option<&V>)
        ensures match r { Some(v) => self@.dom().contains(k.key()) && *v == self@[k.key()], None => !self@.dom().contains(k.key()) }
    { unimplemented!() }
}
#[verifier::external_body]
#[verifier::reject_recursive_types(K)]
pub struct IndexSet<K> { k: core::marker::PhantomData<K> }
impl IndexSet<ComponentName> {
    pub uninterp spec fn view(&self) -> Set<Seq<char>>;
    // IndexSet<ComponentName>::contains(&Name): ComponentName hashes / compares as its name
    #[verifier::external_body]
    pub fn contains(&self, k: &Name) -> (r: bool) ensures r == self@.contains(k.key()) { unimplemented!() }
}
pub struct ObjectType { pub name: Name, pub implements_interfaces: IndexSet<ComponentName> }
pub struct InterfaceType { pub x: u64 }
pub struct UnionType { pub members: IndexSet<ComponentName> }
pub struct OtherType { pub x: u64 }
pub enum ExtendedType {
    Scalar(Node<OtherType>), Object(Node<ObjectType>), Interface(Node<InterfaceType>), Union(Node<UnionType>), Enum(Node<OtherType>), InputObject(Node<OtherType>),
}
pub struct Schema { pub types: IndexMap<NamedType, ExtendedType> }

// JSON values: only what the extracted code looks at
pub enum JsonValue { Null, Bool(bool), Other(u64) }
impl JsonValue {
    pub fn as_bool(&self) -> (r: Option<bool>) ensures r == (match *self { JsonValue::Bool(b) => Some(b), _ => None }) {
        match self { JsonValue::Bool(b) => Some(*b), _ => None }
    }
}
#[verifier::external_body]
pub struct JsonMap { x: u8 }
impl JsonMap {
    pub uninterp spec fn view(&self) -> Map<Seq<char>, JsonValue>;
    #[verifier::external_body]
    pub fn get(&self, k: &str) -> (r: Option<&JsonValue>)
        ensures match r { Some(v) => self@.dom().contains(k@) && *v == self@[k@], None => !self@.dom().contains(k@) }
    { unimplemented!() }
}
pub struct Valid<T>(pub T);
impl<T> core::ops::Deref for Valid<T> {
    type Target = T;
    fn deref(&self) -> (r: &T) ensures *r == self.0 { &self.0 }
}
pub struct PropagateNull;

// executable documents: the parts eval_if_arg walks through
pub enum Value { Boolean(bool), Variable(Name), Other(u64) }
pub struct Directive { pub name: Name, pub args: Ghost<Map<Seq<char>, Node<Value>>> }
impl Directive {
    /// the value of the argument called `name` as written in the directive application, if any
    #[verifier::external_body]
    pub fn specified_argument_by_name(&self, name: &str) -> (r: Option<&Node<Value>>)
        ensures match r { Some(v) => self.args@.dom().contains(name@) && *v == self.args@[name@], None => !self.args@.dom().contains(name@) }
    { unimplemented!() }
}
pub struct DirectiveList { pub by_name: Ghost<Map<Seq<char>, Node<Directive>>> }
impl DirectiveList {
    /// the first directive with that name, if any (ast/impls.rs DirectiveList::get)
    #[verifier::external_body]
    pub fn get(&self, name: &str) -> (r: Option<&Node<Directive>>)
        ensures match r { Some(d) => self.by_name@.dom().contains(name@) && *d == self.by_name@[name@], None => !self.by_name@.dom().contains(name@) }
    { unimplemented!() }
}
pub struct Field { pub directives: DirectiveList }
pub struct FragmentSpread { pub directives: DirectiveList }
pub struct InlineFragment { pub directives: DirectiveList }
pub enum Selection { Field(Node<Field>), FragmentSpread(Node<FragmentSpread>), InlineFragment(Node<InlineFragment>) }

// ---------------- specification ----------------
/// https://spec.graphql.org/October2021/#DoesFragmentTypeApply()
pub open spec fn fragment_type_applies(schema: &Schema, object_type: &ObjectType, fragment_type: &Name) -> bool {
    schema.types@.dom().contains(fragment_type.key()) && match schema.types@[fragment_type.key()] {
        ExtendedType::Object(_) => object_type.name.key() == fragment_type.key(),                        // same type
        ExtendedType::Interface(_) => object_type.implements_interfaces@.contains(fragment_type.key()),   // objectType implements fragmentType
        ExtendedType::Union(u) => u.0.members@.contains(object_type.name.key()),                            // objectType is a possible type of the union
        _ => false,
    }
}
pub open spec fn directives_of(s: &Selection) -> DirectiveList {
    match *s { Selection::Field(f) => f.0.directives, Selection::FragmentSpread(f) => f.0.directives, Selection::InlineFragment(f) => f.0.directives }
}
/// the value of `@<directive_name>(if: ..)` on a selection: a Boolean literal, or a variable whose coerced value is a JSON boolean; otherwise nothing
pub open spec fn if_argument(s: &Selection, directive_name: Seq<char>, vars: Map<Seq<char>, JsonValue>) -> Option<bool> {
    let dl = directives_of(s);
    if !dl.by_name@.dom().contains(directive_name) { None }
    else {
        let d = dl.by_name@[directive_name];
        if !d.0.args@.dom().contains("if"@) { None }
        else {
            match *d.0.args@["if"@].0 {
                Value::Boolean(b) => Some(b),
                Value::Variable(v) => if vars.dom().contains(v.key()) { match vars[v.key()] { JsonValue::Bool(b) => Some(b), _ => None } } else { None },
                _ => None,
            }
        }
    }
}
'''

UNIT = {
    "name": "execution",
    "properties": ["C26"],
    "parts": [
        PRELUDE,
        dict(file=AST, kind="enum", name="Type", props=["C26"]),
        dict(file=IMPLS, kind="fn", name="is_non_null", container="Type", container_name="Type", wrap="impl Type", props=["C26"],
             clauses=[("ensures", "NonNull", "r == (self is NonNullNamed || self is NonNullList)")]),
        dict(file=EXM, kind="fn", name="directives", container="Selection", container_name="Selection", wrap="impl Selection", props=["C26"],
             clauses=[("ensures", "the_selections_own_directives", "*r == directives_of(self)")]),
        dict(file=EXE, kind="fn", name="try_nullify", props=["C26"],
             clauses=[("ensures", "values_pass_through", "result is Ok ==> r == result"),
                      ("ensures", "null_propagates_through_non_null_positions", "(result is Err && (ty is NonNullNamed || ty is NonNullList)) ==> r is Err"),
                      ("ensures", "null_stops_at_nullable_positions", "(result is Err && !(ty is NonNullNamed || ty is NonNullList)) ==> r == Ok::<Option<JsonValue>, PropagateNull>(Some(JsonValue::Null))")]),
        dict(file=EXE, kind="fn", name="does_fragment_type_apply", props=["C26"],
             clauses=[("ensures", "DoesFragmentTypeApply", "r == fragment_type_applies(schema, object_type, fragment_type)")]),
        dict(file=EXE, kind="fn", name="eval_if_arg", props=["C26"],
             clauses=[("ensures", "if_argument_value", "r == if_argument(selection, directive_name@, variable_values.0@)")],
             hints=[("body_start", None, 'proof { reveal_strlit("if"); }')]),
    ],
}
