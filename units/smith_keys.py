"""Unit `smith_keys` -- C33, KERNEL ONLY: `ResponseBuilder::selection_set` (apollo-smith/src/response.rs): unless a custom generator takes over, the generated
object has EXACTLY the response keys that `collect_fields` returned for the chosen concrete type, in that order (unit smith_collect proves what those are),
and `__typename` is the chosen concrete type.

Extracted verbatim: ResponseBuilder::selection_set.
Listed rewrites: `for (key, fields) in grouped_fields {` -> an index loop over the map's entries in order (`take_entry`: the entry is moved out, as the by-value
iteration does); the impl header's generics are dropped.
Shims (trusted): concrete_type / collect_fields / generate_field_value / should_be_null as opaque calls (units smith_concrete and smith_collect prove the first
two); `generators.try_generate` opaque; serde_json's Map::insert as an append to the entries (the keys of an IndexMap are distinct); `Name == &str` compares the text.
NOT decided: what generate_field_value returns (list nesting, enum values, scalar kinds, nulls inside), custom generators, partial data.
"""
RESP = "crates/apollo-smith/src/response.rs"

PRELUDE = r'''
pub struct ResponseError { pub x: u8 }
pub struct Name { pub text: String }
impl Name {
    #[verifier::external_body]
    pub fn to_string(&self) -> (r: String) ensures r@ == self.text@ { unimplemented!() }
}
impl PartialEq<&str> for Name {
    #[verifier::external_body]
    fn eq(&self, other: &&str) -> (r: bool) ensures r == (self.text@ == other@) { unimplemented!() }
}
pub const TYPENAME: &'static str = "__typename";
pub struct Node<T>(pub Box<T>);
impl<T> core::ops::Deref for Node<T> {
    type Target = T;
    fn deref(&self) -> (r: &T) ensures *r == *self.0 { &*self.0 }
}
pub struct FieldType { pub non_null: bool }
impl FieldType {
    pub fn is_non_null(&self) -> (r: bool) ensures r == self.non_null { self.non_null }
}
pub struct Field { pub name: Name, pub field_type: FieldType }
impl Field {
    pub fn ty(&self) -> (r: &FieldType) ensures *r == self.field_type { &self.field_type }
}
pub struct SelectionSet { pub ty: Name }
pub enum Value { Null, String(JsonString), Object(Map), Other(u64) }
pub struct JsonString { pub text: String }
impl From<String> for JsonString { fn from(s: String) -> (r: JsonString) ensures r.text@ == s@ { JsonString { text: s } } }
impl vstd::std_specs::convert::FromSpecImpl<String> for JsonString {
    open spec fn obeys_from_spec() -> bool { true }
    open spec fn from_spec(s: String) -> JsonString { JsonString { text: s } }
}
pub type Entries = Seq<(Seq<char>, Value)>;
#[verifier::external_body]
pub struct Map { x: u8 }
impl Map {
    pub uninterp spec fn view(&self) -> Entries;
    #[verifier::external_body]
    pub fn new() -> (r: Map) ensures r@.len() == 0 { unimplemented!() }
    /// the keys inserted here are the distinct keys of an IndexMap: an insert is an append
    #[verifier::external_body]
    pub fn insert(&mut self, k: String, v: Value) -> (r: Option<Value>) ensures final(self)@ == old(self)@.push((k@, v)) { unimplemented!() }
}
pub type Groups = Seq<(Seq<char>, Seq<Node<Field>>)>;
#[verifier::external_body]
pub struct GroupMap { x: u8 }
impl GroupMap {
    pub uninterp spec fn view(&self) -> Groups;
    #[verifier::external_body]
    pub fn len(&self) -> (r: usize) ensures r == self@.len() { unimplemented!() }
    /// the i-th entry, moved out (by-value iteration in order)
    #[verifier::external_body]
    pub fn take_entry(&self, i: usize) -> (r: (String, Vec<Node<Field>>)) requires i < self@.len() ensures r.0@ == self@[i as int].0, r.1@ == self@[i as int].1 { unimplemented!() }
}
pub struct Generators { pub x: u8 }
impl Generators {
    /// a registered custom generator for that type answers instead
    pub uninterp spec fn takes_over(&self, ty: Name) -> bool;
    #[verifier::external_body]
    pub fn try_generate(&self, ty: &Name, rng: &Rng, fields: &GroupMap) -> (r: Option<Result<Value, ResponseError>>) ensures r is Some == self.takes_over(*ty) { unimplemented!() }
}
pub struct Rng { pub x: u64 }
pub struct ResponseBuilder { pub generators: Generators, pub rng: Rng }
pub open spec fn no_empty_group(g: Groups) -> bool { forall|i: int| 0 <= i < g.len() ==> (#[trigger] g[i]).1.len() > 0 }
pub uninterp spec fn chosen_concrete(ty: Name) -> Name;
pub uninterp spec fn collected(ty: Name, concrete: Name) -> Groups;
impl ResponseBuilder {
    /// unit smith_concrete
    #[verifier::external_body]
    pub fn concrete_type<'s>(&mut self, ty: &'s Name) -> (r: Result<&'s Name, ResponseError>) ensures r matches Ok(n) ==> *n == chosen_concrete(*ty), final(self).generators == old(self).generators { unimplemented!() }
    /// unit smith_collect proves what the groups are; every group holds at least the field that created it
    #[verifier::external_body]
    pub fn collect_fields(&self, selection_set: &SelectionSet, concrete_type: &Name) -> (r: GroupMap) ensures r@ == collected(selection_set.ty, *concrete_type), no_empty_group(r@) { unimplemented!() }
    #[verifier::external_body]
    pub fn should_be_null(&mut self) -> (r: Result<bool, ResponseError>) ensures final(self).generators == old(self).generators { unimplemented!() }
    #[verifier::external_body]
    pub fn generate_field_value(&mut self, fields: &[Node<Field>], meta_field: &Node<Field>) -> (r: Result<Value, ResponseError>) ensures final(self).generators == old(self).generators { unimplemented!() }
}
/// exactly the collected response keys, in order; `__typename` is the concrete type
pub open spec fn keys_match(e: Entries, g: Groups, n: int, concrete: Name) -> bool {
    e.len() == n && forall|i: int| 0 <= i < n ==> (#[trigger] e[i]).0 == g[i].0
        && (g[i].1[0].0.name.text@ == "__typename"@ ==> (e[i].1 matches Value::String(s) && s.text@ == concrete.text@))
}
'''

UNIT = {
    "name": "smith_keys",
    "properties": ["C33"],
    "parts": [
        PRELUDE,
        dict(file=RESP, kind="fn", name="selection_set", container="ResponseBuilder<'a, 'doc, 'schema, R>", container_name="ResponseBuilder", wrap="impl ResponseBuilder", props=["C33"],
             n_loops=1, loops_see_context=True,
             rewrites=[("for (key, fields) in grouped_fields {", "let mut __g: usize = 0; while __g < grouped_fields.len() { let (key, fields) = grouped_fields.take_entry(__g); __g += 1;", 1),
                       ("self.rng, &grouped_fields", "&self.rng, &grouped_fields", "*")],
             clauses=[("ensures", "exactly_the_collected_response_keys_unless_a_generator_took_over",
                       "!old(self).generators.takes_over(selection_set.ty) ==> (r matches Ok(v) ==> v matches Value::Object(m) && "
                       "keys_match(m@, collected(selection_set.ty, chosen_concrete(selection_set.ty)), collected(selection_set.ty, chosen_concrete(selection_set.ty)).len() as int, chosen_concrete(selection_set.ty)))")],
             loops=[dict(invariant=[("bounds", "__g <= grouped_fields@.len()"),
                                    ("keys_so_far", "keys_match(result@, grouped_fields@, __g as int, *concrete)")],
                         decreases="grouped_fields@.len() - __g")],
             hints=[("body_start", None, 'proof { reveal_strlit("__typename"); }')]),
    ],
}
