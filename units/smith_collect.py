"""Unit `smith_collect` -- C33, KERNEL: `ResponseBuilder::collect_fields` (apollo-smith/src/response.rs), which decides the response keys of every
generated object ("the generated response has exactly the operation's response keys for the chosen concrete types"): for every schema, document,
concrete type and selection set, the map it returns is `groups(..)`:
  * a field goes to the group of its response key (alias, else name); groups keep the order in which their key first appeared;
  * a fragment spread contributes the groups of the fragment's selection set -- merged group by group, APPENDING to a group that already exists --
    if the fragment is defined and its type condition applies to the concrete type (DoesFragmentTypeApply: the contract of `type_condition_matches`,
    proved in unit smith_response, assumed here by its clause text); an inline fragment likewise, unless it has a type condition that does not apply.
Unlike the executor's CollectFields there is no visited-fragment set (the document is Valid, hence acyclic); the specification carries a fuel for fragment
expansion and the contract holds for every fuel that is `enough` (never runs out along the way: a recursive predicate mirroring the expansion).  That some fuel is
enough for an acyclic document, and termination of the recursion, are NOT proved.

Extracted verbatim: ResponseBuilder::collect_fields.
Loop contracts are keyed by the loop's header text (`when`), so a variant with one loop fewer is judged rather than lost.
Listed rewrites: `for selection in &selection_set.selections` and the two `for (key, mut fields) in self.collect_fields(..)` loops -> the index loops they desugar to
(the by-value iteration over the returned map becomes `entry_at(j)`: an owned copy of the j-th entry); `collected.entry(key).or_default().push(x)` /
`.append(&mut fields)` -> `entry_push(key, x)` / `entry_append(key, &mut fields)`; `<&Name>.to_string()` -> `name_to_string(..)`; the impl header's generics are dropped.
Shims (trusted): those of unit execution; IndexMap<String, Vec<Node<Field>>> as an ordered sequence of groups; Node::clone copies.
"""
import collect_fields as CF
import smith_response as SR

RESP = "crates/apollo-smith/src/response.rs"
_t = [p for p in SR.UNIT["parts"] if isinstance(p, dict) and p.get("name") == "type_condition_matches"][0]
TCM_REQ = ", ".join(c[2] for c in _t["clauses"] if c[0] == "requires")
TCM_ENS = ", ".join(c[2] for c in _t["clauses"] if c[0] == "ensures")

PRELUDE = CF.BASE + r'''
// ---------------- further shims (trusted) ----------------
impl<T> Clone for Node<T> {
    #[verifier::external_body]
    fn clone(&self) -> (r: Self) ensures r == *self { unimplemented!() }
}
#[verifier::external_body]
pub struct FragmentMap { x: u8 }
impl FragmentMap {
    pub uninterp spec fn view(&self) -> Map<Seq<char>, Node<Fragment>>;
    #[verifier::external_body]
    pub fn get(&self, k: &Name) -> (r: Option<&Node<Fragment>>)
        ensures match r { Some(f) => self@.dom().contains(k.key()) && *f == self@[k.key()], None => !self@.dom().contains(k.key()) }
    { unimplemented!() }
}
pub struct ExecutableDocument { pub fragments: FragmentMap }
pub struct ResponseBuilder<'doc, 'schema> { pub doc: &'doc Valid<ExecutableDocument>, pub schema: &'schema Valid<Schema> }
impl<'doc, 'schema> ResponseBuilder<'doc, 'schema> {
    // ResponseBuilder::type_condition_matches: contract PROVED in unit smith_response (same clause text), assumed here
    #[verifier::external_body]
    pub fn type_condition_matches(&self, cond: &Name, concrete: &Name) -> (r: bool)
        requires @TCM_REQ@
        ensures @TCM_ENS@
    { unimplemented!() }
}
#[verifier::external_body]
pub fn name_to_string(n: &Name) -> (r: String) ensures r@ == n.key() { unimplemented!() }
pub type SGroups = Seq<(Seq<char>, Seq<Node<Field>>)>;
pub open spec fn sgidx(g: SGroups, k: Seq<char>, n: int) -> int decreases n {
    if n <= 0 { -1 } else { let r = sgidx(g, k, n - 1); if r >= 0 { r } else if g[n - 1].0 == k { n - 1 } else { -1 } }
}
/// append these fields to the group of key k (a new group at the end if there is none)
pub open spec fn group_append(g: SGroups, k: Seq<char>, fs: Seq<Node<Field>>) -> SGroups {
    let j = sgidx(g, k, g.len() as int);
    if j >= 0 { g.update(j, (k, g[j].1 + fs)) } else { g.push((k, fs)) }
}
pub open spec fn group_set(g: SGroups, k: Seq<char>, fs: Seq<Node<Field>>) -> SGroups {
    let j = sgidx(g, k, g.len() as int);
    if j >= 0 { g.update(j, (k, fs)) } else { g.push((k, fs)) }
}
pub open spec fn extend_groups(acc: SGroups, g: SGroups, n: int) -> SGroups decreases n {
    if n <= 0 || n > g.len() { acc } else { group_set(extend_groups(acc, g, n - 1), g[n - 1].0, g[n - 1].1) }
}
#[verifier::external_body]
pub struct GroupMap { x: u8 }
impl GroupMap {
    pub uninterp spec fn view(&self) -> SGroups;
    #[verifier::external_body]
    pub fn new() -> (r: Self) ensures r@ == SGroups::empty() { unimplemented!() }
    #[verifier::external_body]
    pub fn len(&self) -> (r: usize) ensures r == self@.len() { unimplemented!() }
    // `map.entry(k).or_default().push(f)`
    #[verifier::external_body]
    pub fn entry_push(&mut self, k: String, f: Node<Field>) ensures final(self)@ == group_append(old(self)@, k@, seq![f]) { unimplemented!() }
    // `map.entry(k).or_default().append(&mut fields)`
    #[verifier::external_body]
    pub fn entry_append(&mut self, k: String, fs: &mut Vec<Node<Field>>) ensures final(self)@ == group_append(old(self)@, k@, old(fs)@) { unimplemented!() }
    // IndexMap::extend(other): every entry of `other` in order -- an existing key keeps its position and gets the NEW value (it is overwritten), a new key goes to the end.
    // Not used by the code as it is; present so that a variant that merges with `extend` is judged.
    #[verifier::external_body]
    pub fn extend(&mut self, other: GroupMap) ensures final(self)@ == extend_groups(old(self)@, other@, other@.len() as int) { unimplemented!() }
    // the j-th `(key, fields)` item of `for (key, fields) in map` (listed rewrite of the by-value loop)
    #[verifier::external_body]
    pub fn entry_at(&self, j: usize) -> (r: (String, Vec<Node<Field>>)) requires j < self@.len() ensures r.0@ == self@[j as int].0, r.1@ == self@[j as int].1 { unimplemented!() }
}

// ---------------- specification ----------------
pub open spec fn skey(f: Field) -> Seq<char> { match f.alias { Some(a) => a.key(), None => f.name.key() } }
/// merging the first n groups of `g` into `acc`, in order
pub open spec fn merge(acc: SGroups, g: SGroups, n: int) -> SGroups decreases n {
    if n <= 0 || n > g.len() { acc } else { group_append(merge(acc, g, n - 1), g[n - 1].0, g[n - 1].1) }
}
pub open spec fn applies(schema: &Schema, concrete: &Name, cond: &Name) -> bool {
    fragment_type_applies(schema, &*schema.types@[concrete.key()]->Object_0.0, cond)
}
pub open spec fn groups_sel(doc: &ExecutableDocument, schema: &Schema, concrete: &Name, s: Selection, acc: SGroups, fuel: nat) -> SGroups decreases fuel, s {
    match s {
        Selection::Field(f) => group_append(acc, skey(*f.0), seq![f]),
        Selection::FragmentSpread(sp) => {
            let name = sp.0.fragment_name.key();
            if doc.fragments@.dom().contains(name) && applies(schema, concrete, &doc.fragments@[name].0.selection_set.ty) && fuel > 0 {
                let sub = doc.fragments@[name].0.selection_set.selections@;
                let g = groups_seq(doc, schema, concrete, sub, sub.len() as int, SGroups::empty(), (fuel - 1) as nat);
                merge(acc, g, g.len() as int)
            } else { acc }
        },
        Selection::InlineFragment(i) => {
            if i.0.type_condition is Some && !applies(schema, concrete, &i.0.type_condition->0) { acc } else {
                let sub = i.0.selection_set.selections@;
                let g = groups_seq(doc, schema, concrete, sub, sub.len() as int, SGroups::empty(), fuel);
                merge(acc, g, g.len() as int)
            }
        },
    }
}
pub open spec fn groups_seq(doc: &ExecutableDocument, schema: &Schema, concrete: &Name, v: Seq<Selection>, n: int, acc: SGroups, fuel: nat) -> SGroups decreases fuel, v, n {
    if n <= 0 || n > v.len() { acc } else { groups_sel(doc, schema, concrete, v[n - 1], groups_seq(doc, schema, concrete, v, n - 1, acc, fuel), fuel) }
}
/// the fuel never runs out while expanding these selections
pub open spec fn enough_sel(doc: &ExecutableDocument, schema: &Schema, concrete: &Name, s: Selection, fuel: nat) -> bool decreases fuel, s {
    match s {
        Selection::Field(f) => true,
        Selection::FragmentSpread(sp) => {
            let name = sp.0.fragment_name.key();
            (doc.fragments@.dom().contains(name) && applies(schema, concrete, &doc.fragments@[name].0.selection_set.ty)) ==>
                fuel > 0 && enough_seq(doc, schema, concrete, doc.fragments@[name].0.selection_set.selections@, doc.fragments@[name].0.selection_set.selections@.len() as int, (fuel - 1) as nat)
        },
        Selection::InlineFragment(i) => (i.0.type_condition is Some && !applies(schema, concrete, &i.0.type_condition->0)) || enough_seq(doc, schema, concrete, i.0.selection_set.selections@, i.0.selection_set.selections@.len() as int, fuel),
    }
}
pub open spec fn enough_seq(doc: &ExecutableDocument, schema: &Schema, concrete: &Name, v: Seq<Selection>, n: int, fuel: nat) -> bool decreases fuel, v, n {
    if n <= 0 || n > v.len() { true } else { enough_seq(doc, schema, concrete, v, n - 1, fuel) && enough_sel(doc, schema, concrete, v[n - 1], fuel) }
}
'''.replace("@TCM_REQ@", TCM_REQ).replace("@TCM_ENS@", TCM_ENS)

ARGS = "&self.doc.0, &self.schema.0, concrete_type"
SPEC_ALL = "groups_seq(%s, selection_set.selections@, selection_set.selections@.len() as int, SGroups::empty(), fuel)" % ARGS
ENOUGH_ALL = "enough_seq(%s, selection_set.selections@, selection_set.selections@.len() as int, fuel)" % ARGS
CONCRETE_OK = ("self.schema.0.types@.dom().contains(concrete_type.key()) && self.schema.0.types@[concrete_type.key()] is Object && "
               "self.schema.0.types@[concrete_type.key()]->Object_0.0.name.key() == concrete_type.key()")

END_PROOF = (
    "proof {\n"
    "  let doc = &self.doc.0; let schema = &self.schema.0; let v = selection_set.selections@; let s = v[__i - 1];\n"
    "  assert forall|fuel: nat| %s implies collected@ == #[trigger] groups_seq(doc, schema, concrete_type, v, __i as int, SGroups::empty(), fuel) by {\n"
    "    assert(groups_seq(doc, schema, concrete_type, v, (__i - 1) + 1, SGroups::empty(), fuel) == groups_sel(doc, schema, concrete_type, v[(__i - 1) as int], g0, fuel));\n"
    "    assert(enough_sel(doc, schema, concrete_type, v[(__i - 1) as int], fuel));\n"
    "    assert(groups_seq(doc, schema, concrete_type, v, __i as int, SGroups::empty(), fuel) == groups_sel(doc, schema, concrete_type, s, g0, fuel) && enough_sel(doc, schema, concrete_type, s, fuel));\n"
    "    match s {\n"
    "      Selection::Field(f) => { },\n"
    "      Selection::FragmentSpread(sp) => {\n"
    "        let name = sp.0.fragment_name.key();\n"
    "        if doc.fragments@.dom().contains(name) && applies(schema, concrete_type, &doc.fragments@[name].0.selection_set.ty) {\n"
    "          let sub = doc.fragments@[name].0.selection_set.selections@; let f1 = (fuel - 1) as nat;\n"
    "          assert(fuel > 0 && enough_seq(doc, schema, concrete_type, sub, sub.len() as int, f1));\n"
    "          let g = groups_seq(doc, schema, concrete_type, sub, sub.len() as int, SGroups::empty(), f1);\n"
    "          assert(collected@ == merge(g0, g, g.len() as int));\n"
    "        }\n"
    "      },\n"
    "      Selection::InlineFragment(i) => {\n"
    "        if !(i.0.type_condition is Some && !applies(schema, concrete_type, &i.0.type_condition->0)) {\n"
    "          let sub = i.0.selection_set.selections@;\n"
    "          assert(enough_seq(doc, schema, concrete_type, sub, sub.len() as int, fuel));\n"
    "          let g = groups_seq(doc, schema, concrete_type, sub, sub.len() as int, SGroups::empty(), fuel);\n"
    "          assert(collected@ == merge(g0, g, g.len() as int));\n"
    "        }\n"
    "      },\n"
    "    }\n"
    "  }\n"
    "}") % ENOUGH_ALL

def merge_loop(li):
    return dict(when="__j%d < __m%d.len()" % (li, li), invariant=[("bounds", "__j%d <= __m%d@.len()" % (li, li)), ("concrete_is_an_object_type_of_the_schema", CONCRETE_OK),
                           ("merged_so_far", "collected@ == merge(c0, __m%d@, __j%d as int)" % (li, li))],
                decreases="__m%d@.len() - __j%d" % (li, li))

UNIT = {
    "name": "smith_collect",
    "properties": ["C33"],
    "parts": [
        PRELUDE,
        dict(file=RESP, kind="fn", name="collect_fields", container="ResponseBuilder<'a, 'doc, 'schema, R>", container_name="ResponseBuilder", wrap="impl<'doc, 'schema> ResponseBuilder<'doc, 'schema>", props=["C33"],
             no_decreases=True,
             rewrites=[(") -> IndexMap<String, Vec<Node<Field>>> {", ") -> GroupMap {", 1),
                       ("let mut collected: IndexMap<String, Vec<Node<Field>>> = IndexMap::new();", "let mut collected: GroupMap = GroupMap::new();", 1),
                       ("for selection in &selection_set.selections {", "let mut __i: usize = 0; while __i < selection_set.selections.len() { let selection = &selection_set.selections[__i]; __i += 1;", 1),
                       ("field.alias.as_ref().unwrap_or(&field.name).to_string()", "name_to_string(field.alias.as_ref().unwrap_or(&field.name))", 1),
                       ("collected.entry(key).or_default().push(field.clone());", "collected.entry_push(key, field.clone());", 1),
                       ("collected.entry(key).or_default().append(&mut fields);", "collected.entry_append(key, &mut fields);", "*"),
                       (r"for \(key, mut fields\) in\s+self\.collect_fields\(&fragment_def\.selection_set, concrete_type\)\s+\{",
                        "let ghost c0 = collected@; let __m1 = self.collect_fields(&fragment_def.selection_set, concrete_type); let mut __j1: usize = 0; while __j1 < __m1.len() { let (key, mut fields) = __m1.entry_at(__j1); __j1 += 1;", "*", "re"),
                       (r"for \(key, mut fields\) in\s+self\.collect_fields\(&inline_fragment\.selection_set, concrete_type\)\s+\{",
                        "let ghost c0 = collected@; let __m2 = self.collect_fields(&inline_fragment.selection_set, concrete_type); let mut __j2: usize = 0; while __j2 < __m2.len() { let (key, mut fields) = __m2.entry_at(__j2); __j2 += 1;", "*", "re")],
             clauses=[("requires", "concrete_is_an_object_type_of_the_schema", CONCRETE_OK),
                      ("ensures", "response_keys_and_groups", "forall|fuel: nat| %s ==> r@ == #[trigger] %s" % (ENOUGH_ALL, SPEC_ALL))],
             loops=[dict(when="__i < selection_set.selections.len()", invariant=[("bounds", "__i <= selection_set.selections@.len()"), ("concrete_is_an_object_type_of_the_schema", CONCRETE_OK),
                                    ("collected_so_far", "forall|fuel: nat| %s ==> collected@ == #[trigger] groups_seq(%s, selection_set.selections@, __i as int, SGroups::empty(), fuel)" % (ENOUGH_ALL, ARGS))],
                         decreases="selection_set.selections@.len() - __i"),
                    merge_loop(1), merge_loop(2)],
             hints=[("loop_body_start", 0, "let ghost g0 = collected@;\n"
                     "proof { let v = selection_set.selections@; assert forall|fuel: nat| %s implies #[trigger] groups_seq(%s, v, __i + 1, SGroups::empty(), fuel) == groups_sel(%s, v[__i as int], g0, fuel) && enough_sel(%s, v[__i as int], fuel) by { "
                     "assert(enough_seq(%s, v, __i + 1, fuel)) by { lemma_enough_prefix(%s, v, v.len() as int, __i + 1, fuel); } "
                     "assert(enough_seq(%s, v, __i as int, fuel)); assert(groups_seq(%s, v, __i as int, SGroups::empty(), fuel) == g0); } }" % (ENOUGH_ALL, ARGS, ARGS, ARGS, ARGS, ARGS, ARGS, ARGS)),
                    ("loop_body_end", 0, END_PROOF)]),
    ],
}
# a lemma used by the hint: `enough` for all selections implies `enough` for every prefix
UNIT["parts"][0] = UNIT["parts"][0] + r'''
pub proof fn lemma_enough_prefix(doc: &ExecutableDocument, schema: &Schema, concrete: &Name, v: Seq<Selection>, n: int, m: int, fuel: nat)
    requires enough_seq(doc, schema, concrete, v, n, fuel), 0 <= m <= n <= v.len()
    ensures enough_seq(doc, schema, concrete, v, m, fuel)
    decreases n - m
{
    if m < n { lemma_enough_prefix(doc, schema, concrete, v, n - 1, m, fuel); }
}
'''
