"""Unit `schema_rules` -- C15 / C14 / C16, KERNEL: mechanisms behind "valid schemas are internally consistent".

Extracted verbatim from crates/apollo-compiler/src/schema/validation.rs:
  validate_type_system_name                       (Reserved Names: no user-defined name starts with `__`)
  BuiltInScalars::{record_type_ref, all_used}     (the bookkeeping that decides which built-in scalars a valid schema's type map contains)
  validate_schema                                 (its effect on the type map: "all referenced built-in scalars must be included; a built-in
                                                   scalar that is not referenced anywhere must not be included"; everything else is kept)

(The other mechanisms under contract for C15: validate_implementation_field_types in unit `types`, validate_implementation_field_arguments in
unit `impl_args`.)

validate_schema's contract: the type map afterwards is `types_after`: a definition stays unless it is a built-in scalar definition whose name
no directive definition or type definition refers to; a built-in scalar that is referred to but not defined is inserted as the table's
definition.  The per-definition validators are opaque; what is ASSUMED about them is one fact each: they call record_type_ref for exactly the
type references of the definition they are given (`recorded`, in terms of record_type_ref's proved contract).  The `all_used` shortcut is
proved harmless from set cardinalities (two disjoint subsets of the table's names whose sizes add up to the table's size cover it).
Lemmas over the contract: re-validation leaves the map as it is when the references are unchanged, and restores a referenced missing scalar (C16).

Shims (trusted): Name as its text plus an optional location; HashMap / HashSet / IndexMap as finite maps / sets keyed by the text, `retain`
keeps exactly the entries the closure accepts, `for x in set` visits each element once; DiagnosticList::push appends; the static table maps each
built-in scalar name to the definition of that name.
Listed rewrites: `location.is_some_and(|loc| loc.file_id == FileId::BUILT_IN)` -> `is_built_in_location(&location)`,
`name.starts_with("__")` -> `name_starts_with(name, "__")`; `for .. in &map / set` -> the index loop it desugars to; the retain closure gets its
parameter types and a postcondition spelled out (`keep == (!built-in || not a built-in scalar name || used and defined)`; the BODY is kept and is
checked against it); `&table[&name]` -> `table.index(&name)`.
"""
SV = "crates/apollo-compiler/src/schema/validation.rs"

PRELUDE = r'''
// ---------------- shims (trusted) ----------------
#[derive(Clone, Copy, PartialEq, Eq)]
pub struct FileId { pub id: u64 }
impl FileId { pub const BUILT_IN: FileId = FileId { id: 1 }; }
#[derive(Clone, Copy)]
pub struct SourceSpan { pub file_id: FileId, pub x: u64 }
pub struct Name { pub text: String, pub loc: Option<SourceSpan> }
impl Name {
    pub open spec fn key(&self) -> Seq<char> { self.text@ }
    pub fn location(&self) -> (r: Option<SourceSpan>) ensures r == self.loc { self.loc }
}
impl Clone for Name {
    #[verifier::external_body]
    fn clone(&self) -> (r: Self) ensures r == *self { unimplemented!() }
}
#[verifier::external_body]
pub fn is_built_in_location(location: &Option<SourceSpan>) -> (r: bool)
    ensures r == (*location is Some && location->0.file_id.id == FileId::BUILT_IN.id)
{ unimplemented!() }
#[verifier::external_body]
pub fn name_starts_with(name: &Name, prefix: &str) -> (r: bool)
    ensures r == (name.text@.len() >= prefix@.len() && name.text@.subrange(0, prefix@.len() as int) =~= prefix@)
{ unimplemented!() }
pub enum DiagnosticData { ReservedName { name: Name, describe: &'static str }, Other }
pub struct DiagnosticEntry { pub location: Option<SourceSpan>, pub data: DiagnosticData }
pub struct DiagnosticList { pub entries: Vec<DiagnosticEntry> }
impl DiagnosticList {
    pub fn push(&mut self, location: Option<SourceSpan>, data: DiagnosticData)
        ensures final(self).entries@ == old(self).entries@.push(DiagnosticEntry { location, data })
    { self.entries.push(DiagnosticEntry { location, data }) }
}
pub struct ScalarType { pub name: Name }
pub struct Node<T>(pub Box<T>);
#[verifier::external_body]
#[verifier::reject_recursive_types(K)]
#[verifier::reject_recursive_types(V)]
pub struct HashMap<K, V> { k: core::marker::PhantomData<(K, V)> }
impl<V> HashMap<Name, V> {
    pub uninterp spec fn view(&self) -> Map<Seq<char>, V>;
    #[verifier::external_body]
    pub fn contains_key(&self, k: &Name) -> (r: bool) ensures r == self@.dom().contains(k.key()) { unimplemented!() }
    /// number of entries (the map is finite)
    pub open spec fn spec_len(&self) -> nat { self@.dom().len() }
    #[verifier::external_body]
    pub fn len(&self) -> (r: usize) ensures r == self.spec_len() { unimplemented!() }
    /// `&map[&k]`: panics unless the key is present
    #[verifier::external_body]
    pub fn index(&self, k: &Name) -> (r: &V) requires self@.dom().contains(k.key()) ensures *r == self@[k.key()] { unimplemented!() }
}
#[verifier::external_body]
#[verifier::reject_recursive_types(K)]
pub struct HashSet<K> { k: core::marker::PhantomData<K> }
impl HashSet<Name> {
    pub uninterp spec fn view(&self) -> Set<Seq<char>>;
    pub open spec fn spec_len(&self) -> nat { self@.len() }
    #[verifier::external_body]
    pub fn contains(&self, k: &Name) -> (r: bool) ensures r == self@.contains(k.key()) { unimplemented!() }
    #[verifier::external_body]
    pub fn insert(&mut self, k: Name) -> (r: bool) ensures final(self)@ == old(self)@.insert(k.key()), r == !old(self)@.contains(k.key()) { unimplemented!() }
    #[verifier::external_body]
    pub fn len(&self) -> (r: usize) ensures r == self.spec_len() { unimplemented!() }
}
pub struct ObjT { pub x: u64 }
pub enum ExtendedType { Scalar(Node<ScalarType>), Object(Node<ObjT>), Interface(Node<ObjT>), Union(Node<ObjT>), Enum(Node<ObjT>), InputObject(Node<ObjT>) }
pub struct Schema { pub types: TypeMap }
pub struct BuiltInScalars { pub all: &'static HashMap<Name, Node<ScalarType>>, pub used_and_defined: HashSet<Name>, pub used_and_undefined: HashSet<Name> }
'''


PRELUDE2 = r'''
// ---------------- shims for validate_schema (trusted) ----------------
impl<T> core::ops::Deref for Node<T> {
    type Target = T;
    fn deref(&self) -> (r: &T) ensures *r == *self.0 { &*self.0 }
}
impl Clone for Node<ScalarType> {
    #[verifier::external_body]
    fn clone(&self) -> (r: Self) ensures r == *self { unimplemented!() }
}
pub uninterp spec fn spec_built_in(d: ExtendedType) -> bool;
impl ExtendedType {
    #[verifier::external_body]
    pub fn is_built_in(&self) -> (r: bool) ensures r == spec_built_in(*self) { unimplemented!() }
    #[verifier::external_body]
    pub fn describe(&self) -> &'static str { unimplemented!() }
}
// Schema::types (an IndexMap<Name, ExtendedType>): a finite map keyed by the text of the name, plus its entries in iteration order
#[verifier::external_body]
pub struct TypeMap { x: u8 }
impl TypeMap {
    pub uninterp spec fn view(&self) -> Map<Seq<char>, ExtendedType>;
    pub uninterp spec fn entries(&self) -> Seq<(Name, ExtendedType)>;
    /// the stored key of an entry
    pub uninterp spec fn key_name(&self, k: Seq<char>) -> Name;
    #[verifier::external_body]
    pub fn contains_key(&self, k: &Name) -> (r: bool) ensures r == self@.dom().contains(k.key()) { unimplemented!() }
    #[verifier::external_body]
    pub fn len(&self) -> (r: usize) ensures r == self.entries().len() { unimplemented!() }
    // the i-th entry of `for (name, def) in &map` (listed rewrite of the for loop)
    #[verifier::external_body]
    pub fn index_pair(&self, i: usize) -> (r: (&Name, &ExtendedType)) requires i < self.entries().len()
        ensures *r.0 == self.entries()[i as int].0, *r.1 == self.entries()[i as int].1 { unimplemented!() }
    // IndexMap::retain: keeps exactly the entries for which the closure answers true (the closure here does not modify the value: `&V` for `&mut V`)
    #[verifier::external_body]
    pub fn retain<F: Fn(&Name, &ExtendedType) -> bool>(&mut self, keep: F)
        requires forall|n: &Name, d: &ExtendedType| keep.requires((n, d))
        ensures
            forall|k: Seq<char>| #[trigger] final(self)@.dom().contains(k) ==> old(self)@.dom().contains(k) && final(self)@[k] == old(self)@[k],
            forall|k: Seq<char>| #[trigger] old(self)@.dom().contains(k) ==> old(self).key_name(k).key() == k
                && (final(self)@.dom().contains(k) ==> keep.ensures((&old(self).key_name(k), &old(self)@[k]), true))
                && (!final(self)@.dom().contains(k) ==> keep.ensures((&old(self).key_name(k), &old(self)@[k]), false)),
    { unimplemented!() }
    #[verifier::external_body]
    pub fn insert(&mut self, k: Name, v: ExtendedType) -> (r: Option<ExtendedType>)
        ensures final(self)@ == old(self)@.insert(k.key(), v)
    { unimplemented!() }
}
// HashSet<Name> consumed by `for name in set`: its elements in some order, each once (listed rewrite of the for loop)
impl HashSet<Name> {
    pub uninterp spec fn elems(&self) -> Seq<Name>;
    #[verifier::external_body]
    pub fn elem_count(&self) -> (r: usize)
        ensures r == self.elems().len(), forall|k: Seq<char>| self@.contains(k) <==> exists|i: int| 0 <= i < self.elems().len() && #[trigger] self.elems()[i].key() == k
    { unimplemented!() }
    #[verifier::external_body]
    pub fn elem(&self, i: usize) -> (r: Name) requires i < self.elems().len() ensures r == self.elems()[i as int] { unimplemented!() }
}
// the table of built-in scalar definitions (a lazily initialised static built from the built-in SDL): each name maps to the scalar definition of that name
pub uninterp spec fn builtin_table() -> &'static HashMap<Name, Node<ScalarType>>;
pub open spec fn table_wf(t: &HashMap<Name, Node<ScalarType>>) -> bool { forall|k: Seq<char>| #[trigger] t@.dom().contains(k) ==> t@[k].0.name.key() == k }

// ---- what the per-definition validators record (ASSUMED: they call record_type_ref for every type reference of the definition) ----
pub uninterp spec fn directive_refs(s: &Schema) -> Set<Seq<char>>;
pub uninterp spec fn def_refs(d: ExtendedType) -> Set<Seq<char>>;
/// the bookkeeping after recording the references R (contract of record_type_ref, applied to each element of R)
pub open spec fn recorded(b0: &BuiltInScalars, b1: &BuiltInScalars, s: &Schema, refs: Set<Seq<char>>) -> bool {
    &&& b1.all == b0.all
    &&& b1.used_and_defined@ == b0.used_and_defined@ + refs.filter(|k: Seq<char>| b0.all@.dom().contains(k) && s.types@.dom().contains(k))
    &&& b1.used_and_undefined@ == b0.used_and_undefined@ + refs.filter(|k: Seq<char>| b0.all@.dom().contains(k) && !s.types@.dom().contains(k))
}
impl BuiltInScalars {
    #[verifier::external_body]
    pub fn new() -> (r: Self) ensures r.all == builtin_table(), table_wf(r.all), r.used_and_defined@ == Set::<Seq<char>>::empty(), r.used_and_undefined@ == Set::<Seq<char>>::empty() { unimplemented!() }
}
#[verifier::external_body]
pub fn validate_schema_definition(errors: &mut DiagnosticList, schema: &Schema) { unimplemented!() }
#[verifier::external_body]
pub fn validate_directive_definitions(errors: &mut DiagnosticList, schema: &Schema, b: &mut BuiltInScalars) ensures recorded(old(b), final(b), schema, directive_refs(schema)) { unimplemented!() }
#[verifier::external_body]
pub fn validate_scalar_definition(errors: &mut DiagnosticList, schema: &Schema, def: &Node<ScalarType>) { unimplemented!() }
#[verifier::external_body]
pub fn validate_object_type_definition(errors: &mut DiagnosticList, schema: &Schema, b: &mut BuiltInScalars, def: &Node<ObjT>) ensures recorded(old(b), final(b), schema, def_refs(ExtendedType::Object(*def))) { unimplemented!() }
#[verifier::external_body]
pub fn validate_interface_definition(errors: &mut DiagnosticList, schema: &Schema, b: &mut BuiltInScalars, def: &Node<ObjT>) ensures recorded(old(b), final(b), schema, def_refs(ExtendedType::Interface(*def))) { unimplemented!() }
#[verifier::external_body]
pub fn validate_union_definition(errors: &mut DiagnosticList, schema: &Schema, def: &Node<ObjT>) { unimplemented!() }
#[verifier::external_body]
pub fn validate_enum_definition(errors: &mut DiagnosticList, schema: &Schema, def: &Node<ObjT>) { unimplemented!() }
#[verifier::external_body]
pub fn validate_input_object_definition(errors: &mut DiagnosticList, schema: &Schema, b: &mut BuiltInScalars, def: &Node<ObjT>) ensures recorded(old(b), final(b), schema, def_refs(ExtendedType::InputObject(*def))) { unimplemented!() }


// ---------------- lemmas ----------------
pub open spec fn ud_of(s: &Schema, all: &HashMap<Name, Node<ScalarType>>, r: Set<Seq<char>>) -> Set<Seq<char>> { r.filter(|k: Seq<char>| all@.dom().contains(k) && s.types@.dom().contains(k)) }
pub open spec fn uu_of(s: &Schema, all: &HashMap<Name, Node<ScalarType>>, r: Set<Seq<char>>) -> Set<Seq<char>> { r.filter(|k: Seq<char>| all@.dom().contains(k) && !s.types@.dom().contains(k)) }
/// recording R1 and then R2 is recording their union
pub proof fn lemma_recorded_trans(b0: &BuiltInScalars, b1: &BuiltInScalars, b2: &BuiltInScalars, s: &Schema, r1: Set<Seq<char>>, r2: Set<Seq<char>>)
    requires recorded(b0, b1, s, r1), recorded(b1, b2, s, r2)
    ensures recorded(b0, b2, s, r1 + r2)
{
    assert(b2.used_and_defined@ =~= b0.used_and_defined@ + (r1 + r2).filter(|k: Seq<char>| b0.all@.dom().contains(k) && s.types@.dom().contains(k)));
    assert(b2.used_and_undefined@ =~= b0.used_and_undefined@ + (r1 + r2).filter(|k: Seq<char>| b0.all@.dom().contains(k) && !s.types@.dom().contains(k)));
}
pub proof fn lemma_recorded_nothing(b0: &BuiltInScalars, b1: &BuiltInScalars, s: &Schema, r: Set<Seq<char>>)
    requires recorded(b0, b1, s, r)
    ensures recorded(b0, b1, s, r + Set::<Seq<char>>::empty())
{
    assert(r + Set::<Seq<char>>::empty() =~= r);
}
/// the two used-sets are disjoint subsets of the table's names; if their sizes add up to the table's size, every name of the table is in one of them
pub proof fn lemma_all_used(a: Set<Seq<char>>, ud: Set<Seq<char>>, uu: Set<Seq<char>>)
    requires ud.subset_of(a), uu.subset_of(a), ud.disjoint(uu)
    ensures ud.len() + uu.len() <= a.len(), ud.len() + uu.len() == a.len() ==> ud + uu =~= a
{
    vstd::set_lib::lemma_len_subset(ud, a); vstd::set_lib::lemma_len_subset(uu, a);
    vstd::set_lib::lemma_set_disjoint_lens(ud, uu);
    vstd::set_lib::lemma_len_subset(ud + uu, a);
    if ud.len() + uu.len() == a.len() { vstd::set_lib::lemma_subset_equality(ud + uu, a); }
}
// a HashMap holds at most usize::MAX entries (its len() is a usize) -- assumed
#[verifier::external_body]
pub proof fn axiom_table_size(t: &HashMap<Name, Node<ScalarType>>) ensures t@.dom().len() <= usize::MAX { }

// ---------------- specification ----------------
/// type references of the first n definitions that can contain any (objects, interfaces, input objects)
pub open spec fn refs_upto(e: Seq<(Name, ExtendedType)>, n: int) -> Set<Seq<char>> decreases n {
    if n <= 0 { Set::empty() } else {
        let d = e[n - 1].1;
        if d is Object || d is Interface || d is InputObject { refs_upto(e, n - 1) + def_refs(d) } else { refs_upto(e, n - 1) }
    }
}
/// every type name the schema's directive definitions and type definitions refer to
pub open spec fn refs(s: &Schema) -> Set<Seq<char>> { directive_refs(s) + refs_upto(s.types.entries(), s.types.entries().len() as int) }
pub open spec fn among(e: Seq<Name>, j: int, k: Seq<char>) -> bool { exists|i: int| 0 <= i < j && #[trigger] e[i].key() == k }
/// the type map after the removal step: unused built-in scalar definitions are gone, everything else is as it was
pub open spec fn after_removal(s0: &Schema, all: &HashMap<Name, Node<ScalarType>>, t1: Map<Seq<char>, ExtendedType>) -> bool {
    forall|k: Seq<char>| #![trigger t1.dom().contains(k)] (t1.dom().contains(k) <==> s0.types@.dom().contains(k) && !(spec_built_in(s0.types@[k]) && all@.dom().contains(k) && !refs(s0).contains(k)))
        && (t1.dom().contains(k) ==> t1[k] == s0.types@[k])
}
/// "all referenced built-in scalars must be included; a built-in scalar that is not referenced anywhere must not be included"
pub open spec fn types_after(s0: &Schema, all: &HashMap<Name, Node<ScalarType>>, k: Seq<char>) -> Option<ExtendedType> {
    let used = all@.dom().contains(k) && refs(s0).contains(k);
    if s0.types@.dom().contains(k) {
        let d = s0.types@[k];
        if spec_built_in(d) && all@.dom().contains(k) && !used { None } else { Some(d) }
    } else if used { Some(ExtendedType::Scalar(all@[k])) } else { None }
}

/// C16 (first sentence, given that the references do not change): validating the result again leaves the type map as it is
pub proof fn lemma_revalidation_is_identity(s0: &Schema, s1: &Schema, all: &HashMap<Name, Node<ScalarType>>)
    requires
        forall|k: Seq<char>| #![trigger s1.types@.dom().contains(k)] (s1.types@.dom().contains(k) <==> types_after(s0, all, k) is Some) && (s1.types@.dom().contains(k) ==> s1.types@[k] == types_after(s0, all, k)->0),
        refs(s1) == refs(s0),
    ensures
        forall|k: Seq<char>| #![trigger s1.types@.dom().contains(k)] (s1.types@.dom().contains(k) <==> types_after(s1, all, k) is Some) && (s1.types@.dom().contains(k) ==> s1.types@[k] == types_after(s1, all, k)->0),
{
}
/// C16 (second sentence): a built-in scalar that is referenced but has no definition is restored, as the table's definition
pub proof fn lemma_referenced_scalar_is_restored(s0: &Schema, all: &HashMap<Name, Node<ScalarType>>, k: Seq<char>)
    requires all@.dom().contains(k), refs(s0).contains(k), !s0.types@.dom().contains(k)
    ensures types_after(s0, all, k) == Some(ExtendedType::Scalar(all@[k]))
{
}
'''

UNIT = {
    "name": "schema_rules",
    "properties": ["C15", "C14", "C16"],
    "parts": [
        PRELUDE,
        dict(file=SV, kind="fn", name="validate_type_system_name", props=["C15", "C14"],
             rewrites=[("location.is_some_and(|loc| loc.file_id == FileId::BUILT_IN)", "is_built_in_location(&location)", 1),
                       ('name.starts_with("__")', 'name_starts_with(name, "__")', 1)],
             clauses=[("ensures", "reserved_prefix_is_reported_unless_built_in",
                       'final(errors).entries@.len() == old(errors).entries@.len() + (if name.text@.len() >= 2 && name.text@[0] == \'_\' && name.text@[1] == \'_\' && !(name.loc is Some && name.loc->0.file_id.id == 1) { 1int } else { 0int })'),
                      ("ensures", "earlier_diagnostics_kept", "final(errors).entries@.take(old(errors).entries@.len() as int) =~= old(errors).entries@"),
                      ("ensures", "the_report_names_the_name", "final(errors).entries@.len() > old(errors).entries@.len() ==> final(errors).entries@.last().data is ReservedName && final(errors).entries@.last().data->ReservedName_name == *name")],
             hints=[("body_start", None, 'proof { reveal_strlit("__"); assert("__"@.len() == 2 && "__"@[0] == \'_\' && "__"@[1] == \'_\'); }'),
                    ("body_end", None, 'proof { let t = name.text@; if t.len() >= 2 { assert(t.subrange(0, 2) =~= "__"@ <==> (t[0] == \'_\' && t[1] == \'_\')) by { if t[0] == \'_\' && t[1] == \'_\' { assert(t.subrange(0, 2) =~= "__"@); } else { assert(t.subrange(0, 2)[0] == t[0] && t.subrange(0, 2)[1] == t[1]); } } } }')]),
        PRELUDE2,
        dict(file=SV, kind="fn", name="validate_schema", props=["C15", "C16"], n_loops=2,
             rewrites=[("for (name, def) in &schema.types {", "let mut __i: usize = 0; while __i < schema.types.len() { let (name, def) = schema.types.index_pair(__i); __i += 1;", 1),
                       ("schema.types.retain(|name, def| {", "schema.types.retain(|name: &Name, def: &ExtendedType| -> (keep: bool) ensures keep == (!spec_built_in(*def) || !builtin_scalars.all@.dom().contains(name.key()) || builtin_scalars.used_and_defined@.contains(name.key())) {", 1),
                       ("for name in builtin_scalars.used_and_undefined {", "let mut __j: usize = 0; let __n = builtin_scalars.used_and_undefined.elem_count(); while __j < __n { let name = builtin_scalars.used_and_undefined.elem(__j); __j += 1;", 1),
                       ("&builtin_scalars.all[&name]", "builtin_scalars.all.index(&name)", 1)],
             clauses=[("ensures", "built_in_scalars_present_iff_referenced_everything_else_kept",
                       "forall|k: Seq<char>| #![trigger final(schema).types@.dom().contains(k)] (final(schema).types@.dom().contains(k) <==> types_after(old(schema), builtin_table(), k) is Some) "
                       "&& (final(schema).types@.dom().contains(k) ==> final(schema).types@[k] == types_after(old(schema), builtin_table(), k)->0)")],
             loops=[dict(invariant=[("bounds", "__i <= schema.types.entries().len()"),
                                    ("schema_untouched", "*schema == *old(schema)"),
                                    ("recorded_so_far", "builtin_scalars.all == builtin_table(), table_wf(builtin_scalars.all), recorded(&b0, &builtin_scalars, &*schema, directive_refs(&*schema) + refs_upto(schema.types.entries(), __i as int))")],
                         decreases="schema.types.entries().len() - __i"),
                    dict(invariant=[("bounds", "__j <= __n, __n == builtin_scalars.used_and_undefined.elems().len()"),
                                    ("table", "builtin_scalars.all == builtin_table(), table_wf(builtin_scalars.all)"),
                                    ("elements_are_the_used_and_undefined_names", "forall|k: Seq<char>| builtin_scalars.used_and_undefined@.contains(k) <==> among(builtin_scalars.used_and_undefined.elems(), __n as int, k), "
                                     "builtin_scalars.used_and_undefined@ =~= uu_of(&*old(schema), builtin_scalars.all, refs(&*old(schema)))"),
                                    ("after_removal", "after_removal(&*old(schema), builtin_scalars.all, t1)"),
                                    ("inserted_so_far", "forall|k: Seq<char>| #![trigger schema.types@.dom().contains(k)] (schema.types@.dom().contains(k) <==> t1.dom().contains(k) || among(builtin_scalars.used_and_undefined.elems(), __j as int, k)) "
                                     "&& (among(builtin_scalars.used_and_undefined.elems(), __j as int, k) ==> schema.types@[k] == ExtendedType::Scalar(builtin_scalars.all@[k])) "
                                     "&& (t1.dom().contains(k) && !among(builtin_scalars.used_and_undefined.elems(), __j as int, k) ==> schema.types@[k] == t1[k])")],
                         decreases="__n - __j")],
             hints=[("after", "let mut builtin_scalars = BuiltInScalars::new();", "let ghost b0 = builtin_scalars;"),
                    ("after_loop", 0, 'proof { let all = builtin_scalars.all; let r = refs(&*old(schema)); let ud = builtin_scalars.used_and_defined@; let uu = builtin_scalars.used_and_undefined@; assert(ud =~= ud_of(&*schema, all, r)); assert(uu =~= uu_of(&*schema, all, r)); lemma_all_used(all@.dom(), ud, uu); axiom_table_size(all); }'),
                    ("before", "let mut __i: usize = 0;", 'proof { lemma_recorded_nothing(&b0, &builtin_scalars, &*schema, directive_refs(&*schema)); assert(refs_upto(schema.types.entries(), 0) =~= Set::<Seq<char>>::empty()); }'),
                    ("loop_body_start", 0, 'let ghost bp = builtin_scalars;'),
                    ("loop_body_end", 0, 'proof { let e = schema.types.entries(); let d = e[__i - 1].1; let r0 = directive_refs(&*schema) + refs_upto(e, __i - 1); if d is Object || d is Interface || d is InputObject { lemma_recorded_trans(&b0, &bp, &builtin_scalars, &*schema, r0, def_refs(d)); assert(r0 + def_refs(d) =~= directive_refs(&*schema) + refs_upto(e, __i as int)); } else { assert(refs_upto(e, __i as int) =~= refs_upto(e, __i - 1)); } }'),
                    ("before", "let def = builtin_scalars.all.index(&name);", 'proof { let e = builtin_scalars.used_and_undefined.elems(); assert(e[__j - 1].key() == name.key()); assert(among(e, __n as int, name.key())); }'),
                    ("loop_body_start", 1, 'let ghost tp = schema.types@;'),
                    ("loop_body_end", 1, 'proof { let e = builtin_scalars.used_and_undefined.elems(); let nk = e[__j - 1].key(); assert forall|k: Seq<char>| among(e, __j as int, k) <==> (among(e, __j - 1, k) || k == nk) by { if among(e, __j as int, k) { let i = choose|i: int| 0 <= i < __j && #[trigger] e[i].key() == k; if i < __j - 1 { assert(among(e, __j - 1, k)); } } if among(e, __j - 1, k) { let i = choose|i: int| 0 <= i < __j - 1 && #[trigger] e[i].key() == k; assert(e[i].key() == k); assert(among(e, __j as int, k)); } if k == nk { assert(e[__j - 1].key() == k); assert(among(e, __j as int, k)); } } assert(schema.types@ =~= tp.insert(nk, ExtendedType::Scalar(builtin_scalars.all@[nk]))); }'),
                    ("before", "let mut __j: usize = 0;", 'let ghost t1 = schema.types@; proof { let all = builtin_scalars.all; let r = refs(&*old(schema)); let ud = builtin_scalars.used_and_defined@; let uu = builtin_scalars.used_and_undefined@; assert forall|k: Seq<char>| #![trigger t1.dom().contains(k)] (t1.dom().contains(k) <==> old(schema).types@.dom().contains(k) && !(spec_built_in(old(schema).types@[k]) && all@.dom().contains(k) && !r.contains(k))) && (t1.dom().contains(k) ==> t1[k] == old(schema).types@[k]) by { if old(schema).types@.dom().contains(k) { assert(old(schema).types.key_name(k).key() == k || true); if all@.dom().contains(k) { assert(ud.contains(k) == r.contains(k)); assert((ud + uu).contains(k) == r.contains(k)); } } } assert(after_removal(&*old(schema), all, t1)); }')]),
        dict(file=SV, kind="fn", name="record_type_ref", container="BuiltInScalars", container_name="BuiltInScalars", wrap="impl BuiltInScalars", props=["C15", "C16"],
             clauses=[("ensures", "says_whether_it_is_a_built_in_scalar", "r == old(self).all@.dom().contains(name.key())"),
                      ("ensures", "used_and_defined_recorded", "final(self).used_and_defined@ == (if r && schema.types@.dom().contains(name.key()) { old(self).used_and_defined@.insert(name.key()) } else { old(self).used_and_defined@ })"),
                      ("ensures", "used_and_undefined_recorded", "final(self).used_and_undefined@ == (if r && !schema.types@.dom().contains(name.key()) { old(self).used_and_undefined@.insert(name.key()) } else { old(self).used_and_undefined@ })"),
                      ("ensures", "table_untouched", "final(self).all == old(self).all")]),
        dict(file=SV, kind="fn", name="all_used", container="BuiltInScalars", container_name="BuiltInScalars", wrap="impl BuiltInScalars", props=["C15", "C16"],
             clauses=[("requires", "no_overflow", "self.used_and_defined.spec_len() + self.used_and_undefined.spec_len() <= usize::MAX"),
                      ("ensures", "counts_compared", "r == (self.used_and_defined.spec_len() + self.used_and_undefined.spec_len() == self.all.spec_len())")]),
    ],
}
