"""Unit `schema_rules` -- C15, KERNEL ONLY: two of the mechanisms behind "valid schemas are internally consistent".

Extracted verbatim from crates/apollo-compiler/src/schema/validation.rs:
  validate_type_system_name          (Reserved Names: no user-defined name starts with `__`)
  BuiltInScalars::{record_type_ref, all_used}   (the bookkeeping that decides which built-in scalars a valid schema's type map contains)

(The third mechanism under contract for C15, validate_implementation_field_types, lives in unit `types`.)

Shims (trusted): Name as its text plus an optional location; HashMap / HashSet / IndexMap as maps / sets keyed by the text;
DiagnosticList::push appends.  Listed rewrites: `location.is_some_and(|loc| loc.file_id == FileId::BUILT_IN)` -> `is_built_in_location(&location)`,
`name.starts_with("__")` -> `name_starts_with(name, "__")` (closure / str search without a Verus spec).
"""
SV = "crates/apollo-compiler/src/schema/validation.rs"

PRELUDE = r'''
// ---------------- shims (trusted) ----------------
#[derive(Clone, Copy, PartialEq, Eq)]
pub struct FileId { pub id: u64 }
impl FileId { pub const BUILT_IN: FileId = FileId { id: 1 }; }
#[derive(Clone, Copy)]
pub struct SourceSpan { pub file_id: FileId, pub x: u64 }
pub struct Name { pub text: String, pub loc: Option<SourceSpan> }
impl Name {
    pub open spec fn key(&self) -> Seq<char> { self.text@ }
    pub fn location(&self) -> (r: Option<SourceSpan>) ensures r == self.loc { self.loc }
}
impl Clone for Name {
    #[verifier::external_body]
    fn clone(&self) -> (r: Self) ensures r == *self { unimplemented!() }
}
#[verifier::external_body]
pub fn is_built_in_location(location: &Option<SourceSpan>) -> (r: bool)
    ensures r == (*location is Some && location->0.file_id.id == FileId::BUILT_IN.id)
{ unimplemented!() }
#[verifier::external_body]
pub fn name_starts_with(name: &Name, prefix: &str) -> (r: bool)
    ensures r == (name.text@.len() >= prefix@.len() && name.text@.subrange(0, prefix@.len() as int) =~= prefix@)
{ unimplemented!() }
pub enum DiagnosticData { ReservedName { name: Name, describe: &'static str }, Other }
pub struct DiagnosticEntry { pub location: Option<SourceSpan>, pub data: DiagnosticData }
pub struct DiagnosticList { pub entries: Vec<DiagnosticEntry> }
impl DiagnosticList {
    pub fn push(&mut self, location: Option<SourceSpan>, data: DiagnosticData)
        ensures final(self).entries@ == old(self).entries@.push(DiagnosticEntry { location, data })
    { self.entries.push(DiagnosticEntry { location, data }) }
}
pub struct ScalarType { pub x: u64 }
pub struct Node<T>(pub Box<T>);
#[verifier::external_body]
#[verifier::reject_recursive_types(K)]
#[verifier::reject_recursive_types(V)]
pub struct HashMap<K, V> { k: core::marker::PhantomData<(K, V)> }
impl<V> HashMap<Name, V> {
    pub uninterp spec fn view(&self) -> Map<Seq<char>, V>;
    #[verifier::external_body]
    pub fn contains_key(&self, k: &Name) -> (r: bool) ensures r == self@.dom().contains(k.key()) { unimplemented!() }
    /// number of entries (the map is finite)
    pub uninterp spec fn spec_len(&self) -> nat;
    #[verifier::external_body]
    pub fn len(&self) -> (r: usize) ensures r == self.spec_len() { unimplemented!() }
}
#[verifier::external_body]
#[verifier::reject_recursive_types(K)]
pub struct HashSet<K> { k: core::marker::PhantomData<K> }
impl HashSet<Name> {
    pub uninterp spec fn view(&self) -> Set<Seq<char>>;
    pub uninterp spec fn spec_len(&self) -> nat;
    #[verifier::external_body]
    pub fn insert(&mut self, k: Name) -> (r: bool) ensures final(self)@ == old(self)@.insert(k.key()), r == !old(self)@.contains(k.key()) { unimplemented!() }
    #[verifier::external_body]
    pub fn len(&self) -> (r: usize) ensures r == self.spec_len() { unimplemented!() }
}
pub struct ExtendedType { pub x: u64 }
pub struct Schema { pub types: HashMap<Name, ExtendedType> }
pub struct BuiltInScalars { pub all: &'static HashMap<Name, Node<ScalarType>>, pub used_and_defined: HashSet<Name>, pub used_and_undefined: HashSet<Name> }
'''

UNIT = {
    "name": "schema_rules",
    "properties": ["C15", "C14"],
    "parts": [
        PRELUDE,
        dict(file=SV, kind="fn", name="validate_type_system_name", props=["C15", "C14"],
             rewrites=[("location.is_some_and(|loc| loc.file_id == FileId::BUILT_IN)", "is_built_in_location(&location)", 1),
                       ('name.starts_with("__")', 'name_starts_with(name, "__")', 1)],
             clauses=[("ensures", "reserved_prefix_is_reported_unless_built_in",
                       'final(errors).entries@.len() == old(errors).entries@.len() + (if name.text@.len() >= 2 && name.text@[0] == \'_\' && name.text@[1] == \'_\' && !(name.loc is Some && name.loc->0.file_id.id == 1) { 1int } else { 0int })'),
                      ("ensures", "earlier_diagnostics_kept", "final(errors).entries@.take(old(errors).entries@.len() as int) =~= old(errors).entries@"),
                      ("ensures", "the_report_names_the_name", "final(errors).entries@.len() > old(errors).entries@.len() ==> final(errors).entries@.last().data is ReservedName && final(errors).entries@.last().data->ReservedName_name == *name")],
             hints=[("body_start", None, 'proof { reveal_strlit("__"); assert("__"@.len() == 2 && "__"@[0] == \'_\' && "__"@[1] == \'_\'); }'),
                    ("body_end", None, 'proof { let t = name.text@; if t.len() >= 2 { assert(t.subrange(0, 2) =~= "__"@ <==> (t[0] == \'_\' && t[1] == \'_\')) by { if t[0] == \'_\' && t[1] == \'_\' { assert(t.subrange(0, 2) =~= "__"@); } else { assert(t.subrange(0, 2)[0] == t[0] && t.subrange(0, 2)[1] == t[1]); } } } }')]),
        dict(file=SV, kind="fn", name="record_type_ref", container="BuiltInScalars", container_name="BuiltInScalars", wrap="impl BuiltInScalars", props=["C15"],
             clauses=[("ensures", "says_whether_it_is_a_built_in_scalar", "r == old(self).all@.dom().contains(name.key())"),
                      ("ensures", "used_and_defined_recorded", "final(self).used_and_defined@ == (if r && schema.types@.dom().contains(name.key()) { old(self).used_and_defined@.insert(name.key()) } else { old(self).used_and_defined@ })"),
                      ("ensures", "used_and_undefined_recorded", "final(self).used_and_undefined@ == (if r && !schema.types@.dom().contains(name.key()) { old(self).used_and_undefined@.insert(name.key()) } else { old(self).used_and_undefined@ })"),
                      ("ensures", "table_untouched", "final(self).all == old(self).all")]),
        dict(file=SV, kind="fn", name="all_used", container="BuiltInScalars", container_name="BuiltInScalars", wrap="impl BuiltInScalars", props=["C15"],
             clauses=[("requires", "no_overflow", "self.used_and_defined.spec_len() + self.used_and_undefined.spec_len() <= usize::MAX"),
                      ("ensures", "counts_compared", "r == (self.used_and_defined.spec_len() + self.used_and_undefined.spec_len() == self.all.spec_len())")]),
    ],
}
