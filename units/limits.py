"""Unit `limits` -- C04 (token limit, limit tracker) on LimitTracker and Lexer::next.

Extracted verbatim: struct LimitTracker, LimitTracker::{new, check_and_increment, decrement},
struct Lexer, <Lexer as Iterator>::next (wrapped as an inherent method: Verus cannot attach a
`requires` to an impl of the external trait Iterator; `Self::Item` is spelled out).

Cursor::advance is NOT verified here (external_body with a ghost call counter): the contract is
about how many times it is called and what happens around it.
"""

LIMIT = "crates/apollo-parser/src/limit.rs"
LEXER = "crates/apollo-parser/src/lexer/mod.rs"

PRELUDE = r'''
// ---------------- shims (trusted) ----------------
#[derive(Clone, Copy, PartialEq, Eq, Structural)]
pub enum TokenKind { Eof, Other }
pub struct Token<'a> { pub kind: TokenKind, pub data: &'a str, pub index: usize }
impl<'a> Token<'a> {
    pub fn kind(&self) -> (r: TokenKind) ensures r == self.kind { self.kind }
}
pub struct Error { pub is_limit: bool }
impl Error {
    // Error::limit builds an error whose is_limit() is true; messages are irrelevant here.
    #[verifier::external_body]
    pub fn limit(message: &str, index: usize) -> (r: Error) ensures r.is_limit { unimplemented!() }
}
// Cursor: one ghost counter of advance() calls; advance() never produces a *limit* error
// (checked syntactically by frame check `only_lexer_next_makes_limit_errors`).
pub struct Cursor<'a> { pub calls: Ghost<nat>, pub src: &'a str }
impl<'a> Cursor<'a> {
    #[verifier::external_body]
    pub fn index(&self) -> usize { unimplemented!() }
    #[verifier::external_body]
    pub fn advance(&mut self) -> (r: Result<Token<'a>, Error>)
        ensures final(self).calls@ == old(self).calls@ + 1,
            r is Err ==> !r->Err_0.is_limit,
    { unimplemented!() }
}
'''

LEXER_SPEC = r'''
impl<'a> Lexer<'a> {
    /// items handed out so far == advance() calls == limit_tracker.current, never above the limit
    pub open spec fn wf(&self) -> bool {
        self.cursor.calls@ == self.limit_tracker.current as nat
        && self.limit_tracker.current <= self.limit_tracker.limit
        && (self.limit_tracker.high == self.limit_tracker.current
            || (self.finished && self.limit_tracker.high == self.limit_tracker.current + 1))
    }
    pub open spec fn is_limit_item(r: Option<Result<Token<'a>, Error>>) -> bool {
        r is Some && r->0 is Err && r->0->Err_0.is_limit
    }
}
'''

LEMMAS = r'''
// ---------------- property-level lemmas over the contracts ----------------
// "parsing consumes at most n lexer items": by `wf`, calls of advance == current <= limit at all times.
proof fn c04_at_most_limit_items(l: Lexer)
    requires l.wf()
    ensures l.cursor.calls@ <= l.limit_tracker.limit
{ }

// "no item after the first limit error": after a limit item the lexer is finished, and a finished
// lexer returns None and does not change (postconditions `finished_is_final`, `limit_item_finishes`).

// high-water mark = number of items attempted, capped at limit + 1 (what the compiler reports as "reached")
proof fn c04_high_water(l: Lexer)
    requires l.wf()
    ensures l.limit_tracker.high <= l.limit_tracker.limit + 1,
            l.limit_tracker.high >= l.limit_tracker.current
{ }
'''

UNIT = {
    "name": "limits",
    "properties": ["C04"],
    "parts": [
        PRELUDE,
        dict(file=LIMIT, kind="struct", name="LimitTracker", pub_fields=True),
        dict(file=LIMIT, kind="fn", name="new", container="LimitTracker", container_name="LimitTracker", wrap="impl LimitTracker",
             clauses=[("ensures", "new", "r.current == 0 && r.high == 0 && r.limit == limit")], props=["C04", "C01"]),
        dict(file=LIMIT, kind="fn", name="check_and_increment", container="LimitTracker", container_name="LimitTracker", wrap="impl LimitTracker",
             ret="reached",
             clauses=[
                 ("requires", "no_overflow", "old(self).current < usize::MAX"),
                 ("ensures", "limit_unchanged", "final(self).limit == old(self).limit"),
                 ("ensures", "reached_iff_exceeds", "reached <==> old(self).current + 1 > old(self).limit"),
                 ("ensures", "reached_keeps_current", "reached ==> final(self).current == old(self).current"),
                 ("ensures", "not_reached_increments", "!reached ==> final(self).current == old(self).current + 1"),
                 ("ensures", "high_water", "final(self).high == (if old(self).current + 1 > old(self).high { (old(self).current + 1) as usize } else { old(self).high })"),
             ], props=["C04", "C01"]),
        dict(file=LIMIT, kind="fn", name="decrement", container="LimitTracker", container_name="LimitTracker", wrap="impl LimitTracker",
             clauses=[
                 ("requires", "balanced", "old(self).current > 0"),
                 ("ensures", "decrement", "final(self).current == old(self).current - 1 && final(self).high == old(self).high && final(self).limit == old(self).limit"),
             ], props=["C04", "C01"]),
        dict(file=LEXER, kind="struct", name="Lexer", pub_fields=True),
        LEXER_SPEC,
        dict(file=LEXER, kind="fn", name="next", container=r"Iterator for Lexer<'a>", container_name="Lexer", wrap="impl<'a> Lexer<'a>",
             rewrites=[("Option<Self::Item>", "Option<Result<Token<'a>, Error>>", 1)],
             clauses=[
                 ("requires", "wf", "old(self).wf()"),
                 ("requires", "no_overflow", "old(self).limit_tracker.current < usize::MAX"),
                 ("ensures", "wf", "final(self).wf()"),
                 ("ensures", "limit_unchanged", "final(self).limit_tracker.limit == old(self).limit_tracker.limit"),
                 ("ensures", "finished_is_final", "old(self).finished ==> r is None && *final(self) == *old(self)"),
                 ("ensures", "some_until_finished", "!old(self).finished ==> r is Some"),
                 ("ensures", "limit_item_iff_limit_exhausted", "Self::is_limit_item(r) <==> (!old(self).finished && old(self).limit_tracker.current == old(self).limit_tracker.limit)"),
                 ("ensures", "limit_item_finishes", "Self::is_limit_item(r) ==> final(self).finished && final(self).cursor.calls@ == old(self).cursor.calls@"),
                 ("ensures", "at_most_limit_advances", "final(self).cursor.calls@ <= final(self).limit_tracker.limit"),
                 ("ensures", "one_advance_per_item", "(r is Some && !Self::is_limit_item(r)) ==> final(self).cursor.calls@ == old(self).cursor.calls@ + 1"),
                 ("ensures", "eof_finishes", "(r is Some && r->0 is Ok && r->0->Ok_0.kind == TokenKind::Eof) ==> final(self).finished"),
                 ("ensures", "only_eof_or_limit_finishes", "(final(self).finished && !old(self).finished) ==> (Self::is_limit_item(r) || (r is Some && r->0 is Ok && r->0->Ok_0.kind == TokenKind::Eof))"),
             ], props=["C04"]),
        LEMMAS,
    ],
}
