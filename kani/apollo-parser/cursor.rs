//! @target crates/apollo-parser/src/lexer/cursor.rs
//! @crate apollo-parser
//! Kani harness tying the GHOST MODEL of the cursor primitives (used as trusted shims by the Verus unit `lexer`) to the real code:
//! bounded -- a few concrete source strings (ASCII and multi-byte), every sequence of up to 4 primitive calls.
use super::*;

struct Model { chars: [char; 3], len: usize, start: usize, read: usize, pending: bool, index_ok: bool }
impl Model {
    fn byte_off(&self, k: usize) -> usize { let mut i = 0; let mut b = 0; while i < k { b += self.chars[i].len_utf8(); i += 1; } b }
}

fn source(sel: u8) -> (&'static str, [char; 3], usize) {
    match sel {
        0 => ("", ['x', 'x', 'x'], 0),
        1 => ("a", ['a', 'x', 'x'], 1),
        2 => ("é", ['é', 'x', 'x'], 1),
        3 => ("a\"", ['a', '"', 'x'], 2),
        4 => ("éa", ['é', 'a', 'x'], 2),
        5 => ("aé\"", ['a', 'é', '"'], 3),
        _ => ("\"a🚀", ['"', 'a', '🚀'], 3),
    }
}

fn text_matches(s: &str, m: &Model, from: usize, to: usize) -> bool {
    // s == chars[from..to] (compared through byte offsets of the same source)
    s.len() == m.byte_off(to) - m.byte_off(from)
}

fn step(c: &mut Cursor<'static>, m: &mut Model, src: &'static str) {
    let op: u8 = kani::any();
    kani::assume(op < 6);
    match op {
        0 => {
            let got = c.bump();
            if m.pending {
                assert!(got == Some(m.chars[m.read - 1]));
                m.pending = false;
            } else if m.read < m.len {
                assert!(got == Some(m.chars[m.read]));
                m.read += 1;
                assert!(c.offset == m.byte_off(m.read - 1)); // `offset` = byte position of the char just read
            } else {
                assert!(got.is_none());
            }
        }
        1 => {
            if !m.pending {
                let want: char = if kani::any() { 'a' } else { '"' };
                let got = c.eatc(want);
                if m.read < m.len {
                    assert!(got == (m.chars[m.read] == want));
                    m.read += 1;
                    m.pending = !got;
                } else {
                    assert!(!got);
                }
            }
        }
        2 => if m.index_ok && (m.read < m.len || m.len >= 1) {
            // preconditions in the Verus shim: `index` is valid, and at the end of the input the source is non-empty (`source.len() - 1`)
            let s = c.current_str();
            assert!(text_matches(s, m, m.start, m.read));
            assert!(s.as_ptr() as usize == src.as_ptr() as usize + m.byte_off(m.start));
            if m.read < m.len { m.start = m.read; m.read += 1; m.pending = true; } else { m.start = m.read; m.pending = false; m.index_ok = false; }
        }
        3 => {
            if m.index_ok && m.read >= 1 && m.start <= m.read - 1 {
                let s = c.prev_str();
                assert!(text_matches(s, m, m.start, m.read - 1));
                assert!(s.as_ptr() as usize == src.as_ptr() as usize + m.byte_off(m.start));
                m.start = m.read - 1;
                m.pending = true;
            }
        }
        4 => if m.index_ok && m.len >= 1 && m.read == m.len {
            let s = c.drain();
            assert!(text_matches(s, m, m.start, m.len));
            assert!(s.as_ptr() as usize == src.as_ptr() as usize + m.byte_off(m.start));
            m.start = m.len; m.pending = false; m.index_ok = false;
        }
        _ => {
            assert!(c.is_pending() == m.pending);
        }
    }
    assert!(c.is_pending() == m.pending);
}

/// Cursor primitives agree with the ghost model used by the Verus lexer unit.
// @verif prop=C03 class=bounded bound="7 fixed source strings (ASCII, 2-byte, 4-byte chars, quotes), every sequence of 4 calls among bump / eatc / current_str / prev_str / drain / is_pending" targets="Cursor::bump,Cursor::eatc,Cursor::current_str,Cursor::prev_str,Cursor::drain,Cursor::is_pending,Cursor::new" timeout=900
#[kani::proof]
#[kani::unwind(6)]
fn c03_cursor_primitives_match_model() {
    let sel: u8 = kani::any();
    kani::assume(sel < 7);
    let (src, chars, len) = source(sel);
    let mut c = Cursor::new(src);
    let mut m = Model { chars, len, start: 0, read: 0, pending: false, index_ok: true };
    step(&mut c, &mut m, src);
    step(&mut c, &mut m, src);
    step(&mut c, &mut m, src);
    step(&mut c, &mut m, src);
    kani::cover!(m.pending && m.read == 3);
    kani::cover!(sel == 6 && m.start == 2);
}
