//! @target crates/apollo-parser/src/lexer/mod.rs
//! @crate apollo-parser
//! Kani harnesses on the lexer's character classification, over ALL `char` values, loop-free.
//! Oracle: the October 2021 lexical grammar tables, written out here.
use super::*;

fn spec_punctuator(c: char) -> Option<TokenKind> {
    // Punctuator :: one of  ! $ & ( ) ... : = @ [ ] { | }     (`...` is multi-char: SpreadOperator state)
    // plus Comma, which the spec lists under Ignored and this lexer emits as its own token kind.
    match c {
        '!' => Some(TokenKind::Bang),
        '$' => Some(TokenKind::Dollar),
        '&' => Some(TokenKind::Amp),
        '(' => Some(TokenKind::LParen),
        ')' => Some(TokenKind::RParen),
        ':' => Some(TokenKind::Colon),
        '=' => Some(TokenKind::Eq),
        '@' => Some(TokenKind::At),
        '[' => Some(TokenKind::LBracket),
        ']' => Some(TokenKind::RBracket),
        '{' => Some(TokenKind::LCurly),
        '|' => Some(TokenKind::Pipe),
        '}' => Some(TokenKind::RCurly),
        ',' => Some(TokenKind::Comma),
        _ => None,
    }
}

/// C03 kernel: punctuation_kind(c) is exactly the spec's single-character Punctuator table (+ Comma), for every char.
// @verif prop=C03 class=complete bound="none: all char values" targets="lookup::punctuation_kind,lookup::punctuation_lut"
#[kani::proof]
fn c03_punctuation_kind_all_chars() {
    let c: char = kani::any();
    assert!(lookup::punctuation_kind(c) == spec_punctuator(c));
    kani::cover!(c == '|');
    kani::cover!(c as u32 > 0xFFFF);
}

/// C03 kernel: NameStart = Letter | `_`, NameContinue = Letter | Digit | `_`, for every char.
// @verif prop=C03 class=complete bound="none: all char values" targets="lookup::is_namestart,lookup::namestart_lut,is_name_continue"
#[kani::proof]
fn c03_name_classes_all_chars() {
    let c: char = kani::any();
    let letter = ('a'..='z').contains(&c) || ('A'..='Z').contains(&c);
    let digit = ('0'..='9').contains(&c);
    assert!(lookup::is_namestart(c) == (letter || c == '_'));
    assert!(is_name_continue(c) == (letter || digit || c == '_'));
    kani::cover!(c == '_');
    kani::cover!(c == 'é');
}

/// C03 kernel: whitespace-assimilated = WhiteSpace (TAB, SP) | LineTerminator chars (LF, CR) | UnicodeBOM;
/// line terminator chars = LF | CR; EscapedCharacter = one of " \ / b f n r t -- for every char.
// @verif prop=C03 class=complete bound="none: all char values" targets="is_whitespace_assimilated,is_line_terminator,is_escaped_char"
#[kani::proof]
fn c03_whitespace_escape_classes_all_chars() {
    let c: char = kani::any();
    let u = c as u32;
    assert!(is_whitespace_assimilated(c) == (u == 0x9 || u == 0x20 || u == 0xA || u == 0xD || u == 0xFEFF));
    assert!(is_line_terminator(c) == (u == 0xA || u == 0xD));
    assert!(is_escaped_char(c) == (c == '"' || c == '\\' || c == '/' || c == 'b' || c == 'f' || c == 'n' || c == 'r' || c == 't'));
    // the classes the Start state dispatches on are pairwise disjoint, so dispatch order cannot matter
    let classes = [spec_punctuator(c).is_some(), lookup::is_namestart(c), c.is_ascii_digit(), c == '"', c == '#', c == '.', c == '-', is_whitespace_assimilated(c)];
    let mut n = 0;
    let mut i = 0;
    while i < 8 { if classes[i] { n += 1; } i += 1; }
    assert!(n <= 1);
    kani::cover!(u == 0xFEFF);
    kani::cover!(u == 0x0C); // form feed is not whitespace
}
