//! @target crates/apollo-compiler/src/name.rs
//! @crate apollo-compiler
//! Kani harnesses on the real `Name` (unsafe pointer/refcount code). Child module of `name`.
use super::*;
use std::sync::Arc;

/// C30 representation invariant (bounded history): strong count of the backing Arc<str> ==
/// 1 + number of live heap names made from it, after every step of a nondeterministic history of
/// create-from-arc / clone / drop / to_cloned_arc / as_str / as_static_str / Arc::from(name) over a
/// pool of 3 slots; CBMC pointer checks (use after free, double free, out of bounds) are on.
// @verif prop=C30 class=bounded bound="6 nondeterministic steps over a pool of 3 names sharing one Arc<str>" targets="Name::from_arc_unchecked,Name::clone,Name::drop,Name::as_arc,Name::to_cloned_arc,Name::as_str,Name::as_static_str,From<Name> for Arc<str>" timeout=600
#[kani::proof]
#[kani::unwind(7)]
fn c30_name_history_nondet_6() {
    name_history::<6>();
}

/// Same history with 8 steps (thorough tier).
// @verif prop=C30 class=bounded tier=thorough bound="8 nondeterministic steps over a pool of 3 names sharing one Arc<str>" targets="Name::from_arc_unchecked,Name::clone,Name::drop,Name::as_arc,Name::to_cloned_arc,Name::as_str,From<Name> for Arc<str>" timeout=1800
#[kani::proof]
#[kani::unwind(9)]
fn c30_name_history_nondet_8() {
    name_history::<8>();
}

fn name_history<const STEPS: usize>() {
    let base: Arc<str> = Arc::from("ab");
    let mut p0: Option<Name> = None;
    let mut p1: Option<Name> = None;
    let mut p2: Option<Name> = None;
    let mut step = 0;
    while step < STEPS {
        step += 1;
        let op: u8 = kani::any();
        let i: u8 = kani::any();
        kani::assume(i < 3 && op < 6);
        let slot = match i { 0 => &mut p0, 1 => &mut p1, _ => &mut p2 };
        match op {
            0 => {
                if slot.is_none() {
                    *slot = Some(Name::from_arc_unchecked(base.clone()));
                }
            }
            1 => {
                // clone slot i into the next slot (dropping what was there)
                let cloned = slot.as_ref().map(|n| n.clone());
                let dst = match i { 0 => &mut p1, 1 => &mut p2, _ => &mut p0 };
                *dst = cloned;
            }
            2 => {
                *slot = None; // drop
            }
            3 => {
                if let Some(n) = slot.as_ref() {
                    let before = Arc::strong_count(&base);
                    let arc = n.to_cloned_arc();
                    assert!(arc.is_some());
                    assert!(Arc::strong_count(&base) == before + 1);
                    assert!(Arc::ptr_eq(arc.as_ref().unwrap(), &base));
                    drop(arc);
                    assert!(Arc::strong_count(&base) == before);
                }
            }
            4 => {
                if let Some(n) = slot.as_ref() {
                    assert!(n.as_str().len() == 2);
                    assert!(n.as_str().as_bytes()[0] == b'a' && n.as_str().as_bytes()[1] == b'b');
                    assert!(n.as_static_str().is_none());
                }
            }
            _ => {
                if let Some(n) = slot.take() {
                    let before = Arc::strong_count(&base);
                    let arc: Arc<str> = n.into();
                    assert!(Arc::ptr_eq(&arc, &base));
                    assert!(Arc::strong_count(&base) == before); // name's ref became the arc's ref
                    drop(arc);
                    assert!(Arc::strong_count(&base) == before - 1);
                }
            }
        }
        let live = p0.is_some() as usize + p1.is_some() as usize + p2.is_some() as usize;
        assert!(Arc::strong_count(&base) == 1 + live);
    }
    drop(p0);
    drop(p1);
    drop(p2);
    assert!(Arc::strong_count(&base) == 1); // nothing leaked, nothing freed twice
}

/// C30 (complete, loop-free): static names never touch a reference count; clone and drop are no-ops
/// on memory; `as_static_str` is Some exactly when `to_cloned_arc` is None; text reads back.
// @verif prop=C30 class=complete bound="none: fixed static text, all paths" targets="Name::new_static_unchecked,Name::clone,Name::drop,Name::as_static_str,Name::to_cloned_arc,From<Name> for Arc<str>"
#[kani::proof]
fn c30_static_name_no_refcount() {
    static TEXT: &str = "Query";
    let a = Name::new_static_unchecked(TEXT);
    let b = a.clone();
    assert!(a.as_static_str().is_some() && a.to_cloned_arc().is_none());
    assert!(b.as_static_str().is_some() && b.to_cloned_arc().is_none());
    assert!(a.as_str().as_ptr() == TEXT.as_ptr() && a.len() == 5);
    assert!(b.as_str().as_ptr() == TEXT.as_ptr());
    drop(a);
    // the clone is still readable after the original is dropped
    assert!(b.as_str().as_bytes()[0] == b'Q' && b.as_str().as_bytes()[4] == b'y');
    let arc: Arc<str> = b.into(); // copies the static text into a fresh Arc
    assert!(Arc::strong_count(&arc) == 1 && arc.len() == 5);
}

/// C30 (complete over heap/static x as_static_str/to_cloned_arc): exactly one of the two accessors is Some.
// @verif prop=C30 class=complete bound="none: both representations" targets="Name::as_static_str,Name::to_cloned_arc"
#[kani::proof]
fn c30_static_xor_arc() {
    let heap: bool = kani::any();
    let n = if heap { Name::from_arc_unchecked(Arc::from("x")) } else { Name::new_static_unchecked("x") };
    assert!(n.as_static_str().is_some() != n.to_cloned_arc().is_some());
    assert!(n.as_static_str().is_some() == !heap);
    kani::cover!(heap);
    kani::cover!(!heap);
}

struct ByteSum(u64);
impl std::hash::Hasher for ByteSum {
    fn finish(&self) -> u64 { self.0 }
    fn write(&mut self, bytes: &[u8]) {
        let mut i = 0;
        while i < bytes.len() { self.0 = self.0.wrapping_mul(31).wrapping_add(bytes[i] as u64); i += 1; }
    }
}

/// C10 (bounded by text length): Name::new / TryFrom<&str> / new_static accept a 0..=3-byte ASCII string
/// iff is_valid_syntax says so (Verus proves is_valid_syntax == the Name grammar for every length),
/// and the accepted name reads back exactly the bytes supplied, with no location.
// @verif prop=C10 class=bounded bound="ASCII strings of length 0..=3 (the functions are `if check {copy}` wrappers; the bound limits only the copied text)" targets="Name::new,Name::new_static,Name::check_valid_syntax,Name::new_unchecked,TryFrom<&str> for Name,TryFrom<Arc<str>> for Name" timeout=600
#[kani::proof]
#[kani::unwind(5)]
fn c10_name_ctor_ok_iff_valid_len_le3() {
    let bytes: [u8; 3] = kani::any();
    kani::assume(bytes[0] < 0x80 && bytes[1] < 0x80 && bytes[2] < 0x80);
    let len: usize = kani::any();
    kani::assume(len <= 3);
    let s = std::str::from_utf8(&bytes[..len]).unwrap();
    let valid = Name::is_valid_syntax(s);
    let which: u8 = kani::any();
    kani::assume(which < 3);
    let r = match which {
        0 => Name::new(s),
        1 => Name::try_from(s),
        _ => Name::try_from(Arc::<str>::from(s)),
    };
    assert!(r.is_ok() == valid);
    if let Ok(n) = &r {
        assert!(n.len() == len);
        assert!(n.as_str().as_bytes() == &bytes[..len]);
        assert!(n.location().is_none());
    }
    kani::cover!(valid && len == 3);
    kani::cover!(!valid && len == 3);
    kani::cover!(!valid && len == 0);
}

/// C30 / C11: equality and hashing ignore locations (a located name equals and hashes like the bare one),
/// and compare text otherwise.
// @verif prop=C30 class=bounded bound="left name fixed \"ab\" (heap), right name one of {ab, ac, b} heap or static; any location offset" targets="PartialEq for Name,Hash for Name,Name::with_location" timeout=300
#[kani::proof]
#[kani::unwind(4)]
fn c30_name_eq_hash_ignore_location() {
    use std::hash::{Hash, Hasher};
    let a = Name::new_unchecked("ab");
    let sel: u8 = kani::any();
    kani::assume(sel < 4);
    let b = match sel {
        0 => Name::new_unchecked("ab"),
        1 => Name::new_static_unchecked("ab"),
        2 => Name::new_unchecked("ac"),
        _ => Name::new_static_unchecked("b"),
    };
    let start: u32 = kani::any();
    kani::assume(start < u32::MAX - 2);
    let span = SourceSpan { file_id: FileId::BUILT_IN, text_range: TextRange::at(start.into(), 2.into()) };
    let a_loc = a.clone().with_location(span);
    assert!(a_loc == a);
    assert!((a_loc == b) == (sel < 2));
    assert!((a == b) == (sel < 2));
    let (mut h1, mut h2, mut h3) = (ByteSum(7), ByteSum(7), ByteSum(7));
    a.hash(&mut h1);
    a_loc.hash(&mut h2);
    b.hash(&mut h3);
    assert!(h1.finish() == h2.finish());
    if sel < 2 { assert!(h1.finish() == h3.finish()); }
    assert!(a_loc.location() == Some(span) && a.location().is_none());
    kani::cover!(sel == 1);
    kani::cover!(sel == 3);
}
