//! @target crates/apollo-compiler/src/ast/impls.rs
//! @crate apollo-compiler
//! Kani harnesses: IntValue / FloatValue syntax checks (used by serde deserialization and new_parsed)
//! against an executable transcription of the October 2021 numeric grammar. One harness per length.
use super::*;

fn digit(b: u8) -> bool { b >= b'0' && b <= b'9' }

/// IntegerPart :: NegativeSign? 0 | NegativeSign? NonZeroDigit Digit*   -- returns the end index or None
fn spec_integer_part(s: &[u8]) -> Option<usize> {
    let mut i = 0;
    if i < s.len() && s[i] == b'-' { i += 1; }
    if i >= s.len() { return None; }
    if s[i] == b'0' { return Some(i + 1); }
    if !(s[i] >= b'1' && s[i] <= b'9') { return None; }
    i += 1;
    while i < s.len() && digit(s[i]) { i += 1; }
    Some(i)
}
/// Digit+ starting at i -- returns the end index or None
fn spec_digits1(s: &[u8], mut i: usize) -> Option<usize> {
    if i >= s.len() || !digit(s[i]) { return None; }
    while i < s.len() && digit(s[i]) { i += 1; }
    Some(i)
}
/// IntValue :: IntegerPart   (whole string)
fn spec_int_value(s: &[u8]) -> bool { spec_integer_part(s) == Some(s.len()) }
/// FloatValue :: IntegerPart FractionalPart ExponentPart | IntegerPart FractionalPart | IntegerPart ExponentPart
fn spec_float_value(s: &[u8]) -> bool {
    let Some(mut i) = spec_integer_part(s) else { return false };
    let mut has_fraction = false;
    let mut has_exponent = false;
    if i < s.len() && s[i] == b'.' {
        let Some(j) = spec_digits1(s, i + 1) else { return false };
        i = j;
        has_fraction = true;
    }
    if i < s.len() && (s[i] == b'e' || s[i] == b'E') {
        let mut j = i + 1;
        if j < s.len() && (s[j] == b'+' || s[j] == b'-') { j += 1; }
        let Some(k) = spec_digits1(s, j) else { return false };
        i = k;
        has_exponent = true;
    }
    i == s.len() && (has_fraction || has_exponent)
}

fn any_ascii<const N: usize>() -> [u8; N] {
    let bytes: [u8; N] = kani::any();
    let mut i = 0;
    while i < N { kani::assume(bytes[i] < 0x80); i += 1; }
    bytes
}

fn int_case<const N: usize>() {
    let bytes = any_ascii::<N>();
    let text = std::str::from_utf8(&bytes).unwrap();
    assert!(IntValue::valid_syntax(text) == spec_int_value(&bytes));
}
fn float_case<const N: usize>() {
    let bytes = any_ascii::<N>();
    let text = std::str::from_utf8(&bytes).unwrap();
    assert!(FloatValue::valid_syntax(text) == spec_float_value(&bytes));
}

// @verif prop=C10 class=bounded bound="all ASCII strings of length 0,1,2,3" targets="IntValue::valid_syntax" timeout=300
#[kani::proof]
#[kani::unwind(6)]
fn c10_int_syntax_len0_3() { int_case::<0>(); int_case::<1>(); int_case::<2>(); int_case::<3>(); }

// @verif prop=C10 class=bounded tier=thorough bound="all ASCII strings of length 4,5" targets="IntValue::valid_syntax" timeout=1500
#[kani::proof]
#[kani::unwind(8)]
fn c10_int_syntax_len4_5() { int_case::<4>(); int_case::<5>(); }

// @verif prop=C10 class=bounded bound="the empty string" targets="FloatValue::valid_syntax,FloatValue::valid_fractional_syntax,IntValue::valid_syntax" timeout=600
#[kani::proof]
#[kani::unwind(6)]
fn c10_float_syntax_len0() { float_case::<0>(); }

// @verif prop=C10 class=bounded bound="all ASCII strings of length 1" targets="FloatValue::valid_syntax,FloatValue::valid_fractional_syntax,IntValue::valid_syntax" timeout=600
#[kani::proof]
#[kani::unwind(6)]
fn c10_float_syntax_len1() { float_case::<1>(); }

// @verif prop=C10 class=bounded bound="all ASCII strings of length 2" targets="FloatValue::valid_syntax,FloatValue::valid_fractional_syntax,IntValue::valid_syntax" timeout=600
#[kani::proof]
#[kani::unwind(6)]
fn c10_float_syntax_len2() { float_case::<2>(); }

// @verif prop=C10 class=bounded bound="all ASCII strings of length 3" targets="FloatValue::valid_syntax,FloatValue::valid_fractional_syntax,IntValue::valid_syntax" timeout=900
#[kani::proof]
#[kani::unwind(6)]
fn c10_float_syntax_len3() { float_case::<3>(); }

// @verif prop=C10 class=bounded tier=thorough bound="all ASCII strings of length 4" targets="FloatValue::valid_syntax,FloatValue::valid_fractional_syntax,IntValue::valid_syntax" timeout=1500
#[kani::proof]
#[kani::unwind(7)]
fn c10_float_syntax_len4() { float_case::<4>(); }
