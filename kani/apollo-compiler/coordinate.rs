//! @target crates/apollo-compiler/src/coordinate.rs
//! @crate apollo-compiler
//! Kani harnesses: schema coordinate parsing against an executable transcription of the five forms
//!   Name | Name.Name | Name.Name(Name:) | @Name | @Name(Name:)
//! written as a left-to-right scanner (independent of the split_once-based implementation).
use super::*;
use std::str::FromStr;

fn name_start(b: u8) -> bool { b == b'_' || (b >= b'a' && b <= b'z') || (b >= b'A' && b <= b'Z') }
fn name_cont(b: u8) -> bool { name_start(b) || (b >= b'0' && b <= b'9') }

/// scan a maximal Name at i; returns its end or None
fn scan_name(s: &[u8], i: usize) -> Option<usize> {
    if i >= s.len() || !name_start(s[i]) { return None; }
    let mut j = i + 1;
    while j < s.len() && name_cont(s[j]) { j += 1; }
    Some(j)
}
fn expect(s: &[u8], i: usize, b: u8) -> Option<usize> {
    if i < s.len() && s[i] == b { Some(i + 1) } else { None }
}

#[derive(PartialEq, Eq, Clone, Copy)]
enum Form { Type, TypeAttribute, FieldArgument, Directive, DirectiveArgument }

/// The specification: which form (if any) the whole string has, with the component ranges.
fn spec_form(s: &[u8]) -> Option<(Form, [(usize, usize); 3])> {
    let z = (0, 0);
    if let Some(i0) = expect(s, 0, b'@') {
        let a = scan_name(s, i0)?;
        if a == s.len() { return Some((Form::Directive, [(i0, a), z, z])); }
        let i1 = expect(s, a, b'(')?;
        let b = scan_name(s, i1)?;
        let i2 = expect(s, b, b':')?;
        let i3 = expect(s, i2, b')')?;
        if i3 == s.len() { Some((Form::DirectiveArgument, [(i0, a), (i1, b), z])) } else { None }
    } else {
        let a = scan_name(s, 0)?;
        if a == s.len() { return Some((Form::Type, [(0, a), z, z])); }
        let i1 = expect(s, a, b'.')?;
        let b = scan_name(s, i1)?;
        if b == s.len() { return Some((Form::TypeAttribute, [(0, a), (i1, b), z])); }
        let i2 = expect(s, b, b'(')?;
        let c = scan_name(s, i2)?;
        let i3 = expect(s, c, b':')?;
        let i4 = expect(s, i3, b')')?;
        if i4 == s.len() { Some((Form::FieldArgument, [(0, a), (i1, b), (i2, c)])) } else { None }
    }
}

/// One representative per byte class of the coordinate syntax (letter, digit, `_`, each separator, other).
fn any_coord_bytes<const N: usize>() -> [u8; N] {
    let bytes: [u8; N] = kani::any();
    let mut i = 0;
    while i < N {
        let b = bytes[i];
        kani::assume(b == b'a' || b == b'Z' || b == b'7' || b == b'_' || b == b'.' || b == b'(' || b == b')' || b == b':' || b == b'@' || b == b'-' || b == b' ');
        i += 1;
    }
    bytes
}

fn sub<'a>(s: &'a [u8], r: (usize, usize)) -> &'a [u8] { &s[r.0..r.1] }

fn setup<const N: usize>() -> ([u8; N], Option<Form>, [(usize, usize); 3]) {
    let bytes = any_coord_bytes::<N>();
    let spec = spec_form(&bytes);
    (bytes, spec.map(|x| x.0), spec.map(|x| x.1).unwrap_or([(0, 0); 3]))
}

fn check_type<const N: usize>() {
    let (bytes, form, r) = setup::<N>();
    let text = std::str::from_utf8(&bytes).unwrap();
    let t = TypeCoordinate::from_str(text);
    assert!(t.is_ok() == (form == Some(Form::Type)));
    if let Ok(c) = &t { assert!(c.ty.as_str().as_bytes() == sub(&bytes, r[0])); }
}
fn check_type_attribute<const N: usize>() {
    let (bytes, form, r) = setup::<N>();
    let text = std::str::from_utf8(&bytes).unwrap();
    let ta = TypeAttributeCoordinate::from_str(text);
    assert!(ta.is_ok() == (form == Some(Form::TypeAttribute)));
    if let Ok(c) = &ta {
        assert!(c.ty.as_str().as_bytes() == sub(&bytes, r[0]) && c.attribute.as_str().as_bytes() == sub(&bytes, r[1]));
    }
}
fn check_field_argument<const N: usize>() {
    let (bytes, form, r) = setup::<N>();
    let text = std::str::from_utf8(&bytes).unwrap();
    let fa = FieldArgumentCoordinate::from_str(text);
    assert!(fa.is_ok() == (form == Some(Form::FieldArgument)));
    if let Ok(c) = &fa {
        assert!(c.ty.as_str().as_bytes() == sub(&bytes, r[0]) && c.field.as_str().as_bytes() == sub(&bytes, r[1])
            && c.argument.as_str().as_bytes() == sub(&bytes, r[2]));
    }
}
fn check_directive<const N: usize>() {
    let (bytes, form, r) = setup::<N>();
    let text = std::str::from_utf8(&bytes).unwrap();
    let d = DirectiveCoordinate::from_str(text);
    assert!(d.is_ok() == (form == Some(Form::Directive)));
    if let Ok(c) = &d { assert!(c.directive.as_str().as_bytes() == sub(&bytes, r[0])); }
}
fn check_directive_argument<const N: usize>() {
    let (bytes, form, r) = setup::<N>();
    let text = std::str::from_utf8(&bytes).unwrap();
    let da = DirectiveArgumentCoordinate::from_str(text);
    assert!(da.is_ok() == (form == Some(Form::DirectiveArgument)));
    if let Ok(c) = &da {
        assert!(c.directive.as_str().as_bytes() == sub(&bytes, r[0]) && c.argument.as_str().as_bytes() == sub(&bytes, r[1]));
    }
}
fn check_schema_coordinate<const N: usize>() {
    let (bytes, form, _r) = setup::<N>();
    let text = std::str::from_utf8(&bytes).unwrap();
    let any = SchemaCoordinate::from_str(text);
    assert!(any.is_ok() == form.is_some());
    if let Ok(c) = &any {
        let got = match c {
            SchemaCoordinate::Type(_) => Form::Type,
            SchemaCoordinate::TypeAttribute(_) => Form::TypeAttribute,
            SchemaCoordinate::FieldArgument(_) => Form::FieldArgument,
            SchemaCoordinate::Directive(_) => Form::Directive,
            SchemaCoordinate::DirectiveArgument(_) => Form::DirectiveArgument,
        };
        assert!(Some(got) == form);
    }
}

// @verif prop=C23 class=bounded tier=quick bound="all strings of length 0 over the 11-byte class alphabet {a Z 7 _ . ( ) : @ - SP}" targets="TypeCoordinate::from_str" timeout=600
#[kani::proof]
#[kani::unwind(3)]
fn c23_type_len0() { check_type::<0>(); }

// @verif prop=C23 class=bounded tier=quick bound="all strings of length 1 over the 11-byte class alphabet {a Z 7 _ . ( ) : @ - SP}" targets="TypeCoordinate::from_str" timeout=600
#[kani::proof]
#[kani::unwind(4)]
fn c23_type_len1() { check_type::<1>(); }

// @verif prop=C23 class=bounded tier=quick bound="all strings of length 2 over the 11-byte class alphabet {a Z 7 _ . ( ) : @ - SP}" targets="TypeCoordinate::from_str" timeout=600
#[kani::proof]
#[kani::unwind(5)]
fn c23_type_len2() { check_type::<2>(); }

// @verif prop=C23 class=bounded tier=quick bound="all strings of length 3 over the 11-byte class alphabet {a Z 7 _ . ( ) : @ - SP}" targets="TypeCoordinate::from_str" timeout=600
#[kani::proof]
#[kani::unwind(6)]
fn c23_type_len3() { check_type::<3>(); }

// @verif prop=C23 class=bounded tier=thorough bound="all strings of length 4 over the 11-byte class alphabet {a Z 7 _ . ( ) : @ - SP}" targets="TypeCoordinate::from_str" timeout=1500
#[kani::proof]
#[kani::unwind(7)]
fn c23_type_len4() { check_type::<4>(); }

// @verif prop=C23 class=bounded tier=thorough bound="all strings of length 5 over the 11-byte class alphabet {a Z 7 _ . ( ) : @ - SP}" targets="TypeCoordinate::from_str" timeout=1500
#[kani::proof]
#[kani::unwind(8)]
fn c23_type_len5() { check_type::<5>(); }

// @verif prop=C23 class=bounded tier=quick bound="all strings of length 0 over the 11-byte class alphabet {a Z 7 _ . ( ) : @ - SP}" targets="TypeAttributeCoordinate::from_str" timeout=600
#[kani::proof]
#[kani::unwind(3)]
fn c23_type_attribute_len0() { check_type_attribute::<0>(); }

// @verif prop=C23 class=bounded tier=quick bound="all strings of length 1 over the 11-byte class alphabet {a Z 7 _ . ( ) : @ - SP}" targets="TypeAttributeCoordinate::from_str" timeout=600
#[kani::proof]
#[kani::unwind(4)]
fn c23_type_attribute_len1() { check_type_attribute::<1>(); }

// @verif prop=C23 class=bounded tier=quick bound="all strings of length 2 over the 11-byte class alphabet {a Z 7 _ . ( ) : @ - SP}" targets="TypeAttributeCoordinate::from_str" timeout=600
#[kani::proof]
#[kani::unwind(5)]
fn c23_type_attribute_len2() { check_type_attribute::<2>(); }

// @verif prop=C23 class=bounded tier=thorough bound="all strings of length 3 over the 11-byte class alphabet {a Z 7 _ . ( ) : @ - SP}" targets="TypeAttributeCoordinate::from_str" timeout=1500
#[kani::proof]
#[kani::unwind(6)]
fn c23_type_attribute_len3() { check_type_attribute::<3>(); }

// @verif prop=C23 class=bounded tier=thorough bound="all strings of length 4 over the 11-byte class alphabet {a Z 7 _ . ( ) : @ - SP}" targets="TypeAttributeCoordinate::from_str" timeout=1500
#[kani::proof]
#[kani::unwind(7)]
fn c23_type_attribute_len4() { check_type_attribute::<4>(); }

// @verif prop=C23 class=bounded tier=thorough bound="all strings of length 0 over the 11-byte class alphabet {a Z 7 _ . ( ) : @ - SP}" targets="FieldArgumentCoordinate::from_str" timeout=1500
#[kani::proof]
#[kani::unwind(3)]
fn c23_field_argument_len0() { check_field_argument::<0>(); }

// @verif prop=C23 class=bounded tier=thorough bound="all strings of length 1 over the 11-byte class alphabet {a Z 7 _ . ( ) : @ - SP}" targets="FieldArgumentCoordinate::from_str" timeout=1500
#[kani::proof]
#[kani::unwind(4)]
fn c23_field_argument_len1() { check_field_argument::<1>(); }

// @verif prop=C23 class=bounded tier=thorough bound="all strings of length 2 over the 11-byte class alphabet {a Z 7 _ . ( ) : @ - SP}" targets="FieldArgumentCoordinate::from_str" timeout=1500
#[kani::proof]
#[kani::unwind(5)]
fn c23_field_argument_len2() { check_field_argument::<2>(); }

// @verif prop=C23 class=bounded tier=thorough bound="all strings of length 3 over the 11-byte class alphabet {a Z 7 _ . ( ) : @ - SP}" targets="FieldArgumentCoordinate::from_str" timeout=1500
#[kani::proof]
#[kani::unwind(6)]
fn c23_field_argument_len3() { check_field_argument::<3>(); }

// @verif prop=C23 class=bounded tier=quick bound="all strings of length 0 over the 11-byte class alphabet {a Z 7 _ . ( ) : @ - SP}" targets="DirectiveCoordinate::from_str" timeout=600
#[kani::proof]
#[kani::unwind(3)]
fn c23_directive_len0() { check_directive::<0>(); }

// @verif prop=C23 class=bounded tier=quick bound="all strings of length 1 over the 11-byte class alphabet {a Z 7 _ . ( ) : @ - SP}" targets="DirectiveCoordinate::from_str" timeout=600
#[kani::proof]
#[kani::unwind(4)]
fn c23_directive_len1() { check_directive::<1>(); }

// @verif prop=C23 class=bounded tier=quick bound="all strings of length 2 over the 11-byte class alphabet {a Z 7 _ . ( ) : @ - SP}" targets="DirectiveCoordinate::from_str" timeout=600
#[kani::proof]
#[kani::unwind(5)]
fn c23_directive_len2() { check_directive::<2>(); }

// @verif prop=C23 class=bounded tier=quick bound="all strings of length 3 over the 11-byte class alphabet {a Z 7 _ . ( ) : @ - SP}" targets="DirectiveCoordinate::from_str" timeout=600
#[kani::proof]
#[kani::unwind(6)]
fn c23_directive_len3() { check_directive::<3>(); }

// @verif prop=C23 class=bounded tier=thorough bound="all strings of length 4 over the 11-byte class alphabet {a Z 7 _ . ( ) : @ - SP}" targets="DirectiveCoordinate::from_str" timeout=1500
#[kani::proof]
#[kani::unwind(7)]
fn c23_directive_len4() { check_directive::<4>(); }

// @verif prop=C23 class=bounded tier=thorough bound="all strings of length 5 over the 11-byte class alphabet {a Z 7 _ . ( ) : @ - SP}" targets="DirectiveCoordinate::from_str" timeout=1500
#[kani::proof]
#[kani::unwind(8)]
fn c23_directive_len5() { check_directive::<5>(); }

// @verif prop=C23 class=bounded tier=thorough bound="all strings of length 0 over the 11-byte class alphabet {a Z 7 _ . ( ) : @ - SP}" targets="DirectiveArgumentCoordinate::from_str" timeout=1500
#[kani::proof]
#[kani::unwind(3)]
fn c23_directive_argument_len0() { check_directive_argument::<0>(); }

// @verif prop=C23 class=bounded tier=thorough bound="all strings of length 1 over the 11-byte class alphabet {a Z 7 _ . ( ) : @ - SP}" targets="DirectiveArgumentCoordinate::from_str" timeout=1500
#[kani::proof]
#[kani::unwind(4)]
fn c23_directive_argument_len1() { check_directive_argument::<1>(); }

// @verif prop=C23 class=bounded tier=thorough bound="all strings of length 2 over the 11-byte class alphabet {a Z 7 _ . ( ) : @ - SP}" targets="DirectiveArgumentCoordinate::from_str" timeout=1500
#[kani::proof]
#[kani::unwind(5)]
fn c23_directive_argument_len2() { check_directive_argument::<2>(); }

// @verif prop=C23 class=bounded tier=thorough bound="all strings of length 3 over the 11-byte class alphabet {a Z 7 _ . ( ) : @ - SP}" targets="DirectiveArgumentCoordinate::from_str" timeout=1500
#[kani::proof]
#[kani::unwind(6)]
fn c23_directive_argument_len3() { check_directive_argument::<3>(); }

// @verif prop=C23 class=bounded tier=quick bound="all strings of length 0 over the 11-byte class alphabet {a Z 7 _ . ( ) : @ - SP}" targets="SchemaCoordinate::from_str" timeout=600
#[kani::proof]
#[kani::unwind(3)]
fn c23_schema_coordinate_len0() { check_schema_coordinate::<0>(); }

// @verif prop=C23 class=bounded tier=thorough bound="all strings of length 1 over the 11-byte class alphabet {a Z 7 _ . ( ) : @ - SP}" targets="SchemaCoordinate::from_str" timeout=1500
#[kani::proof]
#[kani::unwind(4)]
fn c23_schema_coordinate_len1() { check_schema_coordinate::<1>(); }

// @verif prop=C23 class=bounded tier=thorough bound="all strings of length 2 over the 11-byte class alphabet {a Z 7 _ . ( ) : @ - SP}" targets="SchemaCoordinate::from_str" timeout=1500
#[kani::proof]
#[kani::unwind(5)]
fn c23_schema_coordinate_len2() { check_schema_coordinate::<2>(); }

// @verif prop=C23 class=bounded tier=thorough bound="all strings of length 6 over the 11-byte class alphabet {a Z 7 _ . ( ) : @ - SP}" targets="TypeCoordinate::from_str" timeout=1800
#[kani::proof]
#[kani::unwind(9)]
fn c23_type_len6() { check_type::<6>(); }

// @verif prop=C23 class=bounded tier=thorough bound="all strings of length 7 over the 11-byte class alphabet {a Z 7 _ . ( ) : @ - SP}" targets="TypeCoordinate::from_str" timeout=1800
#[kani::proof]
#[kani::unwind(10)]
fn c23_type_len7() { check_type::<7>(); }

// @verif prop=C23 class=bounded tier=thorough bound="all strings of length 5 over the 11-byte class alphabet {a Z 7 _ . ( ) : @ - SP}" targets="TypeAttributeCoordinate::from_str" timeout=1800
#[kani::proof]
#[kani::unwind(8)]
fn c23_type_attribute_len5() { check_type_attribute::<5>(); }

// @verif prop=C23 class=bounded tier=thorough bound="all strings of length 6 over the 11-byte class alphabet {a Z 7 _ . ( ) : @ - SP}" targets="TypeAttributeCoordinate::from_str" timeout=1800
#[kani::proof]
#[kani::unwind(9)]
fn c23_type_attribute_len6() { check_type_attribute::<6>(); }

// @verif prop=C23 class=bounded tier=thorough bound="all strings of length 6 over the 11-byte class alphabet {a Z 7 _ . ( ) : @ - SP}" targets="DirectiveCoordinate::from_str" timeout=1800
#[kani::proof]
#[kani::unwind(9)]
fn c23_directive_len6() { check_directive::<6>(); }

// @verif prop=C23 class=bounded tier=thorough bound="all strings of length 7 over the 11-byte class alphabet {a Z 7 _ . ( ) : @ - SP}" targets="DirectiveCoordinate::from_str" timeout=1800
#[kani::proof]
#[kani::unwind(10)]
fn c23_directive_len7() { check_directive::<7>(); }

// @verif prop=C23 class=bounded tier=thorough bound="all strings of length 4 over the 11-byte class alphabet {a Z 7 _ . ( ) : @ - SP}" targets="FieldArgumentCoordinate::from_str" timeout=1800
#[kani::proof]
#[kani::unwind(7)]
fn c23_field_argument_len4() { check_field_argument::<4>(); }

// @verif prop=C23 class=bounded tier=thorough bound="all strings of length 5 over the 11-byte class alphabet {a Z 7 _ . ( ) : @ - SP}" targets="FieldArgumentCoordinate::from_str" timeout=1800
#[kani::proof]
#[kani::unwind(8)]
fn c23_field_argument_len5() { check_field_argument::<5>(); }

// @verif prop=C23 class=bounded tier=thorough bound="all strings of length 4 over the 11-byte class alphabet {a Z 7 _ . ( ) : @ - SP}" targets="DirectiveArgumentCoordinate::from_str" timeout=1800
#[kani::proof]
#[kani::unwind(7)]
fn c23_directive_argument_len4() { check_directive_argument::<4>(); }

// @verif prop=C23 class=bounded tier=thorough bound="all strings of length 5 over the 11-byte class alphabet {a Z 7 _ . ( ) : @ - SP}" targets="DirectiveArgumentCoordinate::from_str" timeout=1800
#[kani::proof]
#[kani::unwind(8)]
fn c23_directive_argument_len5() { check_directive_argument::<5>(); }

// @verif prop=C23 class=bounded tier=thorough bound="all strings of length 6 over the 11-byte class alphabet {a Z 7 _ . ( ) : @ - SP}" targets="DirectiveArgumentCoordinate::from_str" timeout=1800
#[kani::proof]
#[kani::unwind(9)]
fn c23_directive_argument_len6() { check_directive_argument::<6>(); }

// @verif prop=C23 class=bounded tier=thorough bound="all strings of length 7 over the 11-byte class alphabet {a Z 7 _ . ( ) : @ - SP}" targets="DirectiveArgumentCoordinate::from_str" timeout=1800
#[kani::proof]
#[kani::unwind(10)]
fn c23_directive_argument_len7() { check_directive_argument::<7>(); }

// @verif prop=C23 class=bounded tier=thorough bound="all strings of length 3 over the 11-byte class alphabet {a Z 7 _ . ( ) : @ - SP}" targets="SchemaCoordinate::from_str" timeout=1800
#[kani::proof]
#[kani::unwind(6)]
fn c23_schema_coordinate_len3() { check_schema_coordinate::<3>(); }

// @verif prop=C23 class=bounded tier=thorough bound="all strings of length 4 over the 11-byte class alphabet {a Z 7 _ . ( ) : @ - SP}" targets="SchemaCoordinate::from_str" timeout=1800
#[kani::proof]
#[kani::unwind(7)]
fn c23_schema_coordinate_len4() { check_schema_coordinate::<4>(); }
