//! @target crates/apollo-compiler/src/parser.rs
//! @crate apollo-compiler
//! Kani harnesses for crates/apollo-compiler/src/parser.rs (child module: sees private items).
//! C31: file ids and tagged file ids.
use super::*;

/// C31 (complete, loop-free): packing any identifier (bit 63 clear, non-zero) with either tag
/// and unpacking returns the same identifier and tag.
// @verif prop=C31 class=complete targets="TaggedFileId::pack,TaggedFileId::tag,TaggedFileId::file_id" bound="none: all u64 ids with bit 63 clear, both tags"
#[kani::proof]
fn c31_tagged_file_id_roundtrip() {
    let raw: u64 = kani::any();
    kani::assume(raw != 0 && raw & TAG == 0);
    let tag: bool = kani::any();
    let id = FileId { id: NonZeroU64::new(raw).unwrap() };
    let packed = TaggedFileId::pack(tag, id);
    assert!(packed.tag() == tag);
    assert!(packed.file_id() == id);
    assert!(packed.file_id().id.get() == raw);
    kani::cover!(tag && raw == ID_MASK);
    kani::cover!(!tag && raw == 1);
}

/// C31 (complete; the loop in FileId::new runs at most twice): sequential contract of FileId::new
/// from ANY counter value: result is the old counter value if bit 63 is clear, else the counter
/// is reset and INITIAL is returned; the result never has bit 63 set, is never 0, and from any
/// counter value >= INITIAL below 2^63 it is neither BUILT_IN nor NONE; the counter advances by one.
// @verif prop=C31 class=complete targets="FileId::new,FileId::reset" bound="none: all u64 counter values >= INITIAL; loop runs at most twice (unwinding assertion on)"
#[kani::proof]
#[kani::unwind(3)]
fn c31_file_id_new_sequential() {
    let start: u64 = kani::any();
    kani::assume(start >= INITIAL);
    NEXT.store(start, atomic::Ordering::SeqCst);
    let a = FileId::new();
    let after = NEXT.load(atomic::Ordering::SeqCst);
    if start & TAG == 0 {
        assert!(a.id.get() == start);
        assert!(after == start + 1);
    } else {
        assert!(a.id.get() == INITIAL);
        assert!(after == INITIAL + 1);
    }
    assert!(a.id.get() & TAG == 0);
    assert!(a != FileId::BUILT_IN && a != FileId::NONE);
    // two consecutive calls differ unless the counter wrapped in between
    let b = FileId::new();
    if after & TAG == 0 {
        assert!(b != a);
        assert!(b.id.get() == a.id.get() + 1);
    }
    assert!(b != FileId::BUILT_IN && b != FileId::NONE);
    kani::cover!(start & TAG != 0);
    kani::cover!(after & TAG != 0 && start & TAG == 0);
}

/// C31: reserved ids are distinct, below INITIAL, and INITIAL is the first id handed out.
// @verif prop=C31 class=complete targets="FileId::BUILT_IN,FileId::NONE,INITIAL,TAG,ID_MASK" bound="none: constants"
#[kani::proof]
fn c31_reserved_ids() {
    assert!(FileId::BUILT_IN.id.get() == 1);
    assert!(FileId::NONE.id.get() == 2);
    assert!(INITIAL == 3);
    assert!(TAG == 1u64 << 63 && ID_MASK == !TAG);
}

/// C11 / C30 (complete over offsets, ids, both representations): a name's location reads back exactly
/// the span supplied -- same file id, start offset, and length equal to the name's text -- for every
/// u32 start offset, every file id (bit 63 clear, != NONE); the text and the static/heap tag are untouched.
// @verif prop=C11,C30,C31 class=complete bound="none over (start offset: u32, file id: 63 bits, heap|static); name text fixed to 3 bytes" targets="Name::with_location,Name::location,TaggedFileId::pack,TaggedFileId::file_id,TaggedFileId::tag"
#[kani::proof]
fn c11_name_location_roundtrip() {
    let raw: u64 = kani::any();
    kani::assume(raw != 0 && raw & TAG == 0 && raw != FileId::NONE.id.get());
    let file_id = FileId { id: NonZeroU64::new(raw).unwrap() };
    let start: u32 = kani::any();
    kani::assume(start <= u32::MAX - 3);
    let span = SourceSpan { file_id, text_range: TextRange::at(start.into(), 3.into()) };
    let heap: bool = kani::any();
    let name = if heap { crate::Name::new_unchecked("abc") } else { crate::Name::new_static_unchecked("abc") };
    assert!(name.location().is_none());
    let located = name.with_location(span);
    let got = located.location();
    assert!(got == Some(span));
    let got = got.unwrap();
    assert!(got.file_id() == file_id && got.offset() == start as usize && got.end_offset() == start as usize + 3);
    assert!(got.end_offset() - got.offset() == located.as_str().len()); // covers exactly the name's text
    assert!(located.as_str().as_bytes() == b"abc");
    assert!(located.as_static_str().is_some() == !heap);
    kani::cover!(heap && start == u32::MAX - 3);
    kani::cover!(!heap && raw == ID_MASK);
}


/// C11 (BOUNDED stand-in; shape-independent companion of the Verus unit `linecol`): `SourceFile::get_line_column` equals a direct
/// transcription of the rule -- line = 1 + number of GraphQL LineTerminators (LF, CRLF as one, lone CR) that END at or before the
/// offset; column = 1 + number of UTF-8 leading bytes between the end of the last such terminator and the offset; None iff the
/// offset is beyond the text -- on every 3-character text over {LF, CR, 'a'} with U+00E9 (2 bytes) optionally in front or in the
/// middle, and every offset up to len + 1.
fn c11_check_line_column(b: &[u8]) {
    let len = b.len();
    // valid UTF-8 by construction
    let text = String::from(unsafe { std::str::from_utf8_unchecked(b) });
    let file = SourceFile { path: PathBuf::new(), source_text: text, source: OnceLock::new() };
    let offset: usize = kani::any();
    kani::assume(offset <= len + 1);
    let got = file.get_line_column(offset);
    if offset > len {
        assert!(got.is_none());
        return;
    }
    // a line terminator ends exactly at position i (exclusive end)
    let ends_at = |i: usize| -> bool { i >= 1 && i <= len && (b[i - 1] == b'\n' || (b[i - 1] == b'\r' && !(i < len && b[i] == b'\n'))) };
    let mut line = 1usize;
    let mut line_start = 0usize;
    let mut i = 1;
    while i <= offset {
        if ends_at(i) {
            line += 1;
            line_start = i;
        }
        i += 1;
    }
    let mut column = 1usize;
    let mut j = line_start;
    while j < offset {
        if b[j] & 0xC0 != 0x80 {
            column += 1;
        }
        j += 1;
    }
    let got = got.unwrap();
    assert!(got.line == line);
    assert!(got.column == column);
    kani::cover!(offset == len);
    kani::cover!(len >= 2 && b[len - 1] == b'\r' && offset == len);
    kani::cover!(len >= 2 && b[0] == b'\r' && offset == 1);
}
fn c11_any_ascii_class() -> u8 {
    let c: u8 = kani::any();
    kani::assume(c == b'\n' || c == b'\r' || c == b'a');
    c
}
// @verif prop=C11 class=bounded bound="all 3-character texts over {LF, CR, 'a'}; every offset 0..=len+1" targets="SourceFile::get_line_column"
#[kani::proof]
#[kani::unwind(7)]
fn c11_get_line_column_ascii_3() {
    let b = [c11_any_ascii_class(), c11_any_ascii_class(), c11_any_ascii_class()];
    c11_check_line_column(&b);
}
// @verif prop=C11 class=bounded bound="U+00E9 (2 bytes) in front of or between two characters over {LF, CR, 'a'}; every offset 0..=len+1" targets="SourceFile::get_line_column"
#[kani::proof]
#[kani::unwind(7)]
fn c11_get_line_column_multibyte() {
    let x = c11_any_ascii_class();
    let y = c11_any_ascii_class();
    if kani::any() {
        c11_check_line_column(&[0xC3, 0xA9, x, y]);
    } else {
        c11_check_line_column(&[x, 0xC3, 0xA9, y]);
    }
}
