//! @target crates/apollo-compiler/src/validation/mod.rs
//! @crate apollo-compiler
//! Kani harnesses on the recursion guards used by all recursive validators.
use super::*;

/// C21 kernel (complete over all (value, high, limit) with value < usize::MAX): DepthGuard::increment returns
/// Err iff value + 1 > limit; high becomes max(high, value + 1); dropping the returned guard restores value;
/// the limit never changes.
// @verif prop=C21 class=complete bound="none: all usize triples (value < usize::MAX)" targets="DepthCounter::guard,DepthGuard::increment,Drop for DepthGuard"
#[kani::proof]
fn c21_depth_guard_increment() {
    let value: usize = kani::any();
    let high: usize = kani::any();
    let limit: usize = kani::any();
    kani::assume(value < usize::MAX);
    let mut counter = DepthCounter { value, high, limit };
    {
        let mut guard = counter.guard();
        let is_err = {
            let r = guard.increment();
            let is_err = r.is_err();
            assert!(is_err == (value + 1 > limit));
            if let Ok(inner) = &r {
                assert!(inner.0.value == value + 1);
                assert!(inner.0.high == high.max(value + 1));
                assert!(inner.0.limit == limit);
            }
            is_err
        }; // the inner guard (if any) is dropped here
        if !is_err {
            assert!(guard.0.value == value);
        }
        assert!(guard.0.high == high.max(value + 1) && guard.0.limit == limit);
    } // the outer guard is dropped here
    assert!(counter.limit == limit && counter.high == high.max(value + 1));
    kani::cover!(value + 1 > limit);
    kani::cover!(value + 1 <= limit && value + 1 > high);
}

/// C21 kernel: nesting depth d <= limit never errors, depth limit + 1 errors, and the counter is back to 0
/// after unwinding (bounded: 3 nested levels, symbolic limit).
// @verif prop=C21 class=bounded bound="3 nested increments, any limit" targets="DepthGuard::increment,Drop for DepthGuard,DepthCounter::with_limit"
#[kani::proof]
fn c21_depth_guard_nesting_3() {
    let limit: usize = kani::any();
    let mut counter = DepthCounter::new().with_limit(limit);
    {
        let mut g0 = counter.guard();
        let r1 = g0.increment();
        assert!(r1.is_err() == (limit < 1));
        if let Ok(mut g1) = r1 {
            // (r1 moved into g1)
            let r2 = g1.increment();
            assert!(r2.is_err() == (limit < 2));
            if let Ok(mut g2) = r2 {
                let r3 = g2.increment();
                assert!(r3.is_err() == (limit < 3));
            }
        }
    }
    if limit >= 3 {
        assert!(counter.value == 0 && counter.high == 3);
    }
    kani::cover!(limit == 2);
    kani::cover!(limit >= 3);
}

