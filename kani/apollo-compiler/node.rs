//! @target crates/apollo-compiler/src/node.rs
//! @crate apollo-compiler
//! Kani harnesses on the real `Node<T>` (triomphe::Arc underneath). Child module of `node`.
use super::*;

/// C30: copy-on-write. Mutating one node through make_mut never changes its clones; make_mut on a shared
/// node un-shares it (ptr_eq false afterwards), on a unique node mutates in place; get_mut is Some iff unique;
/// the location travels with the node; equality ignores the location. CBMC pointer checks are on.
// @verif prop=C30 class=bounded bound="fixed script over 3 handles of one Node<u32>, symbolic payloads and share pattern" targets="Node::new_opt_location,Node::clone,Node::make_mut,Node::get_mut,Node::ptr_eq,Node::location,PartialEq for Node,Drop" timeout=600
#[kani::proof]
fn c30_node_copy_on_write() {
    let v0: u32 = kani::any();
    let v1: u32 = kani::any();
    let start: u32 = kani::any();
    kani::assume(start < u32::MAX - 4);
    let has_loc: bool = kani::any();
    let loc = if has_loc {
        Some(SourceSpan { file_id: FileId::BUILT_IN, text_range: rowan::TextRange::at(start.into(), 4.into()) })
    } else { None };
    let mut a = Node::new_opt_location(v0, loc);
    assert!(a.location() == loc);
    assert!(a.get_mut().is_some()); // unique
    let share: bool = kani::any();
    if share {
        let b = a.clone();
        let c = b.clone();
        assert!(a.ptr_eq(&b) && b.ptr_eq(&c));
        assert!(a.get_mut().is_none()); // shared
        *a.make_mut() = v1;
        assert!(*a == v1);
        assert!(*b == v0 && *c == v0); // clones unchanged
        assert!(!a.ptr_eq(&b) && b.ptr_eq(&c));
        assert!(a.location() == loc && b.location() == loc);
        assert!(a.get_mut().is_some()); // now unique again
        assert!((a == b) == (v0 == v1)); // equality by value
        drop(b);
        assert!(*c == v0); // still alive after one clone is dropped
    } else {
        let p_before = &*a as *const u32;
        *a.make_mut() = v1;
        assert!(&*a as *const u32 == p_before); // in place
        assert!(*a == v1 && a.location() == loc);
    }
    // equality ignores location
    let bare = Node::new(v1);
    assert!(bare == a);
    kani::cover!(share && has_loc);
    kani::cover!(!share && !has_loc);
}
