"""Which units decide which property (read by tools/check.py)."""

PROPS = {
    "C29": {
        "level": "proof",
        "verus": ["types"],
        "explanation": "Verus proves, for every Type value of any nesting, that Type::is_assignable_to == AreTypesCompatible, "
                       "is_variable_usage_allowed == IsVariableUsageAllowed (incl. null default) and "
                       "is_valid_implementation_field_type == IsValidImplementationFieldType over the relation computed by Schema::is_subtype; "
                       "bodies are re-extracted from /repo on every run.",
        "not_decided": ["Schema::is_subtype computes the spec's possible-type / declared-implementation relation (IndexMap lookups; assumed)",
                        "call sites pass the right definitions to these functions"],
    },
    "C25": {
        "level": "proof",
        "verus": ["maxdepth"],
        "explanation": "Verus proves for every selection-set tree and every (acyclic) fragment map, with no bound on size or depth, that "
                       "check_selection_set returns Err iff depth_so_far + D >= 3 and Ok(depth_so_far + D) otherwise, where D is the nesting depth of "
                       "fields/interfaces/possibleTypes/inputFields with named and inline fragments expanded; check_max_depth rejects iff D(operation) >= 3. "
                       "The memo table is covered by the invariant memo_ok (every entry equals D of that fragment's body).",
        "not_decided": ["Valid<ExecutableDocument> implies fragment acyclicity (precondition `acyclic`, guaranteed by validation, assumed)",
                        "HashMap/IndexMap get/insert behave as maps keyed by the name's text (external_body shims)",
                        "partial_execute / callers actually call check_max_depth"],
    },
    "C04": {
        "level": "proof",
        "verus": ["limits"],
        "frame": ["only_lexer_next_makes_limit_errors"],
        "explanation": "Verus proves the LimitTracker contract (reached <=> current+1 > limit; balanced current; high-water mark) and the token-limit "
                       "contract of Lexer::next: at most `limit` calls of Cursor::advance, a limit error item iff the limit is exhausted and the lexer is "
                       "not finished, after which the lexer is finished and returns None forever.",
        "not_decided": ["global 'recursion-limit error iff nesting depth exceeds r' over the whole grammar (closure combinators)",
                        "reached-figures copy in apollo_compiler::parser (generic over a parse closure)",
                        "Cursor::advance itself (external_body: one call = one lexer item, never a limit error; second half checked syntactically)"],
    },
    "C31": {
        "level": "proof",
        "kani": ["apollo-compiler/parser.rs"],
        "frame": ["file_id_counter_single_fetch_add"],
        "technique": "contract harnesses (assume/assert) on the real crate, discharged by Kani/CBMC over the full u64 domain, loop-free",
        "explanation": "Kani proves on the real crate, for all 2^63 identifiers and both tags, unpack(pack(tag,id)) == (tag,id); and the sequential contract of "
                       "FileId::new from every counter value (returns the old counter, advances it by one, never BUILT_IN/NONE/0, bit 63 clear, wraps to INITIAL). "
                       "Pairwise distinctness under concurrency follows from this contract only with the atomicity of the single fetch_add (assumed; checked syntactically).",
        "not_decided": ["interleavings of FileId::new across threads (atomicity of AtomicU64::fetch_add assumed; Kani has no threads)",
                        "concurrent parse/validate/introspect equivalence (schedules)"],
    },
}
