"""Which units decide which property (read by tools/check.py)."""

PROPS = {
    "C29": {
        "level": "proof",
        "verus": ["types"],
        "explanation": "Verus proves, for every Type value of any nesting, that Type::is_assignable_to == AreTypesCompatible, "
                       "is_variable_usage_allowed == IsVariableUsageAllowed (incl. null default) and "
                       "is_valid_implementation_field_type == IsValidImplementationFieldType over the relation computed by Schema::is_subtype; "
                       "bodies are re-extracted from /repo on every run.",
        "not_decided": ["Schema::is_subtype computes the spec's possible-type / declared-implementation relation (IndexMap lookups; assumed)",
                        "call sites pass the right definitions to these functions"],
    },
}
